"""E8 -- STATE: named CFG / typestate / must-pass-through rule instances shared by several properties."""
from . import mir
from .common import call_matches, is_trait_call, with_closures
from .engine import ok, finding, where
from .facts import BrokenCheck


CT = "tx3_tir::compile::CompiledTx"
OPT_CT = "std::option::Option<%s>" % CT
OPT_REF_CT = "std::option::Option<&%s>" % CT
LOOP_FN = "tx3_resolver::resolve_tx"      # public entry point: the one name the resolve-loop rules are anchored to


def same_crate_policy(crate, exclude=()):
    """inline plain functions / inherent methods of `crate` (helpers a refactoring may have extracted), nothing else"""
    def want(t, callee):
        if callee["crate"] != crate or callee.get("impl_trait") or callee.get("trait_default"):
            return False
        if callee["path"] in exclude:
            return False
        return len(callee["blocks"]) <= 400
    return want


_ROLES = {}


def resolver_roles(F):
    """(loop fn path, pass fn path): the pass function is the function of tx3_resolver called from resolve_tx's body whose
    own body - helpers of the crate inlined - calls Compiler::compile.  Found by role, not by name."""
    if id(F) in _ROLES:
        return _ROLES[id(F)]
    lf = F.body(LOOP_FN)
    cands = []
    for bi, t in mir.calls(lf):
        r = t.get("resolved") or t.get("callee") or ""
        if r in F.fns and F.fns[r]["crate"] == "tx3_resolver" and not r.endswith("::{closure#0}") and r not in cands:
            cands.append(r)
    passes = []
    for c in cands:
        body = mir.inline_calls(F, F.body(c), want=same_crate_policy("tx3_resolver"), depth=3)
        if any(is_trait_call(t, "tx3_tir::compile::Compiler", "compile") for bi, t in mir.calls(body)):
            passes.append(c)
    if len(passes) != 1:
        raise BrokenCheck("resolve_tx: expected exactly one callee that (with its helpers) calls Compiler::compile, found %r" % passes)
    _ROLES[id(F)] = (LOOP_FN, passes[0])
    return _ROLES[id(F)]


def pass_body(F):
    """the pass function's CFG with the crate's helper functions inlined"""
    _, p = resolver_roles(F)
    return mir.inline_calls(F, F.body(p), want=same_crate_policy("tx3_resolver"), depth=3)


_LB = {}


def loop_body(F):
    """resolve_tx's CFG with the crate's helpers (not the pass function) inlined; a state struct of the crate that carries
    the last evaluation in a field (`state.best: Option<CompiledTx>`, the pass function a method taking `&state`) is split
    into one variable per field, which gives the loop the shape the rules below describe"""
    if id(F) not in _LB:
        l, p = resolver_roles(F)
        _LB[id(F)] = (F, _split_state(F, mir.inline_calls(F, F.body(l), want=same_crate_policy("tx3_resolver", exclude=(p,)), depth=2)))
    return _LB[id(F)][1]


def _split_state(F, f):
    """scalar replacement of the loop's state struct.  Applies only when every use of the struct is a field access, a whole
    move between variables of its type (the constructor's result moved into the variable), the aggregate that builds it, a drop,
    or `&state` handed to a call; otherwise the body is returned as it is."""
    import copy
    T = adt = None
    for ty in f["locals"]:
        base = ty.split("<")[0]
        a = F.adts.get(base)
        if a and a.get("crate") == "tx3_resolver" and not a.get("is_enum") and len(a["variants"]) == 1 \
                and sum(1 for fd in a["variants"][0]["fields"] if fd["ty"] == OPT_CT) == 1:
            T, adt = base, a
            break
    if T is None:
        return f
    S = {i for i, ty in enumerate(f["locals"]) if ty.split("<")[0] == T}
    R = {i for i, ty in enumerate(f["locals"]) if ty.startswith("&") and ty.lstrip("&").replace("mut ", "").split("<")[0] == T}
    g = copy.deepcopy(f)
    N = {}
    best = None
    for fd in adt["variants"][0]["fields"]:
        g["locals"].append(fd["ty"])
        N[fd["name"]] = len(g["locals"]) - 1
        if fd["ty"] == OPT_CT:
            best = fd["name"]
    bad = []

    def rw(pl):
        if pl is None:
            return
        if pl["l"] in S:
            if pl["p"] and pl["p"][0][0] == "f" and str(pl["p"][0][1]) in N:
                nl = N[str(pl["p"][0][1])]
                pl["p"] = pl["p"][1:]
                pl["l"] = nl
            else:
                bad.append("whole use")
        elif pl["l"] in R and pl["p"]:
            bad.append("access through a reference")

    def rw_op(o):
        if isinstance(o, dict):
            rw(mir.op_place(o))
    for b in g["blocks"]:
        if b["cleanup"]:
            continue
        out = []
        for st in b["s"]:
            rv, lhs = st["rv"], st["lhs"]
            if lhs["l"] in S and not lhs["p"]:
                if rv["k"] == "agg" and rv.get("adt") == T:
                    for fld, o in zip(rv["fields"], rv["ops"]):
                        out.append({"lhs": {"l": N[fld], "p": []}, "rv": {"k": "use", "op": o}, "line": st["line"], "exp": st.get("exp", "")})
                    continue
                if rv["k"] == "use" and (mir.op_place(rv["op"]) or {}).get("l") in S and not mir.op_place(rv["op"])["p"]:
                    continue     # the constructor's result moved into the variable: one object
                bad.append("whole definition")
                continue
            if rv["k"] == "ref" and rv["pl"]["l"] in S and not rv["pl"]["p"] and lhs["l"] in R and not lhs["p"]:
                # `&state` for the pass function: stands for the previous evaluation it reads from it
                rv["pl"] = {"l": N[best], "p": []}
                g["locals"][lhs["l"]] = OPT_REF_CT
                out.append(st)
                continue
            rw(lhs)
            if rv["k"] in ("ref", "rawptr", "discr"):
                rw(rv["pl"])
            else:
                for o in mir.all_operands_of_rv(rv):
                    rw_op(o)
            out.append(st)
        b["s"] = out
        t = b["t"]
        if t["k"] == "call":
            for o in t["args"]:
                rw_op(o)
            rw(t.get("dest"))
        elif t["k"] == "switch":
            rw_op(t["discr"])
        elif t["k"] == "assert":
            rw_op(t["cond"])
    if bad:
        return f
    return g


def typed_locals(fn, ty, user_only=False):
    """locals of exactly this type (optionally only those that are source variables)"""
    out = [i for i, t in enumerate(fn["locals"]) if t == ty]
    if user_only:
        named = {pl["l"] for n, pl in fn["vars"] if not pl["p"]}
        out = [i for i in out if i in named]
    return out


def var_locals(fn, name):
    """locals bound to the source variable `name` (debug info), excluding upvar projections"""
    out = []
    for n, pl in fn["vars"]:
        if n == name and not pl["p"]:
            out.append(pl["l"])
    return out


def option_switch(fn, local):
    """(block, none_target, some_target) for `match local { None.., Some.. }` switches on discriminant(local)"""
    out = []
    for bi, b in enumerate(fn["blocks"]):
        if b["cleanup"]:
            continue
        dl = None
        for s in b["s"]:
            if s["rv"]["k"] == "discr" and s["rv"]["pl"]["l"] == local and not [p for p in s["rv"]["pl"]["p"] if p[0] != "d"]:
                dl = s["lhs"]["l"]
        t = b["t"]
        if dl is not None and t["k"] == "switch":
            pl = mir.op_place(t["discr"])
            if pl is not None and pl["l"] == dl:
                tm = dict((v, tb) for v, tb in t["targets"])
                none_t = tm.get(0)
                some_t = tm.get(1)
                if none_t is None and some_t is not None:
                    none_t = t["otherwise"]
                if some_t is None and none_t is not None:
                    some_t = t["otherwise"]
                out.append((bi, none_t, some_t))
    return out


def loop_form(F):
    """how the round loop and the pass function share the work.
    "option": the pass function is handed the previous evaluation (Option<&CompiledTx>), compares, and answers None for "same
              as before" (the form of the code today);
    "value":  the pass function is handed the fee to apply (an integer) and returns the evaluation; the loop compares."""
    f = pass_body(F)
    if typed_locals(f, OPT_REF_CT):
        return "option"
    own = F.body(resolver_roles(F)[1])
    if any(t in ("u64", "u128", "usize") for n, pl in own["vars"] for t in [_var_type(own, pl)] if t):
        return "value"
    raise BrokenCheck("the pass function takes neither a previous evaluation (Option<&CompiledTx>) nor a fee: anchor changed")


def _var_type(fn, pl):
    """type of a source variable: the local's type, or the type a captured variable's field projection records"""
    if not pl["p"]:
        return fn["locals"][pl["l"]] if 1 <= pl["l"] <= fn["argc"] else None
    last = pl["p"][-1]
    return last[-1] if last[0] == "f" and pl["l"] == 1 else None


AWAIT = ("std::future::Future::poll", "std::pin::Pin::<Ptr>::new_unchecked", "std::future::IntoFuture::into_future", "<F as std::future::IntoFuture>::into_future")


class _Strict:
    """a DefUse view in which variables assigned more than once (loop-carried state) have no definition: provenance stops at
    them and names them"""

    def __init__(self, du):
        self.fn = du.fn
        self.partial = du.partial
        self.carried = {l for l, ds in du.defs.items() if len(ds) > 1}
        self.defs = {l: ds for l, ds in du.defs.items() if len(ds) == 1}


def _pass_result(F, f, o, body=None):
    """is this origin the result of (an await of) the pass function - inside `body` when given"""
    pfn = resolver_roles(F)[1]
    return o.kind == "call" and (o.callee or "").startswith(pfn) and (body is None or o.bb in body)


def equality_exit(F, f, cfg, du, calls, body, u, v):
    """value form: is the edge u -> v the *equal* edge of a comparison between this round's evaluation and what the round was
    fed with?  Accepted: `eval.fee == fees` (integers) where `fees` is the variable handed to the pass function, and
    `eval == best` (CompiledTx equality) where `best.fee` is handed to the pass function; in both cases every assignment of
    that variable inside the loop stores this round's evaluation (or its fee).  Returns a reason or None."""
    t = f["blocks"][u]["t"]
    if t["k"] != "switch":
        return None
    pl = mir.op_place(t["discr"])
    if pl is None or pl["p"]:
        return None
    l = pl["l"]
    for _ in range(6):
        ds = du.defs.get(l, [])
        if len(ds) == 1 and ds[0][0] == "stmt" and ds[0][3]["rv"]["k"] == "use":
            p2 = mir.op_place(ds[0][3]["rv"]["op"])
            if p2 is not None and not p2["p"]:
                l = p2["l"]
                continue
        break
    ds = du.defs.get(l, [])
    if len(ds) != 1:
        return None
    d = ds[0]
    negated = False
    if d[0] == "stmt" and d[3]["rv"]["k"] == "unop" and d[3]["rv"].get("op") == "Not":
        p2 = mir.op_place(d[3]["rv"]["a"])
        ds2 = du.defs.get(p2["l"], []) if p2 is not None and not p2["p"] else []
        if len(ds2) != 1:
            return None
        d = ds2[0]
        negated = True
    if d[0] == "stmt" and d[3]["rv"]["k"] == "binop" and d[3]["rv"]["op"] in ("Eq", "Ne"):
        equal_when = d[3]["rv"]["op"] == "Eq"
        sides = [d[3]["rv"]["a"], d[3]["rv"]["b"]]
        whole = False
    elif d[0] == "call" and (d[3].get("callee") or "") in ("std::cmp::PartialEq::eq", "std::cmp::PartialEq::ne") and len(d[3]["args"]) == 2:
        if "CompiledTx" not in (d[3].get("resolved") or "") + " ".join(d[3].get("gargs") or []):
            return None
        equal_when = d[3]["callee"].endswith("::eq")
        sides = d[3]["args"]
        whole = True
    else:
        return None
    if negated:
        equal_when = not equal_when
    tm = dict((a, b2) for a, b2 in t["targets"])
    false_t = tm.get(0, t["otherwise"])
    true_t = t["otherwise"] if 0 in tm else tm.get(1, t["otherwise"])
    if v != (true_t if equal_when else false_t):
        return None
    strict = _Strict(du)
    new_side = prev = None
    for i, sd in enumerate(sides):
        org = mir.provenance(f, strict, sd, transparent_extra=AWAIT)
        if org and all(_pass_result(F, f, o, body) and (whole or ".fee" in o.proj) for o in org):
            new_side = i
        elif len(org) == 1 and org[0].kind == "local" and org[0].local in strict.carried and (whole or f["locals"][org[0].local] in ("u64",) or ".fee" in org[0].proj):
            prev = org[0]
    if new_side is None or prev is None:
        return None
    # what the round was fed with is that variable (its fee)
    fed = False
    for cb, ct in calls:
        if cb not in body:
            continue
        for a in ct["args"]:
            apl = mir.op_place(a)
            if apl is None or f["locals"][apl["l"]] not in ("u64",):
                continue
            org = mir.provenance(f, strict, a)
            if len(org) == 1 and org[0].kind == "local" and org[0].local == prev.local and (f["locals"][prev.local] == "u64" or ".fee" in org[0].proj):
                fed = True
    if not fed:
        return None
    # inside the loop the variable only ever takes this round's evaluation (its fee)
    for dd in du.defs.get(prev.local, []):
        if dd[1] not in body:
            continue
        if dd[0] != "stmt" or dd[3]["rv"]["k"] not in ("use", "cast"):
            return None
        org = mir.provenance(f, strict, dd[3]["rv"]["op"], transparent_extra=AWAIT)
        if not (org and all(_pass_result(F, f, o, body) and (f["locals"][prev.local] != "u64" or ".fee" in o.proj) for o in org)):
            return None
    return "leaves the loop when this round's %s equals what the round was computed with" % ("evaluation" if whole else "fee")


def _state_field(f, du, op, depth=0):
    """walk back through copies, borrows and derefs from `op`: the first field projection of a type of tx3_resolver that holds a
    CompiledTx (`rounds.best`): (adt, field) - loop-carried state kept in a struct - else None"""
    pl = mir.op_place(op) if "l" not in op else op
    seen = set()
    while pl is not None and depth < 12:
        depth += 1
        for q in pl["p"]:
            if q[0] == "f" and len(q) > 4 and str(q[2]).startswith("tx3_resolver") and CT in str(q[4]):
                return (str(q[2]), str(q[1]))
        if pl["l"] in seen:
            return None
        seen.add(pl["l"])
        ds = du.defs.get(pl["l"], [])
        if len(ds) != 1:
            return None
        d = ds[0]
        if d[0] == "stmt" and d[3]["rv"]["k"] in ("use", "cast"):
            pl = mir.op_place(d[3]["rv"]["op"])
        elif d[0] == "stmt" and d[3]["rv"]["k"] in ("ref", "rawptr"):
            pl = d[3]["rv"]["pl"]
        elif d[0] == "call" and mir.is_transparent(d[3], ("std::option::Option::<T>::as_ref", "std::ops::Deref::deref")) and d[3]["args"]:
            pl = mir.op_place(d[3]["args"][0])
        else:
            return None
    return None


def equality_exit_state(F, f, cfg, du, calls, body, u, v):
    """like equality_exit, for a loop whose previous evaluation lives in a field of a state struct (`rounds.best`): the edge
    u -> v is taken exactly when `candidate != *prev` is false for the `prev` read out of that field; a constant verdict on the
    way (`None => true`) never takes the edge; the pass function is fed the fee of that field's value; and inside the loop the
    field is only ever assigned `Some(<this round's evaluation>)`."""
    t = f["blocks"][u]["t"]
    if t["k"] != "switch":
        return None
    pl = mir.op_place(t["discr"])
    if pl is None or pl["p"]:
        return None
    l, negated = pl["l"], False
    for _ in range(8):
        ds = du.defs.get(l, [])
        if len(ds) == 1 and ds[0][0] == "stmt" and ds[0][3]["rv"]["k"] == "use":
            p2 = mir.op_place(ds[0][3]["rv"]["op"])
            if p2 is not None and not p2["p"]:
                l = p2["l"]
                continue
        if len(ds) == 1 and ds[0][0] == "stmt" and ds[0][3]["rv"]["k"] == "unop" and ds[0][3]["rv"].get("op") == "Not":
            p2 = mir.op_place(ds[0][3]["rv"]["a"])
            if p2 is not None and not p2["p"]:
                l = p2["l"]
                negated = not negated
                continue
        break
    cmpd, consts = None, []
    for d in du.defs.get(l, []):
        if d[0] == "call" and (d[3].get("callee") or "") in ("std::cmp::PartialEq::eq", "std::cmp::PartialEq::ne") and len(d[3]["args"]) == 2 \
                and "CompiledTx" in (d[3].get("resolved") or "") + " ".join(d[3].get("gargs") or []):
            if cmpd is not None:
                return None
            cmpd = d[3]
        elif d[0] == "stmt" and d[3]["rv"]["k"] == "use" and (mir.op_const(d[3]["rv"]["op"]) or {}).get("ty") == "bool":
            consts.append(bool(mir.op_const(d[3]["rv"]["op"]).get("int")))
        else:
            return None
    if cmpd is None:
        return None
    tm = dict((a, b2) for a, b2 in t["targets"])
    false_t = tm.get(0, t["otherwise"])
    true_t = t["otherwise"] if 0 in tm else tm.get(1, t["otherwise"])

    def takes_v(r):
        b = (not r) if negated else r
        return v == (true_t if b else false_t)
    equal_r = cmpd["callee"].endswith("::eq")      # value of the raw bool when the two are equal
    if not takes_v(equal_r) or takes_v(not equal_r) or any(takes_v(c) for c in consts):
        return None
    strict = _Strict(du)
    new_side = state = None
    for sd in cmpd["args"]:
        org = mir.provenance(f, strict, sd, transparent_extra=AWAIT)
        if org and all(_pass_result(F, f, o, body) for o in org):
            new_side = sd
        else:
            st_ = _state_field(f, du, sd)
            if st_:
                state = st_
    if new_side is None or state is None:
        return None
    adt, fld = state
    # every write of the field inside the loop stores Some(<this round's evaluation>)
    for bi, si, st in mir.stmts(f):
        if not any(q[0] == "f" and str(q[2]) == adt and str(q[1]) == fld for q in st["lhs"]["p"]):
            continue
        if bi not in body:
            continue
        rv = st["rv"]
        src = None
        if rv["k"] == "agg" and rv.get("variant") == "Some" and rv["ops"]:
            src = rv["ops"][0]
        elif rv["k"] == "use":
            for o in mir.provenance(f, strict, rv["op"]):
                if o.kind == "agg" and o.rv.get("variant") == "Some" and o.rv["ops"]:
                    src = o.rv["ops"][0]
        if src is None:
            return None
        org = mir.provenance(f, strict, src, transparent_extra=AWAIT)
        if not (org and all(_pass_result(F, f, o, body) for o in org)):
            return None
    # the pass function is fed the fee of the field's value
    fed = False
    for cb, ct in calls:
        if cb not in body:
            continue
        for a in ct["args"]:
            apl = mir.op_place(a)
            if apl is None or f["locals"][apl["l"]] != "u64":
                continue
            for o in mir.provenance(f, du, a):
                if o.kind == "call" and o.callee in ("std::option::Option::<T>::map_or", "std::option::Option::<T>::map", "std::option::Option::<T>::unwrap_or", "std::option::Option::<T>::map_or_else") and o.term["args"]:
                    reads_fee = any(any(q[0] == "f" and q[1] == "fee" and str(q[2]) == CT for q in (mir.op_place(x) or {"p": []})["p"])
                                    for c in o.term.get("fnrefs") or () if c in F.fns for _, _, s2 in mir.stmts(F.fns[c]) for x in mir.all_operands_of_rv(s2["rv"]))
                    if _state_field(f, du, o.term["args"][0]) == state and reads_fee:
                        fed = True
                elif ".fee" in o.proj and _state_field(f, du, a) == state:
                    fed = True
    if not fed:
        return None
    return "leaves the loop when this round's evaluation equals the previous one kept in %s.%s, whose fee the round was computed with" % (adt.split("::")[-1], fld)


def _verdict_sites(F, f, du, cfg, u, v):
    """the exit u -> v tests a *verdict variable*: a local that is only ever assigned constants (variants of a field-less enum,
    bool literals), decided elsewhere (`match rounds.record(candidate) { Stop => break, .. }`).  Returns the blocks of the
    assignments whose value takes the edge to v (each with the branch that controls it: (switch block, successor)), or None."""
    t = f["blocks"][u]["t"]
    if t["k"] != "switch":
        return None
    pl = mir.op_place(t["discr"])
    if pl is None or pl["p"]:
        return None
    x, enum = pl["l"], None
    for st in f["blocks"][u]["s"]:
        if st["lhs"]["l"] == pl["l"] and st["rv"]["k"] == "discr":
            x, enum = st["rv"]["pl"]["l"], st["rv"].get("adt")
    for _ in range(8):
        ds = du.defs.get(x, [])
        if len(ds) == 1 and ds[0][0] == "stmt" and ds[0][3]["rv"]["k"] == "use":
            p2 = mir.op_place(ds[0][3]["rv"]["op"])
            if p2 is not None and not p2["p"]:
                x = p2["l"]
                continue
        break
    ds = du.defs.get(x, [])
    if len(ds) < 2:
        return None
    tm = dict((a, b2) for a, b2 in t["targets"])
    vals = []
    for d in ds:
        if d[0] != "stmt":
            return None
        rv = d[3]["rv"]
        if enum and rv["k"] == "agg" and rv.get("adt") == enum and not rv.get("ops"):
            adt = F.adts.get(enum)
            idx = {vv["name"]: vv["discr"] for vv in adt["variants"]}.get(rv.get("variant")) if adt else None
            if idx is None:
                return None
            vals.append((d[1], idx))
        elif not enum and rv["k"] == "use" and (mir.op_const(rv["op"]) or {}).get("ty") == "bool":
            vals.append((d[1], int(bool(mir.op_const(rv["op"]).get("int")))))
        else:
            return None
    out = []
    for bd, val in vals:
        if tm.get(val, t["otherwise"]) != v:
            continue
        cur, ctrl = bd, None
        for _ in range(12):
            preds = [p_ for p_ in cfg.pred[cur] if not f["blocks"][p_]["cleanup"]]
            if len(preds) != 1:
                break
            p_ = preds[0]
            if f["blocks"][p_]["t"]["k"] == "switch" and len({s_ for s_ in cfg.succ[p_] if not (f["blocks"][s_]["t"]["k"] == "unreachable" and not f["blocks"][s_]["s"])}) > 1:
                ctrl = (p_, cur)
                break
            cur = p_
        if ctrl is None:
            return None
        out.append((bd, ctrl))
    return out or None


def eval_pass_first_round_is_some(F):
    """in eval_pass, `Ok(None)` (= "nothing better, converged") is returned only when a previous evaluation was
    supplied: dominated by the Some edge of the match on the `last_eval` parameter.  Returns (bool, reason, fn)"""
    f = pass_body(F)
    cfg = mir.CFG(f)
    du = mir.DefUse(f)
    les = typed_locals(f, OPT_REF_CT)
    if not les and loop_form(F) == "value":
        return True, "value form: the pass function returns every evaluation and the loop compares (see the loop exits)", f
    if not les:
        raise BrokenCheck("the pass function takes no previous evaluation (no Option<&CompiledTx> local): anchor changed")
    sw = []
    for l in les:
        sw += option_switch(f, l)
    # (no early verdict when there is no `match`: the previous evaluation may be consulted as `previous.map_or(true, |p| ..)`)
    # Ok(None) returns
    none_returns = []
    some_returns = []
    flag_ok = None
    for bi, si, s in mir.stmts(f):
        rv = s["rv"]
        if s["lhs"]["l"] == 0 and not s["lhs"]["p"] and rv["k"] == "agg" and rv.get("variant") == "Ok":
            for o in mir.provenance(f, du, rv["ops"][0]):
                if o.kind == "agg" and o.rv.get("adt", "").endswith("::Option"):
                    # (judged where the `None` / `Some(..)` is built: a helper `keep_if_changed(prev, eval)` hands it to one
                    # shared `Ok(..)` behind the join)
                    (none_returns if o.rv["variant"] == "None" else some_returns).append(o.bb if o.bb is not None else bi)
                elif o.kind == "call" and o.callee in ("std::bool::<impl bool>::then_some", "core::bool::<impl bool>::then_some") and o.term["args"]:
                    # `Ok(changed.then_some(eval))`: None exactly when the flag is false.  The flag may be false only as the
                    # result of comparing the new evaluation with the supplied previous one (on the Some edge of the match
                    # on it); a literal `true` on the other edge is fine, a literal `false` is an unconditional None.
                    good_flag = True
                    for fo in mir.provenance(f, du, o.term["args"][0]):
                        if fo.kind == "const" and fo.const.get("int") == 1:
                            continue
                        if fo.kind == "call" and fo.callee in ("std::option::Option::<T>::map_or", "std::option::Option::<T>::is_none_or") and fo.term["args"]:
                            # `previous.map_or(true, |p| eval != *p)`: false only as the outcome of the comparison made for a
                            # supplied previous evaluation
                            recv_ok = mir.op_place(fo.term["args"][0]) is not None and f["locals"][mir.op_place(fo.term["args"][0])["l"]] == OPT_REF_CT
                            dflt = mir.op_const(fo.term["args"][1]) if fo.callee.endswith("map_or") and len(fo.term["args"]) > 2 else {"int": 1}
                            cmp_ok = False
                            for fr in fo.term.get("fnrefs") or ():
                                g = F.fns.get(fr)
                                if g is not None and any((t2.get("callee") or "") in ("std::cmp::PartialEq::ne", "std::cmp::PartialEq::eq") and "CompiledTx" in ((t2.get("resolved") or "") + " ".join(t2.get("gargs") or []))
                                                         for _, t2 in mir.calls(g)):
                                    cmp_ok = True
                            if recv_ok and dflt and dflt.get("int") == 1 and cmp_ok:
                                continue
                        if fo.kind == "local" and fo.rv is not None and fo.rv.get("k") == "unop" and fo.rv.get("op") == "Not":
                            # `let settled = previous.is_some_and(|p| *p == eval); (!settled).then_some(eval)`: the flag is false
                            # exactly when a previous evaluation was supplied and compared equal
                            inner = mir.provenance(f, du, fo.rv["a"])
                            okk = bool(inner)
                            for io in inner:
                                if not (io.kind == "call" and io.callee == "std::option::Option::<T>::is_some_and" and io.term["args"]):
                                    okk = False
                                    continue
                                rp = mir.op_place(io.term["args"][0])
                                recv_ok = rp is not None and f["locals"][rp["l"]] == OPT_REF_CT
                                cmp_ok = any((t2.get("callee") or "") == "std::cmp::PartialEq::eq" and "CompiledTx" in ((t2.get("resolved") or "") + " ".join(t2.get("gargs") or []))
                                             for fr in io.term.get("fnrefs") or () if fr in F.fns for _, t2 in mir.calls(F.fns[fr]))
                                if not (recv_ok and cmp_ok):
                                    okk = False
                            if okk:
                                continue
                        if fo.kind == "call" and fo.callee in ("std::cmp::PartialEq::ne",) and "CompiledTx" in ((fo.term.get("resolved") or "") + " ".join(fo.term.get("gargs") or [])):
                            if any(some_t is not None and cfg.dominates(some_t, fo.bb) and (none_t is None or fo.bb not in cfg.reach_from(none_t)) for (_, none_t, some_t) in sw):
                                continue
                        good_flag = False
                    flag_ok = good_flag if flag_ok is None else (flag_ok and good_flag)
    if flag_ok is not None and not none_returns:
        if flag_ok:
            return True, "the result is `changed.then_some(eval)` and `changed` can be false only as the outcome of comparing the new evaluation with the supplied previous one", f
        return False, "the pass function can report convergence (None) without having compared with a previous evaluation", f
    if not none_returns:
        return False, "eval_pass never returns Ok(None): the resolve loop cannot detect convergence", f
    if not sw:
        return False, "the pass function does not match on the previous evaluation it is given", f
    for nb in none_returns:
        good = False
        for (bi, none_t, some_t) in sw:
            if some_t is not None and cfg.dominates(some_t, nb) and (none_t is None or nb not in cfg.reach_from(none_t)):
                good = True
        if not good:
            return False, "eval_pass can return Ok(None) although no previous evaluation was supplied", f
    return True, "Ok(None) is dominated by the Some edge of `let Some(last_eval) = last_eval else { return Ok(Some(eval)) }`", f


def resolve_loop_facts(F):
    """facts about resolve_tx's loop: the variable holding the last evaluation, the eval_pass call, exits"""
    _, pfn = resolver_roles(F)
    f = loop_body(F)
    cfg = mir.CFG(f)
    du = mir.DefUse(f)
    calls = [(bi, t) for bi, t in mir.calls(f) if call_matches(t, pfn)]
    if not calls:
        raise BrokenCheck("resolve_tx no longer calls its pass function")
    # the variable holding the last evaluation: the Option<CompiledTx> whose reference is handed to the pass function
    cands = set(typed_locals(f, OPT_CT))
    les = set()
    for bi, t in calls:
        for a in t["args"]:
            apl = mir.op_place(a)
            if apl is None or f["locals"][apl["l"]] != OPT_REF_CT:
                continue
            for o in mir.provenance(f, du, a, transparent_extra=("std::option::Option::<T>::as_ref",)):
                if o.kind in ("local", "agg") and getattr(o, "local", None) in cands:
                    les.add(o.local)
                elif o.kind == "agg":
                    # `as_ref` of a variable that is only ever assigned aggregates: find it through the reference
                    pass
    if not les:
        # fall back: walk the reference chain by hand (provenance stops at aggregates assigned to the variable)
        for bi, t in calls:
            for a in t["args"]:
                st = [mir.op_place(a)["l"]] if mir.op_place(a) is not None else []
                seen = set()
                while st:
                    x = st.pop()
                    if x in seen:
                        continue
                    seen.add(x)
                    if x in cands:
                        les.add(x)
                        continue
                    for d in du.defs.get(x, []):
                        if d[0] == "call":
                            if (d[3].get("callee") or "") == "std::option::Option::<T>::as_ref" and d[3]["args"]:
                                p2 = mir.op_place(d[3]["args"][0])
                                if p2 is not None:
                                    st.append(p2["l"])
                        else:
                            rv = d[3]["rv"]
                            p2 = mir.op_place(rv.get("op")) if rv["k"] == "use" else (rv.get("pl") if rv["k"] == "ref" else None)
                            if p2 is not None:
                                st.append(p2["l"])
    if loop_form(F) == "value":
        # the pass function takes the fee to apply and returns the evaluation; the comparison is made by the loop itself
        return f, cfg, du, None, calls
    if len(les) != 1:
        raise BrokenCheck("resolve_tx: expected one variable holding the last evaluation (an Option<CompiledTx> whose reference is handed to the pass function), found %d" % len(les))
    le = sorted(les)[0]
    return f, cfg, du, le, calls


def resolve_unwrap_discharge(F, site):
    """D-FIRSTROUND for `last_eval.unwrap()` in resolve_tx"""
    f, cfg, du, le, calls = resolve_loop_facts(F)
    if le is None:
        return _state_unwrap_discharge(F, site, f, cfg, du, calls)
    if site.fn["path"] != f["path"]:
        return None
    t = site.term
    orig = mir.provenance(f, du, t["args"][0])
    if not all((o.kind in ("local", "agg")) for o in orig):
        pass
    pl = mir.op_place(t["args"][0])
    # the unwrapped value is (a move of) the last_eval variable
    roots = set()
    st = [pl["l"]] if pl is not None else []
    seen = set()
    while st:
        x = st.pop()
        if x in seen:
            continue
        seen.add(x)
        if x == le:
            roots.add(x)
            continue
        for d in du.defs.get(x, []):
            if d[0] == "stmt" and d[3]["rv"]["k"] == "use":
                p2 = mir.op_place(d[3]["rv"]["op"])
                if p2 is not None and not p2["p"]:
                    st.append(p2["l"])
    if le not in roots:
        return None
    # every definition of last_eval is `None` (initialisation) or `Some(..)`
    for d in du.defs.get(le, []):
        if d[0] != "stmt":
            return None
        rv = d[3]["rv"]
        if rv["k"] == "agg" and rv.get("adt", "").endswith("::Option"):
            continue
        if rv["k"] == "use":
            src = mir.provenance(f, du, rv["op"])
            if all(o.kind == "agg" and o.rv.get("adt", "").endswith("::Option") for o in src):
                continue
        return None
    # the previous evaluation handed to eval_pass is this variable
    for bi, ct in calls:
        a = None
        for cand in ct["args"]:
            cpl = mir.op_place(cand)
            if cpl is not None and f["locals"][cpl["l"]] == OPT_REF_CT:
                a = cand
        if a is None:
            return None
        o4 = mir.provenance(f, du, a, transparent_extra=("std::option::Option::<T>::as_ref",))
        if not any(o.kind == "local" and o.local == le or (o.kind == "agg") for o in o4) and not any(getattr(o, "local", None) == le for o in o4):
            return None
    good, reason, _ = eval_pass_first_round_is_some(F)
    if not good:
        return None
    return "D-FIRSTROUND: last_eval starts as None, eval_pass(.., None) always yields Some (%s), so the loop body assigns Some before any exit" % reason


def _state_unwrap_discharge(F, site, f, cfg, du, calls):
    """D-FIRSTROUND for a loop that keeps the best evaluation in a field of a state struct (`rounds.best.unwrap()` after the
    loop, possibly inside a small method such as `into_best(self)`): every way out of the loop towards Ok(..) either is the
    confirmed exit - which compares with the `Some` payload of that field - or is dominated by a write `field = Some(..)`."""
    t = site.term
    if not t or t.get("k") != "call" or not t.get("args") or not (t.get("callee") or "").endswith("::unwrap"):
        return None
    state = _state_field(site.fn, mir.DefUse(site.fn), t["args"][0])
    if state is None:
        return None
    adt, fld = state
    # the unwrap is used by the loop function only, after the loop
    if site.fn["path"] != f["path"]:
        from .common import callers_index
        cs = callers_index(F).get(site.fn["path"], [])
        if not cs or any((g.get("owner") or g["path"]) not in (f["path"], f.get("owner"), LOOP_FN, LOOP_FN + "::{closure#0}") for g, _ in cs):
            return None
    loops = cfg.loops()
    body = None
    for call_bb, _ in calls:
        for h, blks in loops.items():
            if call_bb in blks and (body is None or len(blks) > len(body)):
                body = blks
    if body is None:
        return None
    writes = [bi for bi, si, st in mir.stmts(f) if bi in body and any(q[0] == "f" and str(q[2]) == adt and str(q[1]) == fld for q in st["lhs"]["p"])
              and (st["rv"]["k"] == "agg" and st["rv"].get("variant") == "Some" or st["rv"]["k"] == "use")]
    if not writes:
        return None
    ok_returns = {bi for bi, si, st in mir.stmts(f) if st["lhs"]["l"] == 0 and not st["lhs"]["p"] and st["rv"]["k"] == "agg" and st["rv"].get("variant") == "Ok"}
    n = 0
    for u in sorted(body):
        for v in cfg.succ[u]:
            if v in body or f["blocks"][v]["cleanup"]:
                continue
            if not (ok_returns & cfg.reach_from(v)) and v not in ok_returns:
                continue
            vs = _verdict_sites(F, f, du, cfg, u, v)
            sites_ = [(bd, pu, pv) for bd, (pu, pv) in vs] if vs else [(u, u, v)]
            for bd, pu, pv in sites_:
                n += 1
                if equality_exit_state(F, f, cfg, du, calls, body, pu, pv):
                    continue
                if any(cfg.dominates(wb, bd) for wb in writes):
                    continue
                return None
    if n == 0:
        return None
    return "D-FIRSTROUND: %s.%s is Some on every way out of the round loop (%d exits: the confirmed one compares with its Some payload, the others are dominated by `%s = Some(<this round's evaluation>)`)" % (adt.split("::")[-1], fld, n, fld)


EXIT_SITES = {}     # id(F) -> [(block that leaves the loop without a confirmed fixed point, loop body)]


def resolve_loop_exits(F):
    """S-CONVERGE: classify the exits of resolve_tx's evaluation loop.
    Returns list of (kind, line, detail) with kind in {"converged", "error", "unconverged"}"""
    f, cfg, du, le, calls = resolve_loop_facts(F)
    loops = cfg.loops()
    # the round loop: the largest natural loop containing a call of the pass function (a first pass hoisted in front of the
    # loop is a call outside of it)
    body = None
    for call_bb, _ in calls:
        for h, blks in loops.items():
            if call_bb in blks:
                if body is None or len(blks) > len(body):
                    body = blks
    if body is None:
        raise BrokenCheck("resolve_tx: eval_pass is not called inside a loop (anchor changed)")
    ok_returns = set()
    for bi, si, s in mir.stmts(f):
        rv = s["rv"]
        if s["lhs"]["l"] == 0 and not s["lhs"]["p"] and rv["k"] == "agg" and rv.get("variant") == "Ok" and rv.get("adt", "").endswith("::Result"):
            ok_returns.add(bi)
    out = []
    sites = EXIT_SITES[id(F)] = []
    for u in sorted(body):
        for v in cfg.succ[u]:
            if v in body or f["blocks"][v]["cleanup"]:
                continue
            reach = cfg.reach_from(v)
            line = f["blocks"][u]["t"].get("line")
            if not (ok_returns & reach) and v not in ok_returns:
                out.append(("error", line, "exit to an error return"))
                continue
            # success exit: must be the None edge of the match on eval_pass's result
            conv = False
            for (sb, none_t, some_t) in _all_option_switches(f):
                if sb == u and v == none_t:
                    # the matched value derives from the eval_pass call
                    dl = _switch_scrutinee(f, sb)
                    orig = mir.provenance(f, du, {"l": dl, "p": []}) if dl is not None else []
                    if any(o.kind == "call" and o.callee.startswith(resolver_roles(F)[1]) for o in orig):
                        conv = True
            eq = None if conv else (equality_exit(F, f, cfg, du, calls, body, u, v) or equality_exit_state(F, f, cfg, du, calls, body, u, v))
            if eq:
                out.append(("converged", line, eq))
                continue
            vs = None if conv else _verdict_sites(F, f, du, cfg, u, v)
            if vs:
                # the exit tests a verdict decided elsewhere: each place that decides "stop" is an exit of its own
                for bd, (pu, pv) in vs:
                    pline = f["blocks"][pu]["t"].get("line")
                    eq2 = equality_exit(F, f, cfg, du, calls, body, pu, pv) or equality_exit_state(F, f, cfg, du, calls, body, pu, pv)
                    if eq2:
                        out.append(("converged", pline, eq2))
                    else:
                        how2 = _exit_condition(f, du, pu)
                        sites.append((pu, body))
                        out.append(("unconverged: " + how2, pline, "leaves the loop towards `Ok(..)` (%s) without eval_pass having reported convergence" % how2))
                continue
            how = _exit_condition(f, du, u)
            if not conv:
                sites.append((u, body))
            out.append(("converged" if conv else "unconverged: " + how, line,
                        "leaves the loop on eval_pass() == None" if conv else "leaves the loop towards `Ok(..)` (%s) without eval_pass having reported convergence" % how))
    return f, out


def _exit_condition(f, du, u):
    """short structural description of the branch in block u that leaves the loop (part of the finding's identity: a different
    way of giving up is a different finding)"""
    t = f["blocks"][u]["t"]
    if t["k"] == "switch":
        pl = mir.op_place(t["discr"])
        if pl is not None:
            # through plain copies (the result of an inlined helper `fn limit_exceeded(..) -> bool { a > b }`)
            l = pl["l"]
            for _ in range(6):
                ds = [d for d in du.defs.get(l, []) if d[0] != "call"]
                if len(ds) == 1 and ds[0][3]["rv"]["k"] == "use":
                    p2 = mir.op_place(ds[0][3]["rv"]["op"])
                    if p2 is not None and not p2["p"]:
                        l = p2["l"]
                        continue
                break
            for d in du.defs.get(l, []):
                if d[0] != "call":
                    rv = d[3]["rv"]
                    if rv["k"] == "binop":
                        for side in (rv["a"], rv["b"]):
                            if any(".fee" in o.proj for o in mir.provenance(f, du, side, transparent_extra=AWAIT)):
                                return "on a `%s` comparison of fees" % rv["op"]
                        # the counter takes part as it is: `rounds.max(3) > limit` reaches the bound before a single round was
                        # confirmed whenever the limit is small
                        carried = {l_ for l_, ds_ in du.defs.items() if len(ds_) > 1}
                        for side in (rv["a"], rv["b"]):
                            for o in mir.provenance(f, du, side):
                                if o.kind == "call" and (o.callee or "").split("::")[-1] in ("max", "min", "clamp") and o.term["args"]:
                                    for a_ in o.term["args"]:
                                        if any(x.kind == "local" and x.local in carried for x in mir.provenance(f, _Strict(du), a_)):
                                            return "on a `%s` comparison of a clamped round counter (`%s`) with the bound" % (rv["op"], o.callee.split("::")[-1])
                        return "on a `%s` comparison of a round counter with the bound" % rv["op"]
                    if rv["k"] == "discr":
                        src = mir.provenance(f, du, {"l": rv["pl"]["l"], "p": []})
                        for o in src:
                            if o.kind == "call":
                                return "when `%s` yields %s" % ([x for x in o.callee.split("::") if not x.startswith("{closure")][-1], "None" if rv.get("adt", "").endswith("Option") else "another variant")
                        return "on a discriminant test"
    return "unconditionally"


def _switch_scrutinee(f, bb):
    b = f["blocks"][bb]
    t = b["t"]
    pl = mir.op_place(t["discr"])
    if pl is None:
        return None
    for s in b["s"]:
        if s["lhs"]["l"] == pl["l"] and s["rv"]["k"] == "discr":
            return s["rv"]["pl"]["l"]
    return None


def _all_option_switches(f):
    out = []
    for bi, b in enumerate(f["blocks"]):
        if b["cleanup"] or b["t"]["k"] != "switch":
            continue
        for s in b["s"]:
            if s["rv"]["k"] == "discr" and s["rv"]["adt"].endswith("::Option"):
                out += [x for x in option_switch(f, s["rv"]["pl"]["l"]) if x[0] == bi]
    return out
