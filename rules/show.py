"""debug helper: python3 -m rules.show <substring-of-fn-path> [--built]"""
import sys
from . import facts, mir
F = facts.load()
pat = sys.argv[1]
built = "--built" in sys.argv
src = F.built if built else F.fns
if "--ctfe" in sys.argv:
    src = F.ctfe
if "--list" in sys.argv:
    for p in sorted(src):
        if pat in p:
            print(p)
    sys.exit(0)
for p in sorted(src):
    if pat in p:
        print(mir.pretty(src[p]))
        print()
