"""E3 -- TRAV: traversal completeness.

For every impl of a traversal trait on an ADT `T` of the family, every family-typed field of
every variant of `T` must be *visited*: projected from `self` and passed to a call; and, for the
by-value rebuilding methods, it must not reach the rebuilt `Self` aggregate by a pure move
(identity flow).  Decided from MIR; covers all programs at once.
"""
import re

from . import mir
from .engine import Ob, ok, finding, assumption, where
from .facts import BrokenCheck

IDENT_RE = re.compile(r"[A-Za-z_][A-Za-z0-9_]*(?:::[A-Za-z_][A-Za-z0-9_]*)*")


def type_mentions(ty, names):
    for m in IDENT_RE.findall(ty):
        if m in names:
            return True
    return False


def compute_family(F, roots, module_prefix, exclude=()):
    """ADTs under module_prefix whose fields transitively mention a root type"""
    fam = set(roots)
    changed = True
    while changed:
        changed = False
        for p, a in F.adts.items():
            if p in fam or p in exclude or not p.startswith(module_prefix) or "::_::" in p or "<impl" in p:
                continue
            for v in a["variants"]:
                for fd in v["fields"]:
                    if type_mentions(fd["ty"], fam):
                        fam.add(p)
                        changed = True
                        break
                if p in fam:
                    break
    return fam


def family_fields(F, adt_path, fam):
    """[(variant, field, ty)] of family-typed fields"""
    a = F.adt(adt_path)
    out = []
    for v in a["variants"]:
        for fd in v["fields"]:
            if type_mentions(fd["ty"], fam):
                out.append((v["name"], fd["name"], fd["ty"]))
    return out


# calls through which a value keeps its identity (element-wise): used for identity-flow detection
IDENTITY_CALLS = mir.TRANSPARENT + (
    "std::iter::Iterator::collect", "std::slice::<impl [T]>::into_vec", "core::slice::<impl [T]>::iter",
    "std::option::Option::<T>::unwrap", "std::option::Option::<T>::take", "std::boxed::box_assume_init_into_vec_unsafe",
    "std::mem::take", "std::mem::replace", "std::slice::<impl [T]>::to_vec", "std::result::Result::<T, E>::unwrap",
    "std::option::Option::<T>::unwrap_or_default", "std::option::Option::<T>::unwrap_or",
    "std::iter::Iterator::next",   # `for x in self.items { .. }`: the element is part of the field
)


def self_field_flows(fn, adt_path, self_local=1):
    """Forward flow of each field of `self` (local 1, by value or behind a reference).

    Returns dict (variant, field) -> {"projected": bool, "calls": set(callee), "identity_agg": [line],
    "closure": set(closure path)}.
    """
    blocks = fn["blocks"]
    res = {}
    selfs = self_aliases(fn, self_local)

    def field_of(pl):
        """if place reads a field of self (or of a plain copy / reborrow of it, e.g. the `&self` handed to an inlined helper):
        (variant, field) of the first field projection on adt_path"""
        if pl["l"] not in selfs:
            return None
        var = ""
        for p in pl["p"]:
            if p[0] == "d":
                continue
            if p[0] == "dc":
                var = p[1]
                continue
            if p[0] == "f":
                if p[2] == adt_path:
                    return (p[3] or var, p[1])
                return None
            return None
        return None

    # taint: local -> set of (variant, field) whose identity it (partly) carries
    taint = {}
    # seeds are discovered while iterating; iterate to fixpoint over all statements (flow-insensitive,
    # which over-approximates identity flow only through locals reused for different values; MIR at
    # opt-level 0 gives every temporary its own local)
    def seeds_of_place(pl):
        s = set()
        fo = field_of(pl)
        if fo:
            s.add(fo)
        t = taint.get(pl["l"])
        if t and pl["l"] not in selfs:
            s |= t
        return s

    def seeds_of_op(op):
        pl = mir.op_place(op)
        if pl is None:
            return set()
        return seeds_of_place(pl)

    changed = True
    rounds = 0
    while changed and rounds < 50:
        rounds += 1
        changed = False
        for bi, b in enumerate(blocks):
            if b["cleanup"]:
                continue
            for s in b["s"]:
                rv = s["rv"]
                k = rv["k"]
                src = set()
                if k in ("use", "cast", "repeat"):
                    src = seeds_of_op(rv["op"])
                elif k in ("ref", "rawptr"):
                    src = seeds_of_place(rv["pl"])
                elif k == "agg":
                    if "tuple" in rv or "array" in rv:
                        for o in rv["ops"]:
                            src |= seeds_of_op(o)
                    elif "adt" in rv and rv["adt"] in ("core::option::Option", "core::result::Result", "core::ops::control_flow::ControlFlow",
                                                        "std::option::Option", "std::result::Result", "std::ops::ControlFlow"):
                        for o in rv["ops"]:
                            src |= seeds_of_op(o)
                if src:
                    l = s["lhs"]["l"]
                    if l not in selfs:
                        cur = taint.setdefault(l, set())
                        if not src <= cur:
                            cur |= src
                            changed = True
            t = b["t"]
            if t["k"] == "call" and mir.is_transparent(t, IDENTITY_CALLS[len(mir.TRANSPARENT):]):
                src = set()
                for a in t["args"][:1]:
                    src |= seeds_of_op(a)
                if src:
                    l = t["dest"]["l"]
                    cur = taint.setdefault(l, set())
                    if not src <= cur:
                        cur |= src
                        changed = True

    def rec(key):
        return res.setdefault(key, {"projected": False, "calls": set(), "identity_agg": [], "closure": set(), "returned": False, "read_blocks": set(), "terms": []})

    for key in taint.get(0, ()):
        rec(key)["returned"] = True

    for bi, b in enumerate(blocks):
        if b["cleanup"]:
            continue
        for s in b["s"]:
            rv = s["rv"]
            k = rv["k"]
            # direct projections
            places = []
            if k in ("use", "cast", "repeat"):
                pl = mir.op_place(rv["op"])
                if pl is not None:
                    places.append(pl)
            elif k in ("ref", "rawptr"):
                places.append(rv["pl"])
            elif k == "agg":
                for o in rv["ops"]:
                    pl = mir.op_place(o)
                    if pl is not None:
                        places.append(pl)
            elif k in ("binop",):
                for o in (rv["a"], rv["b"]):
                    pl = mir.op_place(o)
                    if pl is not None:
                        places.append(pl)
            if k == "discr":
                places.append(rv["pl"])
            for pl in places:
                fo = field_of(pl)
                if fo:
                    rec(fo)["projected"] = True
                    rec(fo)["read_blocks"].add(bi)
            if s["lhs"]["p"] and k in ("use", "agg"):
                # store through a pointer / into a field of another value (e.g. the `vec!` expansion writes the
                # element array through a raw pointer): the value is kept, by reference, in a collection
                for o in mir.all_operands_of_rv(rv):
                    for key in seeds_of_op(o):
                        rec(key)["returned"] = True
            if k == "agg":
                if rv.get("adt") == adt_path:
                    for o in rv["ops"]:
                        for key in seeds_of_op(o):
                            rec(key)["identity_agg"].append(s["line"])
                elif "closure" in rv:
                    for o in rv["ops"]:
                        for key in seeds_of_op(o):
                            rec(key)["closure"].add(rv["closure"])
        t = b["t"]
        if t["k"] == "call":
            for a in t["args"]:
                pl = mir.op_place(a)
                if pl is None:
                    continue
                fo = field_of(pl)
                if fo:
                    rec(fo)["projected"] = True
                    rec(fo)["read_blocks"].add(bi)
                for key in seeds_of_place(pl):
                    if not mir.is_transparent(t, IDENTITY_CALLS[len(mir.TRANSPARENT):]):
                        rec(key)["calls"].add(mir.callee_of(t))
                        rec(key)["terms"].append(t)
    # whole-self identity: `_0 = Ok(move _1)` or `_0 = move _1` -- every field of every variant
    whole = []
    tw = {self_local}
    changed = True
    while changed:
        changed = False
        for bi, b in enumerate(blocks):
            if b["cleanup"]:
                continue
            for s in b["s"]:
                rv = s["rv"]
                srcs = []
                if rv["k"] in ("use", "cast"):
                    srcs = [rv["op"]]
                elif rv["k"] == "agg" and ("adt" in rv and rv["adt"].endswith(("::Result", "::Option", "::ControlFlow"))):
                    srcs = rv["ops"]
                for o in srcs:
                    pl = mir.op_place(o)
                    if pl is not None and pl["l"] in tw and not [p for p in pl["p"] if p[0] != "d"]:
                        l = s["lhs"]["l"]
                        if l not in tw:
                            tw.add(l)
                            changed = True
                        if l == 0:
                            whole.append(s["line"])
    return res, sorted(set(whole))


def variant_arms(fn, self_local=1):
    """{variant name: target block} for the first switch on discriminant(self); None if absent.
    Needs the discr statement's adt to be known to the caller (returns (adt, mapping, otherwise))"""
    blocks = fn["blocks"]
    for bi, b in enumerate(blocks):
        if b["cleanup"]:
            continue
        dl = None
        adt = None
        for s in b["s"]:
            if s["rv"]["k"] == "discr" and s["rv"]["pl"]["l"] == self_local and not [p for p in s["rv"]["pl"]["p"] if p[0] != "d"]:
                dl = s["lhs"]["l"]
                adt = s["rv"]["adt"]
        t = b["t"]
        if dl is not None and t["k"] == "switch":
            pl = mir.op_place(t["discr"])
            if pl is not None and pl["l"] == dl:
                return adt, dict((v, tb) for v, tb in t["targets"]), t["otherwise"]
    return None


def arm_returns_const(fn, start, want):
    """does the arm starting at block `start` assign `_0 = const want` before any call, following gotos?"""
    blocks = fn["blocks"]
    seen = set()
    cur = start
    while cur is not None and cur not in seen:
        seen.add(cur)
        b = blocks[cur]
        for s in b["s"]:
            if s["lhs"]["l"] == 0 and not s["lhs"]["p"]:
                c = mir.op_const(s["rv"].get("op")) if s["rv"]["k"] == "use" else None
                return c is not None and c.get("int") == want
        t = b["t"]
        if t["k"] == "goto":
            cur = t["t"]
        else:
            return False
    return False


def self_aliases(fn, self_local=1):
    """locals that are plain copies / reborrows of self (no field projection)"""
    tw = {self_local}
    changed = True
    while changed:
        changed = False
        for b in fn["blocks"]:
            if b["cleanup"]:
                continue
            for s in b["s"]:
                rv = s["rv"]
                pl = None
                if rv["k"] in ("use", "cast"):
                    pl = mir.op_place(rv["op"])
                elif rv["k"] in ("ref", "rawptr"):
                    pl = rv["pl"]
                if pl is not None and pl["l"] in tw and not [p for p in pl["p"] if p[0] != "d"] and not s["lhs"]["p"]:
                    if s["lhs"]["l"] not in tw:
                        tw.add(s["lhs"]["l"])
                        changed = True
    return tw


def skipping_path(fn, adt, variant_discr, read_blocks, self_local=1):
    """Is there a path from the entry to a *success* return on which none of `read_blocks` is passed, following - at every
    switch on the discriminant of self - only the edge of the given variant?  Error exits (`?` residuals, `_0 = Err(..)`),
    panics and unwinds do not count.  Returns the line of the offending return or None."""
    blocks = fn["blocks"]
    al = self_aliases(fn, self_local)
    # locals whose value is handed on, by plain moves, to the return place (the return place of an inlined helper whose result
    # the function returns as its own): an `Err(..)` built into one of them is an error exit as well
    retl = {0}
    changed = True
    while changed:
        changed = False
        for b in blocks:
            if b["cleanup"]:
                continue
            for s in b["s"]:
                if s["lhs"]["l"] in retl and not s["lhs"]["p"] and s["rv"]["k"] == "use":
                    pl = mir.op_place(s["rv"]["op"])
                    if pl is not None and not pl["p"] and pl["l"] not in retl:
                        retl.add(pl["l"])
                        changed = True
    # Path-sensitive in one respect: which variant an Option / Result local holds when that is syntactically evident on the
    # path (`Ok(None)` built by an inlined helper and matched by the caller as `Ok(Some(x))` / `Ok(None)` / `Err(e)`;
    # `opt.map(Some).ok_or_else(..)` is never `Ok(None)`).  Infeasible arms of such matches are not followed.
    VIDX = {"None": 0, "Some": 1, "Ok": 0, "Err": 1, "Continue": 0, "Break": 1}

    def shape_of_place(state, pl):
        sh = state.get(pl["l"])
        if sh is None:
            return None
        pend = None
        for q in pl["p"]:
            if q[0] == "d":
                continue
            if q[0] == "dc":
                pend = q[1]
                continue
            if q[0] == "f" and pend is not None and q[1] == "0":
                if sh[0] not in (pend, "?"):
                    return None
                sh = sh[1]
                pend = None
                if sh is None:
                    return None
                continue
            return None
        return sh

    def shape_of_op(state, op):
        pl = mir.op_place(op)
        return shape_of_place(state, pl) if pl is not None else None

    def step(state, b):
        """state after the block's statements; also {discriminant local: place}"""
        state = dict(state)
        dmap = {}
        for s in b["s"]:
            l = s["lhs"]["l"]
            if s["lhs"]["p"]:
                state.pop(l, None)
                continue
            rv = s["rv"]
            sh = None
            if rv["k"] == "agg" and rv.get("variant") in VIDX and rv.get("adt", "").rsplit("::", 1)[-1] in ("Option", "Result", "ControlFlow"):
                sh = (rv["variant"], shape_of_op(state, rv["ops"][0]) if rv.get("ops") else None)
            elif rv["k"] == "use":
                sh = shape_of_op(state, rv["op"])
            elif rv["k"] == "discr":
                dmap[l] = rv["pl"]
            if sh is not None:
                state[l] = sh
            else:
                state.pop(l, None)
        return state, dmap

    def call_shape(state, t):
        c = t.get("callee") or ""
        a = t["args"]
        if c == "std::option::Option::<T>::map" and len(a) == 2:
            k = mir.op_const(a[1])
            if k and (k.get("fn") or "").endswith("::Some"):
                s0 = shape_of_op(state, a[0])
                if s0 and s0[0] == "None":
                    return ("None", None)
                return ((s0[0] if s0 and s0[0] == "Some" else "?"), ("Some", None))
            return None
        if c in ("std::option::Option::<T>::ok_or_else", "std::option::Option::<T>::ok_or") and a:
            s0 = shape_of_op(state, a[0])
            if s0:
                return {"Some": ("Ok", s0[1]), "None": ("Err", None)}.get(s0[0], ("?", s0[1]))
            return None
        if c.endswith("Try>::branch") or c == "std::ops::Try::branch":
            s0 = shape_of_op(state, a[0]) if a else None
            if s0 and s0[0] in ("Ok", "Some"):
                return ("Continue", s0[1])
            if s0 and s0[0] in ("Err", "None"):
                return ("Break", None)
            if s0 and s0[0] == "?":
                return ("?", s0[1])
            return None
        return None

    seen = set()
    st = [(0, {})]
    budget = 40000
    import os as _os
    _trace = _os.environ.get("VERIF_DEBUG_PATH")
    while st:
        bi, state = st.pop()
        if _trace:
            print("  visit", bi, {k: v for k, v in state.items()}, "READ" if bi in read_blocks else "")
        if bi in read_blocks:
            continue
        budget -= 1
        if budget < 0:
            state = {}
        key = (bi, tuple(sorted(state.items())))
        if key in seen:
            continue
        seen.add(key)
        b = blocks[bi]
        if b["cleanup"]:
            continue
        err = False
        dl = None
        for s in b["s"]:
            rv = s["rv"]
            if s["lhs"]["l"] in retl and not s["lhs"]["p"] and rv["k"] == "agg" and rv.get("variant") == "Err":
                err = True
            if rv["k"] == "discr" and rv["pl"]["l"] in al and not [p for p in rv["pl"]["p"] if p[0] != "d"]:
                dl = s["lhs"]["l"]
        if err:
            continue
        state, dmap = step(state, b)
        t = b["t"]
        k = t["k"]
        if k == "return":
            return t.get("line") or (b["s"][-1]["line"] if b["s"] else fn.get("line"))
        if k == "call":
            c = t.get("callee") or ""
            if c.endswith("FromResidual::from_residual") and (t["dest"]["l"] in retl or not blocks[bi].get("inl")):
                continue
            if t.get("t") is not None:
                if not t["dest"]["p"]:
                    sh = call_shape(state, t)
                    if c.endswith("FromResidual::from_residual"):
                        sh = ("Err", None) if "Result" in fn["locals"][t["dest"]["l"]][:30] else (("None", None) if "Option" in fn["locals"][t["dest"]["l"]][:30] else None)
                    if sh is not None:
                        state[t["dest"]["l"]] = sh
                    else:
                        state.pop(t["dest"]["l"], None)
                st.append((t["t"], state))
            continue
        if k == "switch":
            pl = mir.op_place(t["discr"])
            if dl is not None and variant_discr is not None and pl is not None and pl["l"] == dl:
                tg = dict((v, tb) for v, tb in t["targets"])
                st.append((tg.get(variant_discr, t["otherwise"]), state))
                continue
            if pl is not None and not pl["p"] and pl["l"] in dmap:
                sh = shape_of_place(state, dmap[pl["l"]])
                if sh is not None and sh[0] in VIDX:
                    tg = dict((v, tb) for v, tb in t["targets"])
                    nb = tg.get(VIDX[sh[0]], t["otherwise"])
                    if nb is not None:
                        st.append((nb, state))
                    continue
        for n in mir.block_succs(b):
            st.append((n, state))
    return None


ADAPTORS = ("map", "all", "any", "flat_map", "filter_map", "for_each", "fold", "try_fold", "filter", "find_map", "try_for_each", "map_while", "and_then", "then", "inspect", "zip", "chain", "unwrap_or_else", "map_or", "map_or_else", "is_some_and")


def _is_recursing_call(F, t, family_traits, depth=0):
    """does this call hand its argument to the traversal again: a method of one of the family's traits, a callback
    (`f(x)`), or an iterator / Option adaptor whose closure or fn-item argument does"""
    tr = t.get("trait") or ""
    if tr in family_traits:
        return True
    c = t.get("callee") or ""
    if c.startswith(("std::ops::Fn::call", "std::ops::FnMut::call_mut", "std::ops::FnOnce::call_once")):
        return True
    r = t.get("resolved") or c
    if tr and not t.get("resolved") and depth < 3 and tr.startswith("tx3_"):
        # a call through a workspace trait that is not one of the traversal traits (e.g. a private `Pass` / visitor trait the
        # traversals were unified behind): it continues the traversal if some implementation of that method does
        for g in F.fns.values():
            if g.get("impl_trait") == tr and g.get("name") == t.get("method"):
                for h in [g] + [x for x in F.fns.values() if x.get("owner") == g["path"]]:
                    for bi, t2 in mir.calls(h):
                        if _is_recursing_call(F, t2, family_traits, depth + 1):
                            return True
        return False
    if r in F.fns and depth < 3:
        # a helper function of the workspace: it continues the traversal if its own body, or a closure / fn item handed
        # to it, does
        g = F.fns[r]
        for h in [g] + [x for x in F.fns.values() if x.get("owner") == g["path"]]:
            for bi, t2 in mir.calls(h):
                if _is_recursing_call(F, t2, family_traits, depth + 1):
                    return True
        for fr in list(t.get("fnrefs") or []):
            g2 = F.fns.get(fr)
            if g2 is None:
                continue
            if g2.get("impl_trait") in family_traits:
                return True
            for h in [g2] + [x for x in F.fns.values() if x.get("owner") == g2["path"]]:
                for bi, t2 in mir.calls(h):
                    if _is_recursing_call(F, t2, family_traits, depth + 1):
                        return True
        return False
    name = c.split("::")[-1]
    if name in ADAPTORS and (c.startswith("std::iter::") or c.startswith("std::option::Option") or c.startswith("std::result::Result") or "slice" in c or "Vec" in c):
        for r in list(t.get("fnrefs") or []):
            g = F.fns.get(r)
            if g is None:
                continue
            if g.get("impl_trait") in family_traits:
                return True
            if depth < 3:
                for h in [g] + [x for x in F.fns.values() if x.get("owner") == g["path"]]:
                    for bi, t2 in mir.calls(h):
                        if _is_recursing_call(F, t2, family_traits, depth + 1):
                            return True
        # adaptor without an inspectable closure (e.g. `.map(Into::into)`): cannot tell -> treat as recursing (no alarm)
        if not (t.get("fnrefs") or []):
            return True
    return False


BYVAL = "val"
BYREF = "ref"

_POLICIES = {}


def _helper_policy(crate):
    """inline plain functions and inherent methods of the same crate (what a refactoring extracts a helper into): a field of
    self read inside `self.helper()` is read by the method"""
    if crate not in _POLICIES:
        def want(t, callee):
            if callee["crate"] != crate or callee.get("impl_trait") or callee.get("trait_default"):
                return False
            return len(callee["blocks"]) <= 600
        _POLICIES[crate] = want
    return _POLICIES[crate]


def check_impl_method(F, fn, adt_path, fam, mode, rule, rows, method_sem=None, self_local=1, must_paths=True, path_ok_blocks=None, family_traits=None, inline=True):
    """obligations for one impl method on ADT adt_path.

    rows: dict (fn path, variant, field) -> reason  (reviewed exceptions)
    method_sem: "is_constant" enables the conservative-false arm discharge
    """
    obs = []
    if inline:
        fn = mir.inline_calls(F, fn, want=_helper_policy(fn["crate"]), depth=2)
    flows, whole = self_field_flows(fn, adt_path, self_local)
    ffields = family_fields(F, adt_path, fam)
    arms = variant_arms(fn, self_local) if method_sem == "is_constant" else None
    adt = F.adt(adt_path)
    discr_of = {v["name"]: v["discr"] for v in adt["variants"]}
    w = where(fn)
    for (var, fld, ty) in ffields:
        key = "%s|%s::%s.%s" % (fn["path"], adt_path.split("::")[-1], var, fld)
        row = rows.get((fn["path"], var, fld))
        fl = flows.get((var, fld))
        if fl is None:
            # struct types have a single variant whose name equals the type name: projections carry it
            fl = flows.get(("", fld))
        problems = []
        visited = bool(fl and fl["projected"] and (fl["calls"] or fl["closure"] or (mode == BYREF and fl["returned"])))
        if not visited:
            if method_sem == "is_constant" and arms and arms[0] == adt_path:
                tb = arms[1].get(discr_of.get(var), arms[2])
                if arm_returns_const(fn, tb, 0):
                    obs.append(ok(rule, key, w, "conservative: this variant's arm returns constant `false`"))
                    continue
            if not fl or not fl["projected"]:
                problems.append("field `%s` of `%s::%s` (type %s) is never projected from self: children in it are invisible to %s" % (
                    fld, adt_path.split("::")[-1], var, ty, fn["path"].split("::")[-1]))
            else:
                problems.append("field `%s` of `%s::%s` is read but never passed to a call" % (fld, adt_path.split("::")[-1], var))
        if visited and family_traits and fl["terms"] and not (mode == BYREF and fl["returned"]) and fn.get("name") != "components":
            if not any(_is_recursing_call(F, t, family_traits) for t in fl["terms"]):
                problems.append("field `%s` of `%s::%s` only flows into calls that do not continue the traversal (%s): its children are not visited by %s" % (
                    fld, adt_path.split("::")[-1], var, ", ".join(sorted({mir.callee_of(t).split("::")[-1] for t in fl["terms"]}))[:120], fn["path"].split("::")[-1]))
        if visited and method_sem != "is_constant" and must_paths:
            extra_ok = path_ok_blocks(fn) if path_ok_blocks else set()
            ln = skipping_path(fn, adt_path, discr_of.get(var) if adt["is_enum"] else None, set(fl["read_blocks"]) | extra_ok, self_local)
            if ln is not None:
                problems.append("there is a path to a successful return (line %s) on which field `%s` of `%s::%s` is never looked at: children in it are skipped there" % (
                    ln, fld, adt_path.split("::")[-1], var))
        if mode == BYVAL and fl and fl["identity_agg"]:
            problems.append("field `%s` of `%s::%s` (type %s) is moved unchanged into the rebuilt value (identity flow, no recursive call on it)" % (
                fld, adt_path.split("::")[-1], var, ty))
        if problems:
            if row:
                obs.append(ok(rule, key, w, "tabled exception: " + row))
            else:
                obs.append(finding(rule, key, w, "; ".join(problems)))
        else:
            via = sorted(c.split("::")[-1] for c in (fl["calls"] | fl["closure"]))[:4]
            if not via and fl["returned"]:
                via = ["a reference in the returned collection"]
            obs.append(ok(rule, key, w, "visited via " + ", ".join(via)))
    return obs
