"""Canonical symbolic form of the value a small arithmetic function returns.

The data-flow expression of a value is read off MIR (no evaluation): leaves are parameters with their field paths, literals
and results of opaque calls; inner nodes are + - * / with the overflow-checking variants and integer casts made transparent,
`len()`, `unwrap_or(x, d)`.  Sums and products are flattened and sorted so that the form does not depend on association,
operand order, temporaries or formatting.  A property module compares it with the formula the property states.
"""
from . import mir

TRANSPARENT = ("std::clone::Clone::clone", "std::ops::Deref::deref", "std::convert::From::from", "std::convert::Into::into",
               "std::option::Option::<T>::as_ref", "std::option::Option::<&T>::cloned", "std::option::Option::<&T>::copied")


def _flat(op, items):
    out = []
    for x in items:
        if isinstance(x, tuple) and x and x[0] == op:
            out.extend(x[1])
        else:
            out.append(x)
    return (op, tuple(sorted(out, key=repr)))


def expr_of(F, fn, du, op, depth=0, proj=()):
    """canonical expression of an operand (or place dict)"""
    if depth > 40:
        return ("?", "depth")
    c = mir.op_const(op) if "l" not in op else None
    if c is not None:
        if "int" in c:
            return ("c", c["int"])
        return ("const", c.get("txt", c.get("ty")))
    pl = op if "l" in op else mir.op_place(op)
    if pl is None:
        return ("?", "operand")
    l = pl["l"]
    pj = tuple(p for p in pl["p"] if p[0] != "d")
    fields = tuple(p[1] for p in pj if p[0] == "f") + tuple(proj)
    if 1 <= l <= fn["argc"] and not du.defs.get(l):
        ty = fn["locals"][l]
        return ("arg", ty, fields)
    defs = du.defs.get(l, [])
    if len(defs) == 2 and all(d_[0] == "stmt" for d_ in defs) and not fields:
        m = _match_on_option(F, fn, du, defs, depth)
        if m is not None:
            return m
    if len(defs) != 1:
        return ("?", "join of %d definitions" % len(defs))
    d = defs[0]
    return _expr_of_def(F, fn, du, d, depth, fields)


def _match_on_option(F, fn, du, defs, depth):
    """`match opt { Some(x) => A, None => B }` assigning one local in both arms: ("match_opt", opt, A, B)"""
    cfg = mir.CFG(fn)
    for bi, b in enumerate(fn["blocks"]):
        t = b["t"]
        if b["cleanup"] or t["k"] != "switch":
            continue
        pl = mir.op_place(t["discr"])
        scrut = None
        for st in b["s"]:
            if pl is not None and st["lhs"]["l"] == pl["l"] and st["rv"]["k"] == "discr" and st["rv"].get("adt", "").endswith("::Option"):
                scrut = st["rv"]["pl"]
        if scrut is None:
            continue
        tm = dict((a, b2) for a, b2 in t["targets"])
        none_t = tm.get(0)
        some_t = tm.get(1)
        if none_t is None and some_t is not None:
            none_t = t["otherwise"]
        if some_t is None and none_t is not None:
            some_t = t["otherwise"]
        if none_t is None or some_t is None:
            continue
        arms = {}
        for d_ in defs:
            in_some = d_[1] == some_t or cfg.dominates(some_t, d_[1])
            in_none = d_[1] == none_t or cfg.dominates(none_t, d_[1])
            if in_some and not in_none:
                arms["some"] = d_
            elif in_none and not in_some:
                arms["none"] = d_
        if len(arms) == 2:
            return ("match_opt", expr_of(F, fn, du, scrut, depth + 1),
                    _expr_of_def(F, fn, du, arms["some"], depth + 1, ()), _expr_of_def(F, fn, du, arms["none"], depth + 1, ()))
    return None


def _expr_of_def(F, fn, du, d, depth, fields):
    if d[0] == "call":
        t = d[3]
        c = t.get("callee") or ""
        name = c.split("::")[-1]
        if c in TRANSPARENT and t["args"]:
            return expr_of(F, fn, du, t["args"][0], depth + 1, fields)
        if name == "len" and t["args"]:
            return ("len", expr_of(F, fn, du, t["args"][0], depth + 1))
        if name == "unwrap_or" and len(t["args"]) == 2:
            return ("unwrap_or", expr_of(F, fn, du, t["args"][0], depth + 1), expr_of(F, fn, du, t["args"][1], depth + 1))
        if name == "unwrap_or_default" and t["args"]:
            return ("unwrap_or", expr_of(F, fn, du, t["args"][0], depth + 1), ("c", 0))
        if name in ("checked_add", "checked_mul", "checked_sub", "saturating_add", "saturating_mul", "saturating_sub", "wrapping_add", "wrapping_mul", "wrapping_sub"):
            return ("callop:" + name, expr_of(F, fn, du, t["args"][0], depth + 1), expr_of(F, fn, du, t["args"][1], depth + 1))
        return ("call", c.split("::<")[0], tuple(expr_of(F, fn, du, a, depth + 1) for a in t["args"]))
    rv = d[3]["rv"]
    k = rv["k"]
    if k == "use":
        return expr_of(F, fn, du, rv["op"], depth + 1, fields)
    if k == "cast" and rv.get("ck") == "IntToInt":
        return expr_of(F, fn, du, rv["op"], depth + 1, fields)
    if k in ("ref",):
        return expr_of(F, fn, du, rv["pl"], depth + 1, fields)
    if k == "binop":
        op_ = rv["op"].replace("WithOverflow", "")
        a = expr_of(F, fn, du, rv["a"], depth + 1)
        b = expr_of(F, fn, du, rv["b"], depth + 1)
        if op_ == "Add":
            return _flat("+", [a, b])
        if op_ == "Mul":
            return _flat("*", [a, b])
        if op_ == "Sub":
            return ("-", a, b)
        if op_ == "Div":
            return ("/", a, b)
        return ("binop:" + op_, a, b)
    if k == "unop":
        return ("unop:" + rv.get("op", "?"), expr_of(F, fn, du, rv["a"], depth + 1))
    return ("?", k)


def show(e):
    if not isinstance(e, tuple):
        return str(e)
    h = e[0]
    if h == "c":
        return str(e[1])
    if h == "arg":
        return ("<%s>" % e[1].split("::")[-1]) + "".join("." + f for f in e[2])
    if h in ("+", "*"):
        return "(" + (" %s " % h).join(show(x) for x in e[1]) + ")"
    if h in ("-", "/"):
        return "(%s %s %s)" % (show(e[1]), h, show(e[2]))
    if h == "len":
        return "len(%s)" % show(e[1])
    if h == "unwrap_or":
        return "unwrap_or(%s, %s)" % (show(e[1]), show(e[2]))
    if h == "match_opt":
        return "match %s { Some(x) => %s, None => %s }" % (show(e[1]), show(e[2]), show(e[3]))
    if h == "call":
        return "%s(%s)" % (e[1].split("::")[-1], ", ".join(show(x) for x in e[2]))
    return "%s(%s)" % (h, ", ".join(show(x) for x in e[1:]))
