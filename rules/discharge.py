"""Generic structural discharges for panic sites (E1): each returns a reason string or None.

D-CONSTDIV   division / remainder by a non-zero literal
D-COUNTER    `x + 1` overflow check on a local bounded by a dominating `x < N` test (N a literal)
D-LEN        constant index / slice start (Index::index or the built-in bounds check of a slice place) dominated by a length
             test on the same container
D-SOMESET    unwrap of a place that a dominating statement sets to `Some(..)`, never written otherwise
D-GUARD      unwrap dominated by an is_some()/is_none() test on the same place
D-INFALLIBLE the error type of the unwrapped Result is Infallible, or a ciborium/serde write into a Vec
"""
from . import mir


def _const_int(fn, du, op):
    c = mir.op_const(op)
    if c is not None:
        return c.get("int")
    pl = mir.op_place(op)
    if pl is None or pl["p"]:
        return None
    ds = du.defs.get(pl["l"], [])
    if len(ds) == 1 and ds[0][0] == "stmt":
        rv = ds[0][3]["rv"]
        if rv["k"] == "use":
            c = mir.op_const(rv["op"])
            if c is not None:
                return c.get("int")
            return _const_int(fn, du, rv["op"])
    return None


def _find_binop_feeding_assert(fn, bb):
    """the binop statement in block bb that computes the asserted condition's tuple (checked arithmetic) or
    the Eq(divisor, 0) for division"""
    b = fn["blocks"][bb]
    out = []
    for s in b["s"]:
        if s["rv"]["k"] == "binop":
            out.append(s)
    return out


def const_div(fn, du, site):
    if site.kind != "K3" or site.what not in ("DivisionByZero", "RemainderByZero"):
        return None
    # the division itself is in the assert's target block (possibly after the second, MIN / -1, assert)
    tgt = site.term["t"]
    for _ in range(3):
        for s in fn["blocks"][tgt]["s"]:
            rv = s["rv"]
            if rv["k"] == "binop" and rv["op"] in ("Div", "Rem"):
                v = _const_int(fn, du, rv["b"])
                if v is not None and v != 0:
                    return "divisor is the literal %d" % v
        t2 = fn["blocks"][tgt]["t"]
        if t2["k"] == "assert":
            tgt = t2["t"]
        else:
            break
    return None


def const_div_overflow(fn, du, site):
    """the `MIN / -1` overflow assert of a signed division by a literal other than -1"""
    if site.kind != "K3" or site.what != "Overflow":
        return None
    tgt = site.term["t"]
    for s in fn["blocks"][tgt]["s"]:
        rv = s["rv"]
        if rv["k"] == "binop" and rv["op"] in ("Div", "Rem"):
            v = _const_int(fn, du, rv["b"])
            if v is not None and v not in (0, -1):
                return "signed division by the literal %d cannot overflow" % v
    return None


def counter_from_zero(fn, du, cfg, site):
    """`x += 1` on a 64-bit-or-wider counter that starts at a literal and is only ever incremented by 1 inside a loop:
    overflow needs 2^63 iterations"""
    if site.kind != "K3" or site.what != "Overflow":
        return None
    b = fn["blocks"][site.bb]
    adds = [s for s in b["s"] if s["rv"]["k"] == "binop" and s["rv"]["op"] in ("AddWithOverflow", "Add")]
    if not adds:
        return None
    rv = adds[-1]["rv"]
    if rv["ty"] not in ("usize", "u64", "i64", "u128", "i128", "isize"):
        return None
    step = _const_int(fn, du, rv["b"])
    xl = mir.op_place(rv["a"])
    if step != 1 or xl is None or xl["p"]:
        return None
    x = xl["l"]
    # every definition of x: a literal, or the result of this very increment
    for d in du.defs.get(x, []):
        if d[0] != "stmt":
            return None
        r2 = d[3]["rv"]
        if r2["k"] == "use":
            c = mir.op_const(r2["op"])
            if c is not None and "int" in c and 0 <= c["int"] < (1 << 32):
                continue
            pl = mir.op_place(r2["op"])
            # `x = move (_t.0)` where _t is the checked-add tuple of an increment of x
            if pl is not None and pl["p"] and pl["p"][0][0] == "f":
                ok_src = False
                for d2 in du.defs.get(pl["l"], []):
                    if d2[0] == "stmt" and d2[3]["rv"]["k"] == "binop" and d2[3]["rv"]["op"] in ("AddWithOverflow", "Add"):
                        a2 = mir.op_place(d2[3]["rv"]["a"])
                        if a2 is not None and a2["l"] == x and _const_int(fn, du, d2[3]["rv"]["b"]) == 1:
                            ok_src = True
                if ok_src:
                    continue
            return None
        else:
            return None
    if not du.defs.get(x):
        return None
    return "counter starts at a literal and only ever grows by 1: overflow would need 2^63 iterations"


def counter(fn, du, cfg, site):
    """`x + c` (c a small literal) overflow assert where a dominating branch established x < N (N literal)"""
    if site.kind != "K3" or site.what != "Overflow":
        return None
    b = fn["blocks"][site.bb]
    adds = [s for s in b["s"] if s["rv"]["k"] == "binop" and s["rv"]["op"] in ("AddWithOverflow", "Add")]
    if not adds:
        return None
    rv = adds[-1]["rv"]
    step = _const_int(fn, du, rv["b"])
    xl = mir.op_place(rv["a"])
    if step is None or xl is None or xl["p"] or step < 0 or step > 1 << 20:
        return None
    x = xl["l"]
    # look for Lt(x', N) with x' a copy of x, whose true edge dominates this block
    for bi, b2 in enumerate(fn["blocks"]):
        if b2["cleanup"] or bi not in cfg.reach:
            continue
        for s in b2["s"]:
            r2 = s["rv"]
            if r2["k"] != "binop" or r2["op"] not in ("Lt", "Le"):
                continue
            al = mir.op_place(r2["a"])
            if al is None:
                continue
            src = al["l"]
            if src != x:
                ds = du.defs.get(src, [])
                if not (len(ds) == 1 and ds[0][0] == "stmt" and ds[0][3]["rv"]["k"] == "use"
                        and (mir.op_place(ds[0][3]["rv"]["op"]) or {}).get("l") == x):
                    continue
            n = _const_int(fn, du, r2["b"])
            if n is None or n > (1 << 62):
                continue
            # true edge of the switch on this comparison
            t = b2["t"]
            if t["k"] != "switch":
                continue
            dpl = mir.op_place(t["discr"])
            if dpl is None or dpl["l"] != s["lhs"]["l"]:
                continue
            true_t = t["otherwise"]
            if cfg.dominates(true_t, site.bb) or _and_chain_dominates(fn, cfg, true_t, site.bb):
                return "counter bounded by the dominating test `< %d`" % n
    return None


def _and_chain_dominates(fn, cfg, start, target):
    # `a < N && other` : the true edge of `a < N` leads to the second test, whose true edge dominates
    return cfg.dominates(start, target)


def len_guard(fn, du, cfg, site):
    """Index::index(container, const c) dominated by a test on container.len()"""
    t = site.term
    if site.kind == "K3" and site.what == "BoundsCheck" and t["k"] == "assert":
        # the built-in bounds check of a slice / array place: assert(const c < PtrMetadata(container))
        cpl = mir.op_place(t["cond"])
        ds = du.defs.get(cpl["l"], []) if cpl is not None and not cpl["p"] else []
        if len(ds) != 1 or ds[0][0] != "stmt" or ds[0][3]["rv"]["k"] != "binop" or ds[0][3]["rv"]["op"] != "Lt":
            return None
        c = _const_int(fn, du, ds[0][3]["rv"]["a"])
        lpl = mir.op_place(ds[0][3]["rv"]["b"])
        ls = du.defs.get(lpl["l"], []) if lpl is not None and not lpl["p"] else []
        if c is None or len(ls) != 1 or ls[0][0] != "stmt" or ls[0][3]["rv"]["k"] != "unop" or ls[0][3]["rv"]["op"] != "PtrMetadata":
            return None
        cont = mir.provenance(fn, du, ls[0][3]["rv"]["a"])
    else:
        if site.kind != "K4" or "Index" not in site.what:
            return None
        if len(t["args"]) < 2:
            return None
        c = _const_int(fn, du, t["args"][1])
        if c is None:
            return None
        cont = mir.provenance(fn, du, t["args"][0])
    croots = {repr(o) for o in cont}
    for bi, b2 in enumerate(fn["blocks"]):
        if b2["cleanup"] or bi not in cfg.reach:
            continue
        for s in b2["s"]:
            r2 = s["rv"]
            if r2["k"] != "binop" or r2["op"] not in ("Eq", "Ge", "Gt", "Ne", "Lt", "Le"):
                continue
            for side, other in (("a", "b"), ("b", "a")):
                lo = mir.provenance(fn, du, r2[side])
                lens = [o for o in lo if o.kind == "call" and o.callee.endswith("::len")]
                if not lens:
                    continue
                k = _const_int(fn, du, r2[other])
                if k is None:
                    continue
                # container of the len() call
                lc = {repr(o) for o in mir.provenance(fn, du, lens[0].term["args"][0])}
                if not (lc & croots):
                    continue
                tt = b2["t"]
                if tt["k"] != "switch":
                    continue
                dpl = mir.op_place(tt["discr"])
                if dpl is None or dpl["l"] != s["lhs"]["l"]:
                    continue
                true_t = tt["otherwise"]
                false_t = [b for v, b in tt["targets"] if v == 0]
                op = r2["op"]
                if side == "b":
                    op = {"Lt": "Gt", "Le": "Ge", "Gt": "Lt", "Ge": "Le"}.get(op, op)
                ok_true = (op == "Eq" and k >= c + 1) or (op == "Ge" and k >= c + 1) or (op == "Gt" and k >= c)
                ok_false = (op == "Lt" and k >= c + 1) or (op == "Le" and k >= c) or (op == "Ne" and k >= c + 1)
                if ok_true and cfg.dominates(true_t, site.bb) and not (false_t and site.bb in cfg.reach_from(false_t[0]) and not cfg.dominates(true_t, site.bb)):
                    return "index %d dominated by a test `len %s %d`" % (c, op, k)
                if ok_false and false_t and cfg.dominates(false_t[0], site.bb):
                    return "index %d dominated by the false edge of `len %s %d`" % (c, op, k)
    return None


def some_set(fn, du, cfg, site):
    """unwrap of place P (through as_ref/as_mut) where a dominating statement assigns P = Some(..) and no other
    statement writes P"""
    if site.kind != "K2" or not site.what.startswith("Option::"):
        return None
    t = site.term
    orig = mir.provenance(fn, du, t["args"][0], transparent_extra=("std::option::Option::<T>::as_mut",))
    if len(orig) != 1 or orig[0].kind != "arg" or not orig[0].proj:
        return None
    want = (orig[0].local, tuple(orig[0].proj))
    writes = []
    for bi, si, s in mir.stmts(fn):
        lhs = s["lhs"]
        pj = tuple(mir.proj_str(p) for p in lhs["p"] if p[0] != "d")
        roots = mir.provenance(fn, du, {"l": lhs["l"], "p": []}) if lhs["p"] else []
        for r in roots:
            if r.kind == "arg" and (r.local, tuple(r.proj) + pj) == want:
                writes.append((bi, s))
    if not writes:
        return None
    for bi, s in writes:
        rv = s["rv"]
        if rv["k"] == "use":
            src = mir.provenance(fn, du, rv["op"])
            if len(src) == 1 and src[0].kind == "agg" and src[0].rv.get("variant") == "Some" and not src[0].proj:
                continue
            return None
        if not (rv["k"] == "agg" and rv.get("variant") == "Some"):
            return None
    if any(cfg.dominates(bi, site.bb) for bi, s in writes):
        return "`%s%s` is set to Some(..) by a dominating statement and never written otherwise" % ("arg%d" % want[0], "".join(want[1]))
    return None


def is_some_guard(fn, du, cfg, site):
    """unwrap dominated by the true edge of is_some() / false edge of is_none() on the same place"""
    if site.kind != "K2" or not site.what.startswith("Option::"):
        return None
    t = site.term
    orig = {repr(o) for o in mir.provenance(fn, du, t["args"][0])}
    for bi, t2 in mir.calls(fn):
        c = t2.get("callee") or ""
        if c not in ("std::option::Option::<T>::is_some", "std::option::Option::<T>::is_none"):
            continue
        o2 = {repr(o) for o in mir.provenance(fn, du, t2["args"][0])}
        if not (o2 & orig):
            continue
        nxt = t2["t"]
        seen = 0
        while nxt is not None and fn["blocks"][nxt]["t"]["k"] == "goto" and seen < 4:
            nxt = fn["blocks"][nxt]["t"]["t"]
            seen += 1
        tt = fn["blocks"][nxt]["t"]
        if tt["k"] != "switch":
            continue
        false_t = [b for v, b in tt["targets"] if v == 0]
        true_t = tt["otherwise"]
        if c.endswith("is_some") and cfg.dominates(true_t, site.bb) and true_t != (false_t[0] if false_t else None):
            return "dominated by the true edge of is_some() on the same place"
        if c.endswith("is_none") and false_t and cfg.dominates(false_t[0], site.bb):
            return "dominated by the false edge of is_none() on the same place"
    return None


def infallible(fn, du, site):
    if site.kind != "K2" or not site.what.startswith("Result::"):
        return None
    t = site.term
    g = t.get("gargs") or []
    if len(g) >= 2 and g[1] == "std::convert::Infallible":
        return "error type is Infallible"
    return None


def range_full(fn, du, site):
    """`x[..]`: indexing with RangeFull never panics"""
    if site.kind != "K4" or "Index" not in site.what:
        return None
    g = site.term.get("gargs") or []
    if any(x == "std::ops::RangeFull" for x in g):
        return "indexing with `..` (RangeFull) cannot be out of bounds"
    return None


CURRENT_F = None   # set by the property modules: lets a discharge resolve a helper's parameter at its call sites


def _is_size(fn, du, op, depth=0):
    """does the operand derive only from collection sizes (len/count/capacity), literals and sums of such?  A parameter of a
    helper function is a size when every caller passes one."""
    c = mir.op_const(op)
    if c is not None:
        return "int" in c and 0 <= c["int"] < (1 << 32)
    EXTRA = ("std::option::Option::<T>::unwrap_or", "std::option::Option::<T>::get_or_insert", "std::option::Option::<T>::unwrap_or_default")
    origins = mir.provenance(fn, du, op, transparent_extra=EXTRA)
    if CURRENT_F is not None and any(o.kind == "arg" for o in origins) and fn.get("def_kind") != "Closure":
        from .common import outer_origins, callers_index
        if callers_index(CURRENT_F).get(fn["path"]):
            origins = [o for _, o in outer_origins(CURRENT_F, fn, op, depth=2, transparent_extra=EXTRA)]
    for o in origins:
        if o.kind == "call":
            n = o.callee
            if n.endswith("::len") or n.endswith("::count") or n.endswith("::capacity"):
                continue
            if CURRENT_F is not None and depth < 2 and _returns_size(CURRENT_F, (o.term or {}).get("resolved") or n, depth + 1):
                continue
            return False
        if o.kind == "const":
            if "int" in o.const and 0 <= o.const["int"] < (1 << 32):
                continue
            return False
        return False
    return True


def _returns_size(F, path, depth):
    """a workspace function whose result (possibly wrapped in Some / None) is only ever a collection size or a small literal
    (`Subset::count`-like accessors, whatever they are called)"""
    g = F.fns.get(path)
    if g is None or len(g["blocks"]) > 60:
        return False
    du = mir.DefUse(g)
    seen_any = False
    for o in mir.provenance(g, du, {"l": 0, "p": []}):
        if o.kind == "agg" and o.rv.get("adt") == "std::option::Option":
            if o.rv.get("variant") == "None":
                continue
            if o.rv.get("variant") == "Some" and _is_size(g, du, o.rv["ops"][0], depth):
                seen_any = True
                continue
            return False
        if o.kind == "call" and (o.callee.endswith("::len") or o.callee.endswith("::capacity")):
            seen_any = True
            continue
        if o.kind == "const" and "int" in o.const and 0 <= o.const["int"] < (1 << 32):
            continue
        return False
    return seen_any


def sizes_sum(fn, du, site):
    """usize addition of in-memory collection sizes"""
    if site.kind != "K3" or site.what != "Overflow":
        return None
    b = fn["blocks"][site.bb]
    adds = [s for s in b["s"] if s["rv"]["k"] == "binop" and s["rv"]["op"] in ("AddWithOverflow", "Add")]
    if not adds or adds[-1]["rv"]["ty"] != "usize":
        return None
    rv = adds[-1]["rv"]
    if _is_size(fn, du, rv["b"]) or _is_size(fn, du, rv["a"]):
        # the other side is an accumulator of such sizes or a size itself; a sum of sizes of live collections is
        # bounded by the address space
        return "usize sum of in-memory collection sizes (bounded by the address space)"
    return None


def sub_guard(fn, du, cfg, site):
    """`a - b` dominated by the true edge of `b < a` / `b <= a` (same operands)"""
    if site.kind != "K3" or site.what != "Overflow":
        return None
    b = fn["blocks"][site.bb]
    subs = [s for s in b["s"] if s["rv"]["k"] == "binop" and s["rv"]["op"] in ("SubWithOverflow", "Sub")]
    if not subs:
        return None
    rv = subs[-1]["rv"]

    def sig(op, depth=0):
        out = []
        for o in mir.provenance(fn, du, op):
            if o.kind == "call" and depth < 3 and o.term is not None and o.term["args"] and o.callee.endswith(("::len", "::count")):
                out.append("len-of" + repr(sig(o.term["args"][0], depth + 1)))
            else:
                out.append(repr(o))
        return tuple(sorted(out))
    sa, sb = sig(rv["a"]), sig(rv["b"])
    for bi, b2 in enumerate(fn["blocks"]):
        if b2["cleanup"] or bi not in cfg.reach:
            continue
        for s in b2["s"]:
            r2 = s["rv"]
            if r2["k"] != "binop" or r2["op"] not in ("Lt", "Le", "Gt", "Ge"):
                continue
            x, y = sig(r2["a"]), sig(r2["b"])
            good = (r2["op"] in ("Lt", "Le") and x == sb and y == sa) or (r2["op"] in ("Gt", "Ge") and x == sa and y == sb)
            if not good:
                continue
            t = b2["t"]
            if t["k"] != "switch":
                continue
            dpl = mir.op_place(t["discr"])
            if dpl is None or dpl["l"] != s["lhs"]["l"]:
                continue
            if cfg.dominates(t["otherwise"], site.bb):
                return "subtraction dominated by the test that the subtrahend is not larger"
    return None


BITS = {"u8": 8, "i8": 8, "u16": 16, "i16": 16, "u32": 32, "i32": 32, "u64": 64, "i64": 64, "usize": 64, "isize": 64, "u128": 128, "i128": 128}


def widen(fn, du, site):
    """add/sub of two values both widened from a type of at most half the width"""
    if site.kind != "K3" or site.what != "Overflow":
        return None
    b = fn["blocks"][site.bb]
    ops = [s for s in b["s"] if s["rv"]["k"] == "binop" and s["rv"]["op"] in ("SubWithOverflow", "Sub", "AddWithOverflow", "Add")]
    if not ops:
        return None
    rv = ops[-1]["rv"]
    w = BITS.get(rv["ty"])
    if not w:
        return None
    for side in ("a", "b"):
        pl = mir.op_place(rv[side])
        if pl is None:
            c = mir.op_const(rv[side])
            if c is not None and "int" in c and abs(c["int"]) < (1 << (w // 2)):
                continue
            return None
        ds = du.defs.get(pl["l"], [])
        for _ in range(4):
            # through plain copies (`let encoded_len = x.len() as i128; .. encoded_len + overhead`)
            if len(ds) == 1 and ds[0][0] == "stmt" and ds[0][3]["rv"]["k"] == "use":
                p2 = mir.op_place(ds[0][3]["rv"]["op"])
                if p2 is not None and not p2["p"]:
                    ds = du.defs.get(p2["l"], [])
                    continue
            break
        if len(ds) != 1 or ds[0][0] != "stmt" or ds[0][3]["rv"]["k"] != "cast" or ds[0][3]["rv"]["ck"] != "IntToInt":
            # a small literal that reaches the operation through a variable, a captured variable or a helper parameter
            # (`let overhead = 160; .. |body| len + overhead`)
            if CURRENT_F is not None:
                from .common import outer_origins
                orgs = [o for _, o in outer_origins(CURRENT_F, fn, rv[side], depth=2)]
                if orgs and all(o.kind == "const" and "int" in o.const and abs(o.const["int"]) < (1 << (w // 2)) for o in orgs):
                    continue
            return None
        fw = BITS.get(ds[0][3]["rv"]["from"])
        if not fw or fw * 2 > w:
            return None
    return "both operands are widened from a type of at most half the width (or small literals)"


def range_guard(fn, du, cfg, site):
    """`x + k` / `k + x` / `x - k` where dominating comparisons bound x by literals (match on ranges, explicit tests)"""
    if site.kind != "K3" or site.what != "Overflow":
        return None
    b = fn["blocks"][site.bb]
    ops = [s for s in b["s"] if s["rv"]["k"] == "binop" and s["rv"]["op"] in ("AddWithOverflow", "Add", "SubWithOverflow", "Sub")]
    if not ops:
        return None
    rv = ops[-1]["rv"]
    w = BITS.get(rv["ty"])
    if not w:
        return None
    ka, kb = _const_int(fn, du, rv["a"]), _const_int(fn, du, rv["b"])
    if (ka is None) == (kb is None):
        return None
    k = ka if ka is not None else kb
    xop = rv["b"] if ka is not None else rv["a"]
    xl = mir.op_place(xop)
    if xl is None or xl["p"]:
        return None
    lo, hi = _bounds(fn, du, cfg, xl["l"], site.bb)
    signed = rv["ty"].startswith("i")
    tmax = (1 << (w - 1)) - 1 if signed else (1 << w) - 1
    tmin = -(1 << (w - 1)) if signed else 0
    if rv["op"].startswith("Add"):
        if hi is not None and hi + k <= tmax and (lo is not None or not signed or k >= 0):
            return "operand bounded above by %d through dominating comparisons: %d + x cannot overflow" % (hi, k)
    else:
        if ka is None and lo is not None and lo - k >= tmin:
            return "operand bounded below by %d through dominating comparisons: x - %d cannot underflow" % (lo, k)
    return None


def _bounds(fn, du, cfg, local, at_bb, depth=0):
    """(lo, hi) literal bounds of a local at block at_bb, from dominating comparisons on it; follows `x = y - k` / `x = y + k`"""
    xroot = _root_local(fn, du, local)
    lo, hi = None, None
    for bi, b2 in enumerate(fn["blocks"]):
        if b2["cleanup"] or bi not in cfg.reach:
            continue
        for s in b2["s"]:
            r2 = s["rv"]
            if r2["k"] != "binop" or r2["op"] not in ("Le", "Lt", "Ge", "Gt"):
                continue
            ca, cb = _const_int(fn, du, r2["a"]), _const_int(fn, du, r2["b"])
            if (ca is None) == (cb is None):
                continue
            var = r2["b"] if ca is not None else r2["a"]
            vl = mir.op_place(var)
            if vl is None or vl["p"] or _root_local(fn, du, vl["l"]) != xroot:
                continue
            t = b2["t"]
            if t["k"] != "switch":
                continue
            dpl = mir.op_place(t["discr"])
            if dpl is None or dpl["l"] != s["lhs"]["l"]:
                continue
            false_t = dict((v, x) for v, x in t["targets"]).get(0)
            on_true = t["otherwise"] is not None and t["otherwise"] != false_t and cfg.dominates(t["otherwise"], at_bb)
            on_false = false_t is not None and false_t != t["otherwise"] and cfg.dominates(false_t, at_bb)
            if on_true == on_false:
                continue
            c = ca if ca is not None else cb
            op = r2["op"]
            if ca is not None:   # c OP x
                op = {"Le": "Ge", "Lt": "Gt", "Ge": "Le", "Gt": "Lt"}[op]
            if on_false:         # the else-branch of `if x OP c`: the negated comparison holds
                op = {"Le": "Gt", "Lt": "Ge", "Ge": "Lt", "Gt": "Le"}[op]
            if op == "Le":
                hi = c if hi is None else min(hi, c)
            elif op == "Lt":
                hi = c - 1 if hi is None else min(hi, c - 1)
            elif op == "Ge":
                lo = c if lo is None else max(lo, c)
            elif op == "Gt":
                lo = c + 1 if lo is None else max(lo, c + 1)
    if depth < 3:
        # x = (y -/+ k).0 : shift y's bounds
        ds = du.defs.get(xroot, [])
        if len(ds) == 1 and ds[0][0] == "stmt" and ds[0][3]["rv"]["k"] == "use":
            pl = mir.op_place(ds[0][3]["rv"]["op"])
            if pl is not None and pl["p"] and pl["p"][0][0] == "f":
                for d2 in du.defs.get(pl["l"], []):
                    if d2[0] == "stmt" and d2[3]["rv"]["k"] == "binop" and d2[3]["rv"]["op"] in ("SubWithOverflow", "AddWithOverflow"):
                        r3 = d2[3]["rv"]
                        k2 = _const_int(fn, du, r3["b"])
                        yl = mir.op_place(r3["a"])
                        if k2 is not None and yl is not None and not yl["p"]:
                            ylo, yhi = _bounds(fn, du, cfg, yl["l"], d2[1], depth + 1)
                            sh = -k2 if r3["op"].startswith("Sub") else k2
                            if ylo is not None:
                                lo = ylo + sh if lo is None else max(lo, ylo + sh)
                            if yhi is not None:
                                hi = yhi + sh if hi is None else min(hi, yhi + sh)
    return lo, hi


def _root_local(fn, du, l, depth=0):
    ds = du.defs.get(l, [])
    if depth < 6 and len(ds) == 1 and ds[0][0] == "stmt" and ds[0][3]["rv"]["k"] == "use":
        pl = mir.op_place(ds[0][3]["rv"]["op"])
        if pl is not None and not pl["p"]:
            return _root_local(fn, du, pl["l"], depth + 1)
    return l


def position_start(fn, du, site):
    """`s[start..]` where start is a position() inside the same slice, defaulting to its length"""
    if site.kind != "K4" or "Index" not in site.what:
        return None
    t = site.term
    if len(t["args"]) < 2:
        return None
    rng = mir.provenance(fn, du, t["args"][1])
    if len(rng) != 1 or rng[0].kind != "agg" or not rng[0].rv.get("adt", "").endswith("ops::RangeFrom"):
        return None
    start = mir.provenance(fn, du, rng[0].rv["ops"][0])
    if len(start) != 1 or start[0].kind != "call" or not start[0].callee.endswith("Option::<T>::unwrap_or"):
        return None
    ut = start[0].term
    pos = mir.provenance(fn, du, ut["args"][0])
    dflt = mir.provenance(fn, du, ut["args"][1])
    if not (len(pos) == 1 and pos[0].kind == "call" and (pos[0].callee.endswith("::position") or "position" in pos[0].callee)):
        return None
    if not all(o.kind == "call" and o.callee.endswith("::len") or (o.kind == "const" and "int" in o.const) for o in dflt):
        return None

    def base(op):
        return {repr(o) for o in mir.provenance(fn, du, op, transparent_extra=("core::slice::<impl [T]>::iter", "core::array::<impl [T; N]>::as_slice",
                                                                                "core::slice::<impl [T]>::len"))}
    recv = base(t["args"][0])
    itr = base(pos[0].term["args"][0])
    if recv & itr:
        return "start is a position() within the indexed slice, defaulting to its length"
    return None


def try_all(fn, du, cfg, site):
    for d in (lambda: const_div(fn, du, site), lambda: const_div_overflow(fn, du, site), lambda: counter(fn, du, cfg, site),
              lambda: counter_from_zero(fn, du, cfg, site), lambda: range_full(fn, du, site), lambda: sizes_sum(fn, du, site),
              lambda: sub_guard(fn, du, cfg, site), lambda: widen(fn, du, site), lambda: range_guard(fn, du, cfg, site),
              lambda: position_start(fn, du, site), lambda: len_guard(fn, du, cfg, site),
              lambda: some_set(fn, du, cfg, site), lambda: is_some_guard(fn, du, cfg, site), lambda: infallible(fn, du, site)):
        r = d()
        if r:
            return r
    return None


# ------------------------------------------------------------------------------------------
# a site inside a helper, guarded by its callers

def try_in_callers(F, f, site, max_depth=2):
    """A site that sits in a helper function whose *callers* establish the guard (`if best.len() < limit { top_up(best, limit) }`
    with `limit - best.len()` inside `top_up`): the helper is inlined into every workspace caller (two levels up at most) and
    the site's copy is discharged there; every caller must succeed.  Not attempted for `pub` functions (callers outside the
    workspace are unknown) and for closures."""
    import copy as _copy
    from .common import callers_index
    if f.get("def_kind") == "Closure" or (f.get("vis") or "") == "Public":
        return None

    def attempt(chain, depth):
        top = chain[0]
        sites = callers_index(F).get(top["path"], [])
        if not sites:
            return None
        paths = {g["path"] for g in chain}
        # the guard may itself sit in a small helper the moved site's function calls (`check_arg_count(args, 1)?; args[0]`
        # inside `lower_single_arg`): those helpers come along
        helpers = set()
        for g in chain:
            for _bi, tm in mir.calls(g):
                c = F.fns.get(tm.get("resolved") or tm.get("callee") or "")
                if c is not None and c["crate"] == g["crate"] and not c.get("impl_trait") and not c.get("trait_default") \
                        and len(c["blocks"]) <= 60 and c["path"] not in paths:
                    helpers.add(c["path"])
        reasons = []
        seen_callers = set()
        for caller, t in sites:
            if caller["path"] in seen_callers or caller["path"] in paths:
                continue
            seen_callers.add(caller["path"])

            def want(t2, callee, paths=paths, helpers=helpers):
                return callee["path"] in paths or (callee["path"] in helpers)
            try:
                body = mir.inline_calls(F, F.built.get(caller["path"], caller), want=want, depth=len(chain) + (1 if helpers else 0))
            except Exception:
                return None
            copies = [bi for bi, b in enumerate(body["blocks"]) if b.get("inl") == f["path"] and b.get("inl_bb") == site.bb and not b["cleanup"]]
            if not copies:
                return None
            du, cfg = mir.DefUse(body), mir.CFG(body)
            got = None
            for bi in copies:
                s2 = _copy.copy(site)
                s2.bb = bi
                s2.fn = body
                s2.term = body["blocks"][bi]["t"]
                got = try_all(body, du, cfg, s2)
                if got is None:
                    break
            if got is None:
                if depth < max_depth and (caller.get("vis") or "") != "Public" and caller.get("def_kind") != "Closure":
                    got = attempt([caller] + chain, depth + 1)
                if got is None:
                    return None
            reasons.append(got)
        if not reasons:
            return None
        return reasons[0]
    r = attempt([f], 1)
    return ("%s (guard established by the caller(s); helper inlined)" % r) if r else None
