"""Shared helpers for property modules: tables, call graph, closures."""
import json
import os

from . import mir
from .facts import VERIF, BrokenCheck

import re as _re
common_ident_re = _re.compile(r"[A-Za-z_][A-Za-z0-9_]*(?:::[A-Za-z_][A-Za-z0-9_]*)*")
_TABLES = {}


def table(name):
    if name not in _TABLES:
        p = os.path.join(VERIF, "tables", name + ".json")
        with open(p) as fh:
            _TABLES[name] = json.load(fh)
    return _TABLES[name]


def closures_of(F, path):
    """closure bodies (optimized MIR) whose owner item is `path`"""
    return [f for f in F.fns.values() if f.get("owner") == path]


def with_closures(F, fn):
    """the body and the closures that belong to it.  For a body with helpers inlined (`mir.inline_calls`) also the closures the
    inlined helpers create - those that were not themselves inlined at their call (a closure handed to a std adaptor such as
    `for_each` / `map` stays a body of its own)."""
    out = [fn] + closures_of(F, fn["path"])
    inl = fn.get("inlined")
    if inl:
        seen = {b["path"] for b in out}
        already = set(inl)
        for cp in inl:
            owner = cp
            for c in closures_of(F, owner):
                if c["path"] not in seen and c["path"] not in already:
                    out.append(c)
                    seen.add(c["path"])
    return out


def callee_names(t):
    """all names a call terminator may be known under"""
    out = []
    for k in ("resolved", "callee"):
        v = t.get(k)
        if v:
            out.append(v)
    return out


def call_matches(t, *names):
    """does the call target (declared or resolved) equal one of names, or end with it if it starts with '::'"""
    for n in callee_names(t):
        for w in names:
            if w.startswith("::"):
                if n.endswith(w):
                    return True
            elif n == w:
                return True
    return False


def is_trait_call(t, trait, method=None):
    return t.get("trait") == trait and (method is None or t.get("method") == method)


class CallGraph:
    """Workspace call graph: resolved calls, fn items passed as values, closures, CHA for unresolved trait calls."""

    def __init__(self, F, callbacks=True):
        self.F = F
        self.callbacks = callbacks
        self.edges = {}
        self.impl_index = {}
        for f in F.fns.values():
            tr = f.get("impl_trait")
            if tr and f.get("name"):
                self.impl_index.setdefault((tr, f["name"]), []).append(f["path"])
            td = f.get("trait_default")
            if td and f.get("name"):
                self.impl_index.setdefault((td, f["name"]), []).append(f["path"])
        for p, f in F.fns.items():
            self.edges[p] = self._edges_of(f)

    CALLBACK_TRAITS = ("std::fmt::Display", "std::fmt::Debug", "std::hash::Hash", "std::cmp::PartialEq", "std::cmp::Eq",
                       "std::cmp::PartialOrd", "std::cmp::Ord", "std::clone::Clone", "std::default::Default", "std::ops::Drop",
                       "std::iter::FromIterator", "std::iter::Extend", "std::iter::IntoIterator", "std::iter::Iterator",
                       "std::convert::From", "std::convert::TryFrom", "std::ops::Add", "std::ops::Sub", "std::ops::Neg",
                       "std::ops::Deref", "std::ops::DerefMut", "std::str::FromStr", "std::iter::Sum", "std::convert::AsRef",
                       "std::string::ToString", "std::error::Error")

    def _type_impls(self):
        """workspace ADT path -> fn paths of its impls of callback traits"""
        if getattr(self, "_timpl", None) is None:
            idx = {}
            for f in self.F.fns.values():
                tr = f.get("impl_trait")
                if tr in self.CALLBACK_TRAITS:
                    st = f.get("impl_self") or ""
                    for m in common_ident_re.findall(st):
                        if m in self.F.adts:
                            idx.setdefault(m, set()).add(f["path"])
            self._timpl = idx
        return self._timpl

    def _conv_index(self):
        if getattr(self, "_conv", None) is None:
            idx = {}
            for p, f in self.F.fns.items():
                if f.get("impl_trait") in ("std::convert::From", "std::convert::TryFrom") and f.get("name") in ("from", "try_from") and f["argc"] == 1:
                    idx.setdefault((f["name"] == "try_from", f["locals"][1], f.get("impl_self")), set()).add(p)
            self._conv = idx
        return self._conv

    def _callbacks(self, t):
        out = set()
        ti = self._type_impls()
        callee = t.get("callee") or ""
        # `x.into()`: the From impl between the two instantiated types
        seen = set()
        for g in t.get("gargs", ()):
            for m in common_ident_re.findall(g):
                if m in ti and m not in seen:
                    seen.add(m)
                    out |= ti[m]
        return out

    def _edges_of(self, f):
        F = self.F
        out = set()
        for bi, b in enumerate(f["blocks"]):
            if b["cleanup"]:
                continue
            for s in b["s"]:
                rv = s["rv"]
                if rv["k"] == "agg" and "closure" in rv:
                    out.add(rv["closure"])
                for o in mir.all_operands_of_rv(rv):
                    c = mir.op_const(o)
                    if c and "fn" in c:
                        out.add(c["fn"])
                        if "fn_resolved" in c:
                            out.add(c["fn_resolved"])
                        out.update(c.get("fnrefs", ()))
            t = b["t"]
            if t["k"] == "call":
                r = t.get("resolved")
                c = t.get("callee")
                if r and r in F.fns:
                    out.add(r)
                elif c and c in F.fns and not t.get("trait"):
                    out.add(c)
                elif t.get("trait") and not r:
                    # unresolved (generic context) trait method: CHA over workspace impls of that method
                    for ip in self.impl_index.get((t["trait"], t["method"]), ()):
                        out.add(ip)
                    if c in F.fns:
                        out.add(c)
                elif r and r not in F.fns and c in ("std::convert::Into::into", "std::convert::TryInto::try_into") and len(t.get("gargs") or ()) == 2:
                    # `x.into()` / `x.try_into()` through the std blanket impl: the workspace's From / TryFrom impl between the
                    # two instantiated types is what runs
                    out.update(self._conv_index().get((c.endswith("try_into"), t["gargs"][0], t["gargs"][1]), ()))
                    if self.callbacks:
                        out.update(self._callbacks(t))
                elif r and r not in F.fns:
                    # resolved to library code: it may call back into the workspace through trait impls of the
                    # workspace types it is instantiated with (From via Into, Display via to_string/format, Hash/Eq via
                    # hash containers, Ord via sort, FromIterator via collect, ...)
                    if self.callbacks:
                        out.update(self._callbacks(t))
                for x in t.get("fnrefs", ()):
                    out.add(x)
                for a in t["args"]:
                    cc = mir.op_const(a)
                    if cc and "fn" in cc:
                        out.add(cc["fn"])
                        if "fn_resolved" in cc:
                            out.add(cc["fn_resolved"])
                        out.update(cc.get("fnrefs", ()))
        # async fn: its coroutine body
        clo = f["path"] + "::{closure#0}"
        if clo in F.fns:
            out.add(clo)
        return {x for x in out if x in F.fns}

    def reachable(self, roots):
        seen = set()
        st = []
        for r in roots:
            if r not in self.F.fns:
                raise BrokenCheck("call-graph root not found: " + r)
            seen.add(r)
            st.append(r)
        while st:
            x = st.pop()
            for y in self.edges.get(x, ()):
                if y not in seen:
                    seen.add(y)
                    st.append(y)
        return seen

    def path_to(self, roots, target):
        """one call path root -> target (list of fn paths) for reports"""
        prev = {}
        st = list(roots)
        seen = set(roots)
        while st:
            x = st.pop(0)
            if x == target:
                out = [x]
                while out[-1] in prev:
                    out.append(prev[out[-1]])
                return list(reversed(out))
            for y in sorted(self.edges.get(x, ())):
                if y not in seen:
                    seen.add(y)
                    prev[y] = x
                    st.append(y)
        return None


def is_derive(fn):
    k = fn.get("expk", "")
    return k.startswith("derive:") or "<derive:" in k


def site_in_derive(exp):
    return exp.startswith("derive:") or "<derive:" in exp


def fn_short(path):
    """human-size name for a function path"""
    p = path
    for pre in ("tx3_tir::model::v1beta0::", "tx3_tir::reduce::", "tx3_tir::", "tx3_lang::", "tx3_cardano::", "tx3_resolver::"):
        p = p.replace(pre, "")
    return p


def run_witnesses():
    """E12: compile-fail witnesses (thorough tier).  Returns (passed, failed, log tail)."""
    import shutil
    import subprocess
    from .facts import VERIF, REPO, CACHE
    wdir = os.path.join(VERIF, "witness")
    shutil.copy(os.path.join(REPO, "Cargo.lock"), os.path.join(wdir, "Cargo.lock"))
    env = dict(os.environ, CARGO_NET_OFFLINE="true", CARGO_TARGET_DIR=os.path.join(CACHE, "witness-target"))
    env.pop("RUSTC_WORKSPACE_WRAPPER", None)
    r = subprocess.run(["cargo", "+nightly", "test", "--doc", "--offline"], cwd=wdir, env=env, capture_output=True, text=True)
    out = r.stdout + r.stderr
    import re as _r
    m = _r.search(r"test result: \w+\. (\d+) passed; (\d+) failed", out)
    if not m:
        raise BrokenCheck("witness crate did not run: " + out[-1500:])
    return int(m.group(1)), int(m.group(2)), out[-1500:]


def bool_return_leaves(F, g, depth=0, follow=None):
    """For a function/closure returning bool: the calls its return value is (possibly negated) a direct result of.
    Returns [(sign, term, fn)] with sign +1/-1, or None when the value is computed in a way this does not follow
    (short-circuit && / ||, comparisons, constants).  `follow(path)` says whether to descend into a workspace callee that
    itself returns bool (composition of helper predicates)."""
    out = []
    du = mir.DefUse(g)
    seen = set()

    def walk(local, sign, d):
        if (local, sign) in seen or d > 30:
            return True
        seen.add((local, sign))
        defs = du.defs.get(local, [])
        if not defs:
            return False
        okk = True
        for df in defs:
            if df[0] == "call":
                t = df[3]
                r = t.get("resolved") or t.get("callee") or ""
                if follow is not None and depth < 2 and r in F.fns and follow(r):
                    sub = bool_return_leaves(F, F.fns[r], depth + 1, follow)
                    if sub is None:
                        okk = False
                    else:
                        out.extend((sign * s2, t2, f2) for s2, t2, f2 in sub)
                else:
                    out.append((sign, t, g))
            else:
                rv = df[3]["rv"]
                if rv["k"] == "use":
                    pl = mir.op_place(rv["op"])
                    if pl is None or pl["p"]:
                        okk = False
                    else:
                        okk = walk(pl["l"], sign, d + 1) and okk
                elif rv["k"] == "unop" and rv.get("op") == "Not":
                    pl = mir.op_place(rv["a"])
                    if pl is None or pl["p"]:
                        okk = False
                    else:
                        okk = walk(pl["l"], -sign, d + 1) and okk
                else:
                    okk = False
        return okk

    good = walk(0, 1, 0)
    return out if good else None


# ------------------------------------------------------------------------------------------
# values supplied from outside a function: parameters resolved at the call sites, captured variables at the closure's creation

_CALLERS = {}


def callers_index(F):
    """callee path -> [(caller fn record, call terminator)] over the workspace (direct, resolved calls)"""
    idx = _CALLERS.get(id(F))
    if idx is None:
        idx = {}
        for f in list(F.fns.values()):
            g = F.built.get(f["path"], f)
            for bi, t in mir.calls(g):
                for n in callee_names(t):
                    if n in F.fns:
                        idx.setdefault(n, []).append((g, t))
                        break
        _CALLERS[id(F)] = idx
    return idx


def closure_creations(F, closure_path):
    """[(owner fn record, aggregate rvalue)] where the closure value is built"""
    c = F.fns.get(closure_path) or F.built.get(closure_path)
    out = []
    if c is None or not c.get("owner"):
        return out
    parent = c.get("parent") or c.get("owner")
    for cand in (parent, c.get("owner")):
        for src in (F.built, F.fns):
            o = src.get(cand)
            if o is None:
                continue
            for bi, si, s in mir.stmts(o):
                rv = s["rv"]
                if rv["k"] == "agg" and rv.get("closure") == closure_path:
                    out.append((o, rv))
            if out:
                return out
    return out


def outer_origins(F, fn, op, depth=3, transparent_extra=(), _seen=None):
    """Origins of an operand with parameters and captured variables resolved outward: a value that is a parameter of `fn` is
    replaced by the origins of the actual argument at every workspace call site of `fn`; a captured variable of a closure by
    the origins of the captured operand where the closure is created.  Returns [(fn record, Origin)]; origins that cannot be
    resolved further (public entry parameters, call results, ...) are returned as they are."""
    _seen = _seen if _seen is not None else set()
    out = []
    du = mir.DefUse(fn)
    for o in mir.provenance(fn, du, op, transparent_extra=transparent_extra):
        if o.kind != "arg" or depth <= 0:
            out.append((fn, o))
            continue
        k = (fn["path"], o.local, o.proj)
        if k in _seen:
            continue
        _seen.add(k)
        if fn.get("def_kind") == "Closure" and o.local == 1 and o.proj and o.proj[0][1:].isdigit():
            idx = int(o.proj[0][1:])
            cr = closure_creations(F, fn["path"])
            if not cr:
                out.append((fn, o))
                continue
            for owner, rv in cr:
                if idx < len(rv["ops"]):
                    for fn2, o2 in outer_origins(F, owner, rv["ops"][idx], depth - 1, transparent_extra, _seen):
                        out.append((fn2, _with_proj(o2, o.proj[1:])))
            continue
        if fn.get("def_kind") == "Closure":
            # a parameter of a closure that its owner calls directly (`let lower_field = |key| ..; lower_field("from")`): the
            # argument tuple of each such call.  A closure handed to library code keeps its parameter as it is.
            resolved = False
            for owner, rv in closure_creations(F, fn["path"]) or []:
                odu = mir.DefUse(owner)
                for bi2, t2 in mir.calls(owner):
                    if (t2.get("callee") or "") not in ("std::ops::Fn::call", "std::ops::FnMut::call_mut", "std::ops::FnOnce::call_once") or len(t2["args"]) != 2:
                        continue
                    if not any(x.kind == "agg" and x.rv is rv for x in mir.provenance(owner, odu, t2["args"][0])):
                        continue
                    for x in mir.provenance(owner, odu, t2["args"][1]):
                        if x.kind == "agg" and "tuple" in x.rv and 0 <= o.local - 2 < len(x.rv["ops"]):
                            for fn2, o2 in outer_origins(F, owner, x.rv["ops"][o.local - 2], depth - 1, transparent_extra, _seen):
                                out.append((fn2, _with_proj(o2, o.proj)))
                                resolved = True
            if not resolved:
                out.append((fn, o))
            continue
        sites = callers_index(F).get(fn["path"], [])
        if not sites:
            out.append((fn, o))
            continue
        for caller, t in sites:
            if o.local - 1 < len(t["args"]):
                for fn2, o2 in outer_origins(F, caller, t["args"][o.local - 1], depth - 1, transparent_extra, _seen):
                    out.append((fn2, _with_proj(o2, o.proj)))
    return out


def _with_proj(o, extra):
    """the origin with the projections the callee applied to its parameter appended"""
    if not extra:
        return o
    n = mir.Origin(o.kind, local=o.local, proj=tuple(o.proj) + tuple(extra), bb=o.bb, callee=o.callee, const=o.const,
                   through=o.through, term=o.term, rv=o.rv)
    return n


# ------------------------------------------------------------------------------------------
# collecting the elements of a collection into a map / set under a key that is only a part of the element

KEYED_TARGET = ("BTreeMap<", "HashMap<", "BTreeSet<", "HashSet<", "IndexMap<")
KEY_IDENT = ("std::clone::Clone::clone", "std::borrow::ToOwned::to_owned", "std::convert::AsRef::as_ref", "std::ops::Deref::deref",
             "std::vec::Vec::<T, A>::as_slice", "std::string::String::as_str", "std::borrow::Borrow::borrow", "std::convert::From::from",
             "std::convert::Into::into", "alloc::slice::<impl [T]>::to_vec", "std::slice::<impl [T]>::to_vec", "std::string::ToString::to_string",
             "std::iter::Iterator::cloned", "std::iter::Iterator::copied")
ITER_PASS = ("std::iter::Iterator::filter", "std::iter::Iterator::cloned", "std::iter::Iterator::copied", "std::iter::Iterator::rev",
             "std::iter::IntoIterator::into_iter", "std::iter::Iterator::peekable", "std::iter::Iterator::skip_while",
             "std::iter::Iterator::take_while", "std::iter::Iterator::inspect")


def keyed_collapses(F, g):
    """Sites in g where an iterator is mapped to (key, value) pairs - or to keys - and collected into a map / set, and the key is
    a proper part of the element or computed from it (a field of a struct element, a lower-cased name): elements with equal
    keys collapse into one entry.  Keys that are the element itself, or the key of a map entry being re-collected, are fine.
    Returns [(line, description)]."""
    out = []
    du = mir.DefUse(g)
    for bi, t in mir.calls(g):
        c = t.get("callee") or ""
        name = c.split("::")[-1]
        if name not in ("collect", "from_iter") or not t["args"]:
            continue
        target = " ".join(t.get("gargs") or []) + " " + (t.get("resolved") or "") + " " + g["locals"][t["dest"]["l"]]
        tgt = None
        for k in KEYED_TARGET:
            if k in (t.get("gargs") or ["", ""])[-1] or k in g["locals"][t["dest"]["l"]].split("Result<")[-1][:80]:
                tgt = k
        if tgt is None:
            continue
        is_map = "Map" in tgt
        # the Iterator::map feeding the collect
        seen = set()
        st = [t["args"][0]]
        maps = []
        hops = 0
        while st and hops < 12:
            hops += 1
            op = st.pop()
            for o in mir.provenance(g, du, op):
                if o.kind != "call" or id(o.term) in seen:
                    continue
                seen.add(id(o.term))
                if o.callee == "std::iter::Iterator::map":
                    maps.append(o.term)
                elif o.callee in ITER_PASS and o.term["args"]:
                    st.append(o.term["args"][0])
        for mt in maps:
            clos = []
            for o in mir.provenance(g, du, mt["args"][1]) if len(mt["args"]) > 1 else []:
                if o.kind == "agg" and o.rv.get("closure") in F.fns:
                    clos.append(F.fns[o.rv["closure"]])
            for cfn in clos:
                dc = mir.DefUse(cfn)
                elem_ty = cfn["locals"][2] if len(cfn["locals"]) > 2 else ""
                for bj, sj, s in mir.stmts(cfn):
                    if s["lhs"]["l"] != 0 or s["lhs"]["p"]:
                        continue
                    rv = s["rv"]
                    if is_map and rv["k"] == "agg" and rv.get("variant") in ("Ok", "Some") and len(rv.get("ops") or []) == 1:
                        # `.map(|x| Ok((key(x)?, value)))` collected into a Result<Map, _> / Option<Map>
                        inner = [o for o in mir.provenance(cfn, dc, rv["ops"][0]) if o.kind == "agg" and "tuple" in o.rv and len(o.rv["ops"]) == 2]
                        if len(inner) == 1:
                            rv = inner[0].rv
                    if is_map:
                        if not (rv["k"] == "agg" and "tuple" in rv and len(rv["ops"]) == 2):
                            continue
                        keyop = rv["ops"][0]
                    else:
                        keyop = rv.get("op") if rv["k"] == "use" else None
                        if keyop is None:
                            continue
                    orgs = mir.provenance(cfn, dc, keyop, transparent_extra=KEY_IDENT)
                    for o in orgs:
                        if o.kind == "arg" and o.local >= 2:
                            proj = [p for p in o.proj if not p.startswith(" as ")]
                            if not proj:
                                continue
                            if elem_ty.lstrip("&").startswith("(") and proj[0] == ".0" and len(proj) == 1:
                                continue   # the key of a map entry
                            out.append((mt["line"], "key `%s` of each element (%s) - elements that agree on it collapse into one entry of the %s" % (
                                "".join(proj).lstrip("."), elem_ty[:60], tgt.rstrip("<"))))
                        elif o.kind == "call":
                            out.append((mt["line"], "key computed by %s(..) - elements whose computed keys collide collapse into one entry of the %s" % (
                                o.callee.split("::")[-1], tgt.rstrip("<"))))
    return out


def float_sites(F, reach, crates=None):
    """[(fn record, line, what)] where a value passes through floating point in the given functions: int<->float casts, float
    arithmetic / comparisons, and calls that hand out a float view of a number (`as_f64`, `parse::<f64>`)"""
    out = []
    for p in sorted(reach):
        f = F.built.get(p, F.fns.get(p))
        if f is None or is_derive(f) or (crates and f["crate"] not in crates):
            continue
        for bi, si, s in mir.stmts(f):
            rv = s["rv"]
            if site_in_derive(s.get("exp", "")):
                continue
            if rv["k"] == "cast" and rv["ck"] in ("FloatToInt", "IntToFloat", "FloatToFloat"):
                out.append((f, s["line"], "%s cast %s -> %s" % (rv["ck"], rv["from"], rv["to"])))
            elif rv["k"] == "binop" and rv.get("ty") in ("f64", "f32"):
                out.append((f, s["line"], "%s on %s" % (rv["op"], rv["ty"])))
        for bi, t in mir.calls(f):
            c = t.get("callee") or ""
            last = c.split("::")[-1]
            if last in ("as_f64", "as_f32") or (("f64" in c or "f32" in c) and (c.startswith("std::f64::") or "<impl f64>" in c or "<impl f32>" in c)) \
                    or (last == "parse" and any(g in ("f64", "f32") for g in (t.get("gargs") or []))):
                out.append((f, t["line"], "call of %s" % c.split("::<")[0]))
    return out


_WH = {}


def with_helpers(F, path, depth=2, limit=300, exclude=()):
    """the function's body (pre-transform coroutine body for async fns) with the plain functions / inherent methods of its own
    crate inlined - what a rule about "function X does Y" should look at, so that splitting X into helpers changes nothing"""
    from .facts import BrokenCheck
    k = (id(F), path, depth, limit, tuple(exclude))
    if k not in _WH:
        base = F.body(path)
        crate = base["crate"]

        home = (F.fns.get(path) or base).get("parent", "")

        def want(t, callee):
            if callee["crate"] != crate or callee.get("impl_trait") or callee.get("trait_default") or callee["path"] in exclude:
                return False
            # `pub` functions of other modules are interfaces the rules talk about (from_json, lowering::lower ..), not helpers
            if (callee.get("vis") or "") == "Public" and callee.get("parent", "") != home:
                return False
            return len(callee["blocks"]) <= limit
        _WH[k] = (mir.inline_calls(F, base, want=want, depth=depth), want)
    return _WH[k][0]


def deep_bodies(F, path, depth=2, limit=300):
    """`with_helpers(F, path)` and every closure that belongs to it, each closure too with the crate's helpers inlined, and the
    closures *those* bring along, to a fixed point: everything that runs "inside" the function, however it was split into
    helpers and closures.  Bodies are distinct (by path); a helper inlined into several of them appears in each."""
    base = with_helpers(F, path, depth=depth, limit=limit)
    want = _WH[(id(F), path, depth, limit, ())][1]
    out, seen, work = [], set(), [base]
    while work and len(out) < 60:
        b = work.pop(0)
        if b["path"] in seen:
            continue
        seen.add(b["path"])
        out.append(b)
        for c in with_closures(F, b)[1:]:
            if c["path"] in seen:
                continue
            try:
                ci = mir.inline_calls(F, c, want=want, depth=depth)
            except Exception:
                ci = c
            work.append(ci)
    return out


def row_lookup(rows, present):
    """Reviewed rows keyed `<fn path>|<what>`: a row whose own site no longer exists (the function was renamed, moved or inlined
    into its caller) still speaks for an untabled site of the same `<what>` in the same crate.  Returns lookup(key) ->
    (reason, relocated_from or None) or None.  A row whose site still exists is never reused for another site."""
    import re as _re

    def sig(k):
        m = _re.search(r"\btx3[a-z_]*", k)
        return (m.group(0) if m else "", k.split("|", 1)[1].split("|#")[0] if "|" in k else "")
    moved = {}
    for k, reason in rows.items():
        if k not in present:
            moved.setdefault(sig(k), (reason, k))

    def lookup(key):
        if key in rows:
            return rows[key], None
        m = moved.get(sig(key))
        if m:
            return m[0], m[1]
        return None
    return lookup
