"""Shared helpers for property modules: tables, call graph, closures."""
import json
import os

from . import mir
from .facts import VERIF, BrokenCheck

_TABLES = {}


def table(name):
    if name not in _TABLES:
        p = os.path.join(VERIF, "tables", name + ".json")
        with open(p) as fh:
            _TABLES[name] = json.load(fh)
    return _TABLES[name]


def closures_of(F, path):
    """closure bodies (optimized MIR) whose owner item is `path`"""
    return [f for f in F.fns.values() if f.get("owner") == path]


def with_closures(F, fn):
    return [fn] + closures_of(F, fn["path"])


def callee_names(t):
    """all names a call terminator may be known under"""
    out = []
    for k in ("resolved", "callee"):
        v = t.get(k)
        if v:
            out.append(v)
    return out


def call_matches(t, *names):
    """does the call target (declared or resolved) equal one of names, or end with it if it starts with '::'"""
    for n in callee_names(t):
        for w in names:
            if w.startswith("::"):
                if n.endswith(w):
                    return True
            elif n == w:
                return True
    return False


def is_trait_call(t, trait, method=None):
    return t.get("trait") == trait and (method is None or t.get("method") == method)


class CallGraph:
    """Workspace call graph: resolved calls, fn items passed as values, closures, CHA for unresolved trait calls."""

    def __init__(self, F):
        self.F = F
        self.edges = {}
        self.impl_index = {}
        for f in F.fns.values():
            tr = f.get("impl_trait")
            if tr and f.get("name"):
                self.impl_index.setdefault((tr, f["name"]), []).append(f["path"])
            td = f.get("trait_default")
            if td and f.get("name"):
                self.impl_index.setdefault((td, f["name"]), []).append(f["path"])
        for p, f in F.fns.items():
            self.edges[p] = self._edges_of(f)

    def _edges_of(self, f):
        F = self.F
        out = set()
        for bi, b in enumerate(f["blocks"]):
            if b["cleanup"]:
                continue
            for s in b["s"]:
                rv = s["rv"]
                if rv["k"] == "agg" and "closure" in rv:
                    out.add(rv["closure"])
                for o in mir.all_operands_of_rv(rv):
                    c = mir.op_const(o)
                    if c and "fn" in c:
                        out.add(c["fn"])
                        if "fn_resolved" in c:
                            out.add(c["fn_resolved"])
                        out.update(c.get("fnrefs", ()))
            t = b["t"]
            if t["k"] == "call":
                r = t.get("resolved")
                c = t.get("callee")
                if r and r in F.fns:
                    out.add(r)
                elif c and c in F.fns and not t.get("trait"):
                    out.add(c)
                elif t.get("trait"):
                    # unresolved (generic) or resolved-to-default trait method: CHA over workspace impls
                    if r and r in F.fns:
                        out.add(r)
                    else:
                        for ip in self.impl_index.get((t["trait"], t["method"]), ()):
                            out.add(ip)
                        if c in F.fns:
                            out.add(c)
                for x in t.get("fnrefs", ()):
                    out.add(x)
                for a in t["args"]:
                    cc = mir.op_const(a)
                    if cc and "fn" in cc:
                        out.add(cc["fn"])
                        if "fn_resolved" in cc:
                            out.add(cc["fn_resolved"])
                        out.update(cc.get("fnrefs", ()))
        # async fn: its coroutine body
        clo = f["path"] + "::{closure#0}"
        if clo in F.fns:
            out.add(clo)
        return {x for x in out if x in F.fns}

    def reachable(self, roots):
        seen = set()
        st = []
        for r in roots:
            if r not in self.F.fns:
                raise BrokenCheck("call-graph root not found: " + r)
            seen.add(r)
            st.append(r)
        while st:
            x = st.pop()
            for y in self.edges.get(x, ()):
                if y not in seen:
                    seen.add(y)
                    st.append(y)
        return seen

    def path_to(self, roots, target):
        """one call path root -> target (list of fn paths) for reports"""
        prev = {}
        st = list(roots)
        seen = set(roots)
        while st:
            x = st.pop(0)
            if x == target:
                out = [x]
                while out[-1] in prev:
                    out.append(prev[out[-1]])
                return list(reversed(out))
            for y in sorted(self.edges.get(x, ())):
                if y not in seen:
                    seen.add(y)
                    prev[y] = x
                    st.append(y)
        return None


def is_derive(fn):
    k = fn.get("expk", "")
    return k.startswith("derive:") or "<derive:" in k


def site_in_derive(exp):
    return exp.startswith("derive:") or "<derive:" in exp


def fn_short(path):
    """human-size name for a function path"""
    p = path
    for pre in ("tx3_tir::model::v1beta0::", "tx3_tir::reduce::", "tx3_tir::", "tx3_lang::", "tx3_cardano::", "tx3_resolver::"):
        p = p.replace(pre, "")
    return p
