"""Fact extraction and loading.

Runs the mirfacts driver (rustc_private, RUSTC_WORKSPACE_WRAPPER) under `cargo +nightly check`
over /repo's *current working tree* and gramfacts over tx3.pest; caches by a digest of the
sources so the 20 per-property checks share one extraction.  Fails closed: a missing fact file
or a count below the floors is a broken check, never a pass.
"""
import fcntl
import glob
import hashlib
import json
import os
import re
import shutil
import subprocess
import sys
import time

VERIF = os.path.dirname(os.path.dirname(os.path.abspath(__file__)))
REPO = os.environ.get("VERIF_REPO", "/repo")
CACHE = os.path.join(VERIF, ".cache")
MEMBERS = ["tx3_tir", "tx3_lang", "tx3_cardano", "tx3_resolver", "tx3c"]
GRAMMAR = "crates/tx3-lang/src/tx3.pest"

CONFIGS = {
    # name -> (extra cargo args, extra rustflags)
    "default": ([], ""),
    "naive": (["--features", "tx3-resolver/naive_selector"], ""),
    "nooverflow": ([], "-C overflow-checks=off"),
}


class BrokenCheck(Exception):
    """The machinery itself failed (missing anchor, missing facts): not a verdict."""


def repo_files(repo=None):
    repo = repo or REPO
    out = []
    for root, dirs, files in os.walk(repo):
        dirs[:] = [d for d in dirs if d not in ("target", ".git", "node_modules")]
        for f in files:
            if f.endswith((".rs", ".pest")) or f in ("Cargo.toml", "Cargo.lock"):
                out.append(os.path.join(root, f))
    out.sort()
    return out


def repo_digest(repo=None):
    repo = repo or REPO
    h = hashlib.sha256()
    for f in repo_files(repo):
        h.update(os.path.relpath(f, repo).encode())
        h.update(b"\0")
        with open(f, "rb") as fh:
            h.update(fh.read())
        h.update(b"\0")
    # the driver is part of what the facts mean
    for t in ("tools/mirfacts/src/main.rs", "tools/mirfacts/src/json.rs", "tools/gramfacts/src/main.rs"):
        with open(os.path.join(VERIF, t), "rb") as fh:
            h.update(fh.read())
    return h.hexdigest()[:20]


def _sysroot():
    return subprocess.check_output(["rustc", "+nightly", "--print", "sysroot"], text=True).strip()


def _build_tool(name):
    d = os.path.join(VERIF, "tools", name)
    binp = os.path.join(d, "target", "debug", name)
    srcs = glob.glob(os.path.join(d, "src", "*.rs"))
    if os.path.exists(binp) and all(os.path.getmtime(binp) >= os.path.getmtime(s) for s in srcs):
        return binp
    env = dict(os.environ, CARGO_NET_OFFLINE="true")
    env.pop("RUSTC_WORKSPACE_WRAPPER", None)
    r = subprocess.run(["cargo", "build", "--offline"], cwd=d, env=env, capture_output=True, text=True)
    if r.returncode != 0 or not os.path.exists(binp):
        raise BrokenCheck("cannot build tool %s:\n%s" % (name, r.stderr[-3000:]))
    return binp


def ensure_facts(config="default", repo=None, log=None):
    """Return the directory holding the fact files for the current tree under `config`."""
    repo = repo or REPO
    os.makedirs(os.path.join(CACHE, "locks"), exist_ok=True)
    digest = repo_digest(repo)
    out = os.path.join(CACHE, "facts", "%s-%s" % (digest, config))
    if os.path.exists(os.path.join(out, "DONE")):
        return out
    # one extraction per (tree, configuration): concurrent checks of the same tree wait for it
    lockf = open(os.path.join(CACHE, "locks", "%s-%s" % (digest, config)), "w")
    fcntl.flock(lockf, fcntl.LOCK_EX)
    slotf = None
    try:
        if os.path.exists(os.path.join(out, "DONE")):
            return out
        t0 = time.time()
        if os.path.isdir(out):
            shutil.rmtree(out)
        os.makedirs(out)
        # the tools are built under one global lock
        toolf = open(os.path.join(CACHE, "locks", "tools"), "w")
        fcntl.flock(toolf, fcntl.LOCK_EX)
        try:
            drv = _build_tool("mirfacts")
            gram = _build_tool("gramfacts")
        finally:
            fcntl.flock(toolf, fcntl.LOCK_UN)
            toolf.close()
        # a small pool of cargo target directories so that different trees (mutant self-tests) extract in parallel;
        # slot 0 is the one setup warms
        slot = None
        while slot is None:
            for i in range(int(os.environ.get("VERIF_SLOTS", "4"))):
                sf = open(os.path.join(CACHE, "locks", "slot-%s-%d" % (config, i)), "w")
                try:
                    fcntl.flock(sf, fcntl.LOCK_EX | fcntl.LOCK_NB)
                    slot, slotf = i, sf
                    break
                except OSError:
                    sf.close()
            if slot is None:
                time.sleep(0.5)
        target = os.path.join(CACHE, "target-" + config + ("" if slot == 0 else "-%d" % slot))
        # cargo's freshness cache would skip the wrapper: delete the members' fingerprints
        for fp in glob.glob(os.path.join(target, "debug", ".fingerprint", "tx3*")):
            shutil.rmtree(fp, ignore_errors=True)
        extra_args, extra_flags = CONFIGS[config]
        env = dict(os.environ)
        env.update(
            LD_LIBRARY_PATH=_sysroot() + "/lib",
            RUSTFLAGS=("-Zmir-opt-level=0 -Awarnings " + extra_flags).strip(),
            RUSTC_WORKSPACE_WRAPPER=drv,
            MIRFACTS_OUT=out,
            CARGO_TARGET_DIR=target,
            CARGO_NET_OFFLINE="true",
        )
        cmd = ["cargo", "+nightly", "check", "--offline", "--workspace"] + extra_args
        r = subprocess.run(cmd, cwd=repo, env=env, capture_output=True, text=True)
        if r.returncode != 0:
            raise BrokenCheck("cargo check failed on the working tree (config %s):\n%s" % (config, r.stderr[-4000:]))
        for m in MEMBERS:
            fs = glob.glob(os.path.join(out, m + "-*.jsonl"))
            if len(fs) != 1:
                raise BrokenCheck("expected exactly one fact file for member %s, found %d" % (m, len(fs)))
        g = subprocess.run([gram, os.path.join(repo, GRAMMAR)], capture_output=True, text=True)
        if g.returncode != 0:
            raise BrokenCheck("gramfacts failed: " + g.stderr[-2000:])
        with open(os.path.join(out, "grammar.json"), "w") as fh:
            fh.write(g.stdout)
        md = subprocess.run(
            ["cargo", "metadata", "--offline", "--format-version", "1"] + extra_args,
            cwd=repo, env=dict(os.environ, CARGO_NET_OFFLINE="true"), capture_output=True, text=True)
        if md.returncode != 0:
            raise BrokenCheck("cargo metadata failed: " + md.stderr[-2000:])
        with open(os.path.join(out, "metadata.json"), "w") as fh:
            fh.write(md.stdout)
        with open(os.path.join(out, "DONE"), "w") as fh:
            json.dump({"digest": digest, "config": config, "extract_s": round(time.time() - t0, 2)}, fh)
        # keep the cache small: drop fact dirs beyond the 40 most recent, but never one younger than 20 minutes (a parallel
        # self-test run may still be reading it)
        dirs = sorted(glob.glob(os.path.join(CACHE, "facts", "*")), key=os.path.getmtime)
        now = time.time()
        for d in dirs[:-40]:
            try:
                if now - os.path.getmtime(d) > 1200:
                    shutil.rmtree(d, ignore_errors=True)
            except OSError:
                pass
        if log:
            log("extracted facts for %s (%s) in %.1fs" % (digest, config, time.time() - t0))
        return out
    finally:
        if slotf is not None:
            fcntl.flock(slotf, fcntl.LOCK_UN)
            slotf.close()
        fcntl.flock(lockf, fcntl.LOCK_UN)
        lockf.close()


_CRATE_RE = re.compile(r"\bcrate::")


class Facts:
    """In-memory model of the extracted program."""

    def __init__(self, directory, members=None):
        self.dir = directory
        self.fns = {}      # path -> fn record (optimized MIR; for coroutine bodies see .built)
        self.built = {}    # path -> fn record (mir_built of coroutine bodies, pre state transform)
        self.ctfe = {}     # path -> const bodies
        self.promoted = {}  # (fn path, index) -> promoted constant body
        self.adts = {}     # path -> adt record
        self.impls = []    # impl records
        self.crates = {}
        members = members or MEMBERS
        for m in members:
            fs = glob.glob(os.path.join(directory, m + "-*.jsonl"))
            if len(fs) != 1:
                raise BrokenCheck("fact file for %s missing in %s" % (m, directory))
            with open(fs[0]) as fh:
                for line in fh:
                    line = _CRATE_RE.sub(m + "::", line)
                    o = json.loads(line)
                    k = o["kind"]
                    if k == "fn":
                        st = o["stage"]
                        if st == "opt":
                            self.fns[o["path"]] = o
                        elif st == "built":
                            self.built[o["path"]] = o
                        elif st == "promoted":
                            self.promoted[(o["path"], o["promoted_index"])] = o
                        else:
                            self.ctfe[o["path"]] = o
                    elif k == "adt":
                        self.adts[o["path"]] = o
                    elif k == "impl":
                        self.impls.append(o)
                    elif k == "crate":
                        self.crates[m] = o
        with open(os.path.join(directory, "grammar.json")) as fh:
            self.grammar = json.load(fh)
        with open(os.path.join(directory, "metadata.json")) as fh:
            self.metadata = json.load(fh)
        with open(os.path.join(directory, "DONE")) as fh:
            self.meta = json.load(fh)
        self._by_trait = None
        # fail closed: every coroutine body must also be present in its pre-transform form (the path rules on async
        # functions are only meaningful there)
        missing = [p for p, f in self.fns.items() if f.get("coroutine") and p not in self.built]
        if missing:
            raise BrokenCheck("pre-transform MIR missing for coroutine bodies: %s" % ", ".join(sorted(missing)[:5]))

    # ---- lookups -------------------------------------------------------------------------
    def fn(self, path):
        f = self.fns.get(path)
        if f is None:
            raise BrokenCheck("anchor function not found: " + path)
        return f

    def body(self, path):
        """The CFG to reason about: for async fns the pre-transform coroutine body."""
        clo = path + "::{closure#0}"
        if clo in self.built:
            return self.built[clo]
        if path in self.built:
            return self.built[path]
        return self.fn(path)

    def trait_impls(self, trait):
        """impl records of `trait` (full path)."""
        return [i for i in self.impls if i.get("trait") == trait]

    def impl_fns(self, trait, method):
        """fn records implementing trait::method"""
        out = []
        for f in self.fns.values():
            if f.get("impl_trait") == trait and f.get("name") == method:
                out.append(f)
        return out

    def adt(self, path):
        a = self.adts.get(path)
        if a is None:
            raise BrokenCheck("anchor type not found: " + path)
        return a

    def rel(self, f):
        p = f["file"]
        if p.startswith(REPO + "/"):
            p = p[len(REPO) + 1:]
        return "%s:%s" % (p, f["line"])

    def resolved_features(self, pkg):
        """features resolved for package `pkg` in this build configuration"""
        res = self.metadata.get("resolve") or {}
        for n in res.get("nodes", []):
            name = n["id"]
            # id formats: "registry+...#serde_json@1.0.0" or "path+file:///...#tx3-lang@0.15.1"
            base = name.split("#")[-1].split("@")[0]
            if base == pkg or name.split(" ")[0] == pkg:
                return n.get("features", [])
        raise BrokenCheck("package %s not found in cargo metadata" % pkg)


def load(config="default", repo=None, log=None):
    d = ensure_facts(config, repo=repo, log=log)
    return Facts(d)


if __name__ == "__main__":
    if "--warm" in sys.argv:
        t0 = time.time()
        d = ensure_facts("default", log=print)
        f = Facts(d)
        print("facts: %d fns, %d coroutine bodies, %d adts, %d impls, %d grammar rules (%.1fs)" % (
            len(f.fns), len(f.built), len(f.adts), len(f.impls), len(f.grammar), time.time() - t0))
