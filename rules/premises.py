"""Mechanical premises for reviewed rows (D-TABLE).

A row that discharges a panic / arithmetic site by an argument about the *callers* ("the only caller guards the amount")
names that argument as premises; they are re-checked against the MIR on every run, so an edit to the caller that removes
the guard turns the row off and the site is reported again.  Vocabulary:

  {"t": "only_callers", "fn": F, "callers": [C..]}          every call / fn-item reference to F sits in one of C (closures count
                                                             as their owner)
  {"t": "call_guarded", "caller": C, "callee": F, "cmp": "Gt", "lhs_cast_to": "i64"|null, "lhs_is_arg": k|null,
       "rhs_const": 0, "edge": "true"|"false"}               every call of F in C is dominated by that edge of a branch on
                                                             `lhs cmp rhs_const`; lhs is a cast to the given type and/or the
                                                             value passed as the k-th argument (0-based) of the call
  {"t": "arg_cast_from", "caller": C, "callee": F, "arg": k, "from": "u64"}   the k-th argument is a widening cast from that type
  {"t": "dominated_by_const_key_inserts", "caller": C, "callee": F, "keys": [..]}   every call of F in C is dominated by map
                                                             inserts with those constant keys
"""
from . import mir
from .common import with_closures


_WANTS = []


def _same_value(g, du, a, b):
    """do two operands denote the same value: plain copies of one local, or the same origin(s) through `?`, moves, casts-free
    copies and the Ok(..)/Some(..) wrappers of an inlined helper's return"""
    ra, rb = _root(g, du, a), _root(g, du, b)
    if ra is not None and ra == rb:
        return True
    oa = {repr(o) for o in mir.provenance(g, du, a) if o.kind in ("call", "local", "arg")}
    ob = {repr(o) for o in mir.provenance(g, du, b) if o.kind in ("call", "local", "arg")}
    # flow-insensitive provenance through an inlined helper also collects the helper's other return values (error
    # aggregates, residuals): the compared value's origins must all be origins of the argument (or the other way round)
    return bool(oa) and bool(ob) and (oa <= ob or ob <= oa)


def _owner(F, p):
    f = F.fns.get(p) or F.built.get(p)
    while f is not None and f.get("owner"):
        p = f["owner"]
        f = F.fns.get(p) or F.built.get(p)
    return p


def _calls_of(F, caller, callee):
    """[(fn, bb, term)] call sites of callee in caller and its closures"""
    c = F.fns.get(caller) or F.built.get(caller)
    if c is None:
        return None
    out = []

    def want(t, cal):
        # helpers of the caller's crate a refactoring may have moved the guard into; never the guarded callee itself
        if cal["crate"] != c["crate"] or cal.get("impl_trait") or cal.get("trait_default") or cal["path"] == callee:
            return False
        return len(cal["blocks"]) <= 150
    _WANTS.append(want)   # keep alive: the inline cache is keyed by id(want)
    for g0 in with_closures(F, c):
        g = mir.inline_calls(F, g0, want=want, depth=3)
        dg = None
        for bi, t in mir.calls(g):
            if (t.get("resolved") or t.get("callee")) == callee or t.get("callee") == callee:
                out.append((g, bi, t))
            elif (t.get("callee") or "") in ("std::ops::Fn::call", "std::ops::FnMut::call_mut", "std::ops::FnOnce::call_once") and len(t["args"]) == 2:
                # the callee handed over as a function value (`helper(x, ops::slot_to_time)`) and called there
                dg = dg or mir.DefUse(g)
                po = mir.provenance(g, dg, t["args"][0])
                if po and all(o.kind == "const" and (o.const.get("fn_resolved") or o.const.get("fn")) == callee for o in po):
                    tup = [o for o in mir.provenance(g, dg, t["args"][1]) if o.kind == "agg" and "tuple" in o.rv]
                    if len(tup) == 1:
                        t2 = dict(t)
                        t2["args"] = list(tup[0].rv["ops"])
                        out.append((g, bi, t2))
    return out


def _root(g, du, op):
    """the local an operand is a plain copy of (through use / deref-free moves)"""
    pl = mir.op_place(op)
    seen = set()
    while pl is not None and not pl["p"] and pl["l"] not in seen:
        seen.add(pl["l"])
        defs = du.defs.get(pl["l"], [])
        if len(defs) != 1 or defs[0][0] == "call":
            return pl["l"]
        rv = defs[0][3]["rv"]
        if rv["k"] == "use":
            nxt = mir.op_place(rv["op"])
            if nxt is None or nxt["p"]:
                return pl["l"]
            pl = nxt
        else:
            return pl["l"]
    return pl["l"] if pl is not None else None


def check(F, prem):
    t = prem["t"]
    if t == "only_callers":
        fn = prem["fn"]
        allowed = set(prem["callers"])

        def callers_of(target):
            out = set()
            for p, f in list(F.fns.items()):
                for bi, tm in mir.calls(f):
                    refs = [tm.get("resolved"), tm.get("callee")] + list(tm.get("fnrefs") or [])
                    if target in refs:
                        out.add(_owner(F, p))
                for _bi, c in mir.fn_consts(f):
                    if c.get("fn_resolved") == target or c.get("fn") == target:
                        out.add(_owner(F, p))
            return out
        found = callers_of(fn)
        # an intermediate helper of the same crate that is itself only called from the allowed callers is transparent
        for _ in range(3):
            for x in sorted(found - allowed):
                g = F.fns.get(x)
                if g is None or g.get("impl_trait") or g["crate"] != (F.fns.get(fn) or {}).get("crate"):
                    continue
                up = callers_of(x)
                if up and x not in up:
                    found = (found - {x}) | up
        extra = found - allowed
        if extra and not any(a in F.fns or a in F.built for a in allowed):
            # none of the callers the row names exists any more (renamed along with the function): the row then rests on its
            # other premises, which are checked at *every* call of the function in its crate - provided nobody outside the
            # crate can call it
            g0 = F.fns.get(fn)
            if g0 is not None and (g0.get("vis") or "") != "Public" and found and all((F.fns.get(x) or {}).get("crate") == g0["crate"] for x in found):
                return True, "called from %s (the callers the row named are gone; the guard is checked at every call)" % sorted(x.split("::")[-1] for x in found)
        if extra:
            return False, "%s is now also called from %s" % (fn.split("::")[-1], sorted(x.split("::")[-1] for x in extra))
        if not found:
            return False, "%s has no caller any more" % fn.split("::")[-1]
        return True, "only called from %s" % sorted(x.split("::")[-1] for x in found)
    if t in ("call_guarded", "arg_cast_from", "dominated_by_const_key_inserts"):
        sites = _calls_of(F, prem["caller"], prem["callee"])
        if sites is None:
            # the caller the row names is gone (renamed): every function of the crate that calls the callee is checked
            cal = F.fns.get(prem["callee"])
            sites = []
            if cal is not None:
                for p2, g2 in sorted(F.fns.items()):
                    if g2["crate"] != cal["crate"] or g2.get("owner") or p2 == prem["callee"]:
                        continue
                    if any((tm2.get("resolved") or tm2.get("callee")) == prem["callee"] for b2 in with_closures(F, g2) for _, tm2 in mir.calls(b2)):
                        sites += _calls_of(F, p2, prem["callee"]) or []
            if not sites:
                return False, "caller %s not found" % prem["caller"]
        if not sites:
            return False, "%s no longer calls %s" % (prem["caller"].split("::")[-1], prem["callee"].split("::")[-1])
        for g, bi, tm in sites:
            du = mir.DefUse(g)
            cfg = mir.CFG(g)
            if t == "arg_cast_from":
                okk = False
                for o in mir.provenance(g, du, tm["args"][prem["arg"]]):
                    if o.kind == "local" or o.kind == "arg":
                        pass
                # direct: the argument's defining statement is a cast from the given type
                pl = mir.op_place(tm["args"][prem["arg"]])
                if pl is not None:
                    for d in du.defs.get(_root(g, du, tm["args"][prem["arg"]]), []):
                        if d[0] != "call" and d[3]["rv"]["k"] == "cast" and d[3]["rv"].get("from") == prem["from"]:
                            okk = True
                if not okk:
                    return False, "argument %d of %s in %s is no longer a cast from %s" % (prem["arg"], prem["callee"].split("::")[-1], prem["caller"].split("::")[-1], prem["from"])
                continue
            if t == "dominated_by_const_key_inserts":
                have = set()
                for bj, t2 in mir.calls(g):
                    if (t2.get("callee") or "").endswith("::insert") and cfg.dominates(bj, bi) and len(t2["args"]) >= 2:
                        for o in mir.provenance(g, du, t2["args"][1], transparent_extra=("std::string::ToString::to_string", "std::convert::From::from", "std::convert::Into::into", "std::borrow::ToOwned::to_owned", "alloc::str::<impl str>::to_owned", "std::string::String::from")):
                            if o.kind == "const":
                                sv = mir.promoted_str(F, o.const)
                                if sv is not None:
                                    have.add(sv)
                miss = set(prem["keys"]) - have
                if miss:
                    return False, "the call of %s in %s is no longer dominated by inserts of the keys %s" % (prem["callee"].split("::")[-1], prem["caller"].split("::")[-1], sorted(miss))
                continue
            # call_guarded
            want_edge = prem.get("edge", "true")
            guarded = False
            for sb, b in enumerate(g["blocks"]):
                tt = b["t"]
                if tt["k"] != "switch" or tt.get("dty") != "bool":
                    continue
                dpl = mir.op_place(tt["discr"])
                if dpl is None or dpl["p"]:
                    continue
                cmpdef = None
                for d in du.defs.get(dpl["l"], []):
                    if d[0] != "call" and d[3]["rv"]["k"] == "binop" and d[3]["rv"]["op"] == prem["cmp"]:
                        cmpdef = d[3]["rv"]
                if cmpdef is None:
                    continue
                c = mir.op_const(cmpdef["b"])
                if c is None or c.get("int") != prem["rhs_const"]:
                    continue
                lhs_ok = True
                if prem.get("lhs_cast_to"):
                    lhs_ok = False
                    lr = mir.op_place(cmpdef["a"])
                    if lr is not None:
                        for d in du.defs.get(lr["l"], []):
                            if d[0] != "call" and d[3]["rv"]["k"] == "cast" and d[3]["rv"].get("to") == prem["lhs_cast_to"]:
                                lhs_ok = True
                if lhs_ok and prem.get("lhs_is_arg") is not None:
                    lhs_ok = _same_value(g, du, cmpdef["a"], tm["args"][prem["lhs_is_arg"]])
                if not lhs_ok:
                    continue
                false_t = dict((v, tb) for v, tb in tt["targets"]).get(0)
                true_t = tt["otherwise"]
                tgt = true_t if want_edge == "true" else false_t
                if tgt is None:
                    continue
                preds = {pb for pb, blk in enumerate(g["blocks"]) if not blk["cleanup"] and tgt in mir.block_succs(blk)}
                single = preds == {sb}
                if single and (tgt == bi or cfg.dominates(tgt, bi)):
                    guarded = True
            if not guarded:
                return False, "the call of %s in %s is no longer on the %s edge of `%s%s %s %s`" % (
                    prem["callee"].split("::")[-1], prem["caller"].split("::")[-1], want_edge,
                    "x" if not prem.get("lhs_cast_to") else "(x as %s)" % prem["lhs_cast_to"], "", {"Gt": ">", "Lt": "<", "Ge": ">=", "Le": "<=", "Eq": "==", "Ne": "!="}.get(prem["cmp"], prem["cmp"]), prem["rhs_const"])
        return True, "holds at %d call site(s)" % len(sites)
    return False, "unknown premise type %s" % t


def check_all(F, prems):
    whys = []
    for p in prems or []:
        good, why = check(F, p)
        if not good:
            return False, why
        whys.append(why)
    return True, "; ".join(whys)
