"""C09 -- datums and redeemers are encoded as standard Plutus Data.

Static clauses:
  I-CONSTR the constructor tag is a three-piece function of the case index: in `constr` (and callees) the Constr aggregate is
           control-dependent on the index (branches on it), at least three distinct tag computations exist, and some path sets
           `any_constructor` to Some(..) (the general form, tag 102).  A single unconditional affine `121 + index` cannot realise
           the convention.
  SIB      the two Expression -> PlutusData converters (compile_data_expr for datums, TryIntoData for redeemers) accept the
           same Expression variants; likewise compile_struct / TryIntoData for StructExpr use the same constructor function
           ... and each of the two StructExpr converters hands `constructor` to constr() on every path on which it succeeds
           (no shortcut that encodes field-less values as alternative 0)
  ORDER    at lowering, record fields are pushed in declaration order (loop over case_def.fields) and the constructor index is
           the case's position in the type definition
  PANIC    no undischarged panic site in the data-encoding closure (integers beyond 64 bits must not panic)
  INT (bytes)  a bignum's payload is the big-endian magnitude minus its *leading* zero bytes: no filter / retain / dedup / rev over them
Not decided: the tag arithmetic and byte layout as values (a decoder-based comparison belongs to another family).
"""
import re

from .. import mir, roles, e3_trav as e3, discharge
from ..common import CallGraph, table, call_matches, is_derive, with_closures, is_trait_call
from ..engine import Result, ok, finding, assumption, where
from ..facts import BrokenCheck
from . import c12

META = {
    "level": "other",
    "explanation": (
        "Structural rules on the Plutus Data encoder: the shape of `constr` (branching on the index, number of distinct tag "
        "computations, presence of the general any_constructor form), equality of the accepted-variant sets of the two sibling "
        "converters (read from their match arms in MIR), provenance of constructor index and field order at lowering, and a panic "
        "inventory of the encoding closure. These are necessary conditions of the convention for every type definition and value."),
    "trusted_base": ["rustc MIR, driver", "pallas' CBOR encoding of PlutusData (Constr tag / any_constructor fields)"],
    "not_decided": ["the byte layout pallas emits for a PlutusData value (trusted encoder)", "BigInt encoding of integers beyond 64 bits beyond the sign adjustment rule and 'does not panic'"],
}

EXPR = "tx3_tir::model::v1beta0::Expression"
P = "tx3_cardano::compile::plutus_data::"


TAG_SPEC = [
    # (lo, hi, tag as a*x + b, any_constructor) - the Plutus Data convention as the property states it
    (0, 6, (1, 121), None),
    (7, 127, (1, 1273), None),       # 1280 + (x - 7)
    (128, None, (0, 102), (1, 0)),   # general form: tag 102 with the explicit index
]
VALID_CONST_TAGS = set(range(121, 128)) | set(range(1280, 1401))
INT_TYPES = {"u8": (0, 2 ** 8 - 1), "u16": (0, 2 ** 16 - 1), "u32": (0, 2 ** 32 - 1), "u64": (0, 2 ** 64 - 1), "usize": (0, 2 ** 64 - 1),
             "i32": (-2 ** 31, 2 ** 31 - 1), "i64": (-2 ** 63, 2 ** 63 - 1), "i128": (-2 ** 127, 2 ** 127 - 1), "u128": (0, 2 ** 128 - 1)}


def i_constr(F, res):
    """Every place in tx3-cardano that builds a Plutus `Constr` value: a literal tag must be one of the convention's compact
    tags with no explicit index; a computed tag must come from a function of the constructor index whose piecewise-affine
    summary (interval partition x affine forms, rules/piecewise.py) equals the convention on the whole domain of the index:
    0-6 -> 121+i, 7-127 -> 1280+(i-7), above -> tag 102 with the index spelled out."""
    from .. import piecewise as pw
    n = 0
    found_fn = False
    for f in F.fns.values():
        if f["crate"] != "tx3_cardano" or is_derive(f):
            continue
        aggs = [(bi, s) for bi, si, s in mir.stmts(f) if s["rv"]["k"] == "agg" and s["rv"].get("adt", "").endswith("::Constr") and s["rv"].get("variant") == "Constr"
                and "tag" in (s["rv"].get("fields") or [])]
        if not aggs:
            continue
        du = mir.DefUse(f)
        for bi, s in aggs:
            n += 1
            rv = s["rv"]
            tag_op = rv["ops"][rv["fields"].index("tag")]
            c = mir.op_const(tag_op)
            torg = mir.provenance(f, du, tag_op)
            w = where(f, s["line"])
            if c is not None or (torg and all(o.kind == "const" for o in torg)):
                vals = {c["int"]} if c is not None else {o.const.get("int") for o in torg}
                key = "%s|literal tag" % f["path"]
                anyop = rv["ops"][rv["fields"].index("any_constructor")]
                anyo = mir.provenance(f, du, anyop)
                is_none = all(o.kind == "agg" and o.rv.get("variant") == "None" for o in anyo) if anyo else False
                if vals <= VALID_CONST_TAGS and is_none:
                    res.add([ok("I-CONSTR", key, w, "literal tag %s is a compact constructor tag, no explicit index" % sorted(vals))])
                elif vals == {102} and not is_none:
                    res.add([ok("I-CONSTR", key, w, "general form with an explicit index")])
                else:
                    res.add([finding("I-CONSTR", key, w, "Constr built with literal tag %s, which is not a tag of the Plutus Data convention (121-127, 1280-1400, or 102 with an explicit index)" % sorted(vals))])
                continue
            # computed tag: the enclosing function must be a function of one integer parameter
            ints = [i for i in range(1, f["argc"] + 1) if f["locals"][i] in INT_TYPES]
            key = "%s|tag as a function of the constructor index" % f["path"]
            if len(ints) != 1:
                res.add([assumption("I-CONSTR", key, w, "tag computed in a function without a single integer parameter: mapping not decided")])
                continue
            found_fn = True
            x = ints[0]
            lo_dom, hi_dom = INT_TYPES[f["locals"][x]]
            try:
                # the mapping may sit in a small helper (`let (tag, any) = constr_tag(index);`): summarise with helpers inlined
                def want_c(t_, callee):
                    return callee["crate"] == "tx3_cardano" and not callee.get("impl_trait") and not callee.get("trait_default") and len(callee["blocks"]) <= 60
                _KEEP_B.append(want_c)
                fi = mir.inline_calls(F, f, want=want_c, depth=2)
                table = pw.summarize(fi if fi.get("inlined") else f, x, lo_dom, hi_dom)
            except pw.NotInFragment as e:
                res.add([assumption("I-CONSTR", key, w, "tag mapping outside the piecewise-affine fragment (%s): not decided" % e)])
                continue
            problems = []
            pieces = 0
            for ivs, ret in table:
                # dig the Constr aggregate out of the returned value
                cv = _find_constr(ret)
                for lo, hi in ivs:
                    if hi < 0:
                        continue
                    lo = max(lo, 0)
                    for slo, shi, stag, sany in TAG_SPEC:
                        shi = hi_dom if shi is None else shi
                        a, b2 = max(lo, slo), min(hi, shi)
                        if a > b2:
                            continue
                        pieces += 1
                        if cv is None:
                            problems.append("for index %d..%d no Constr value is returned" % (a, b2))
                            continue
                        tagv = cv[3].get("tag", pw.UNKNOWN)
                        anyv = cv[3].get("any_constructor", pw.UNKNOWN)
                        if not pw.same_on(tagv, pw.aff(*stag), a, b2):
                            problems.append("index %d..%d: tag is %s, the convention says %s" % (a, b2, pw.show(tagv), pw.show(pw.aff(*stag))))
                        want_any = ("none",) if sany is None else ("some", pw.aff(*sany))
                        if not pw.same_on(anyv, want_any, a, b2):
                            problems.append("index %d..%d: any_constructor is %s, the convention says %s" % (a, b2, pw.show(anyv), pw.show(want_any)))
            if problems:
                res.add([finding("I-CONSTR", key, w, "constructor tag is not the standard Plutus Data mapping: " + "; ".join(problems[:3]))])
            else:
                res.add([ok("I-CONSTR", key, w, "piecewise-affine summary over %s equals the convention on %d pieces: 0-6 -> x+121, 7-127 -> x+1273, >=128 -> 102 / Some(x)" % (f["locals"][x], pieces))])
    res.count("Constr constructions", n)
    res.floor("Constr constructions", n, 1)
    if not found_fn:
        res.add([finding("I-CONSTR", "tx3_cardano|constructor function", "crates/tx3-cardano/src/compile/plutus_data.rs", "no function computes the constructor tag from the case index: alternatives above 6 cannot be encoded")])


def _find_constr(v):
    if not isinstance(v, tuple):
        return None
    if v[0] == "agg":
        if v[1].endswith("::Constr") and "tag" in v[3]:
            return v
        for x in v[3].values():
            r = _find_constr(x)
            if r is not None:
                return r
    if v[0] in ("tuple",):
        for x in v[1]:
            r = _find_constr(x)
            if r is not None:
                return r
    if v[0] == "some":
        return _find_constr(v[1])
    return None


def handled_variants(F, f, self_local=1):
    """Expression variants with a non-error arm in a `match self` over Expression"""
    arms = e3.variant_arms(f, self_local)
    if not arms or arms[0] != EXPR:
        return None
    _, tmap, other = arms
    adt = F.adt(EXPR)
    out = set()
    for v in adt["variants"]:
        tb = tmap.get(v["discr"])
        if tb is not None and tb != other:
            out.add(v["name"])
    return out


def _converter(F, ty):
    """the free function of tx3_cardano turning a `&ty` into PlutusData (historically compile_data_expr / compile_struct)"""
    c = roles.by_signature(F, "tx3_cardano", ["&" + ty], "PlutusData")
    if len(c) != 1:
        raise BrokenCheck("expected one free function &%s -> PlutusData in tx3_cardano, found %r" % (ty, c))
    return c[0]


def sib(F, res):
    a = F.fns[_converter(F, EXPR)]
    b = F.fn("<%s as %sTryIntoData>::try_as_data" % (EXPR, P))
    ha, hb = handled_variants(F, a), handled_variants(F, b)
    if ha is None or hb is None:
        raise BrokenCheck("the Expression converters no longer match on the expression")
    key = "compile_data_expr ~ TryIntoData for Expression"
    if ha == hb:
        res.add([ok("SIB", key, where(a), "both accept %s" % sorted(ha))])
    else:
        res.add([finding("SIB", key, where(a), "datums (compile_data_expr) accept %s but redeemers (TryIntoData) accept %s: %s is encodable in one position and rejected in the other" % (
            sorted(ha), sorted(hb), sorted(ha ^ hb)))])
    c = F.fns[_converter(F, "tx3_tir::model::v1beta0::StructExpr")]
    d = F.fn("<tx3_tir::model::v1beta0::StructExpr as %sTryIntoData>::try_as_data" % P)
    uc = any(call_matches(t, P + "constr") for _, t in mir.calls(c))
    ud = any(call_matches(t, P + "constr") for _, t in mir.calls(d))
    # ... and on every path on which they succeed: the declared constructor index reaches constr() - no success return that
    # bypasses it (a shortcut for field-less values that forgets the index encodes every such case as alternative 0)
    from ..common import with_helpers
    for g0 in (c, d):
        g = with_helpers(F, g0["path"])
        gdu = mir.DefUse(g)
        gcfg = mir.CFG(g)
        stops = set()
        for bi, t in mir.calls(g):
            if call_matches(t, P + "constr") and t["args"]:
                if any(o.kind == "arg" and ".constructor" in o.proj for o in mir.provenance(g, gdu, t["args"][0], transparent_extra=("std::convert::From::from", "std::convert::Into::into", "std::clone::Clone::clone"))):
                    stops.add(bi)
        keyp = "%s|every success passes constr(self.constructor, ..)" % g0["path"]
        if not stops:
            res.add([finding("SIB", keyp, where(g0), "no call of constr() receives the struct's `constructor` index")])
            continue
        oks = set()
        for o in mir.provenance(g, gdu, {"l": 0, "p": []}):
            if o.kind == "agg" and o.rv.get("variant") == "Ok":
                for bi, si, st in mir.stmts(g):
                    if st["rv"] is o.rv:
                        oks.add(bi)
        seen, stk = set(), [0]
        while stk:
            b_ = stk.pop()
            if b_ in seen or b_ in stops or g["blocks"][b_]["cleanup"]:
                continue
            seen.add(b_)
            stk.extend(gcfg.succ[b_])
        # Ok(..) built by the constr call's continuation is fine; an Ok(..) reachable without passing a constr call is not
        bypass = sorted(oks & seen)
        if bypass:
            ln = g["blocks"][bypass[0]]["s"][0]["line"] if g["blocks"][bypass[0]]["s"] else None
            res.add([finding("SIB", keyp, where(g0, ln), "%s can succeed without handing the struct's constructor index to constr(): such values are encoded with another alternative than the one the template names" % g0["path"].split("::")[-1])])
        else:
            res.add([ok("SIB", keyp, where(g0), "every Ok(..) is behind constr(ir.constructor, ..)")])
    key2 = "compile_struct ~ TryIntoData for StructExpr"
    if uc and ud:
        res.add([ok("SIB", key2, where(c), "both build the constructor through plutus_data::constr")])
    else:
        res.add([finding("SIB", key2, where(c), "struct encoders do not share the constructor function")])


def order(F, res):
    f = F.fn("<tx3_lang::ast::StructConstructor as tx3_lang::lowering::IntoLower>::into_lower")
    # helper methods the lowering may have been split into (`lower_case_fields`, ..) are inlined
    f = mir.inline_calls(F, f, want=e3._helper_policy("tx3_lang"), depth=2)
    du = mir.DefUse(f)
    cfg = mir.CFG(f)
    w = where(f)
    aggs = [(bi, s) for bi, si, s in mir.stmts(f) if s["rv"]["k"] == "agg" and s["rv"].get("adt") == "tx3_tir::model::v1beta0::StructExpr"]
    if not aggs:
        raise BrokenCheck("StructConstructor::into_lower no longer builds a StructExpr")
    key = f["path"] + "|constructor = case position"
    good = False
    other = []
    for bi, s in aggs:
        rv = s["rv"]
        o = mir.provenance(f, du, rv["ops"][rv["fields"].index("constructor")], transparent_extra=("std::option::Option::<T>::ok_or", "std::option::Option::<T>::ok_or_else"))
        # the index comes from a `position()` search: either directly (helper inlined) or through a workspace helper
        # (historically TypeDef::find_case_index) whose own body is that search
        for x in o:
            if x.kind != "call":
                # a constant (or anything else) next to the search: some cases get an index that is not their position
                # (`if case.name == "Default" { 0 } else { find_case_index(..) }`)
                if x.kind == "const" and "int" in (x.const or {}):
                    other.append("the constant %s" % x.const["int"])
                elif x.kind not in ("agg",):
                    other.append(repr(x)[:40])
                continue
            if x.callee.endswith("Iterator::position") or x.callee.endswith("::position"):
                good = True
            elif x.callee in F.fns and F.fns[x.callee]["crate"] == "tx3_lang":
                if any((t.get("callee") or "").endswith("Iterator::position") or (t.get("resolved") or "").endswith("::position") for b in with_closures(F, F.fns[x.callee]) for _, t in mir.calls(b)):
                    good = True
                else:
                    other.append("`%s`" % x.callee.split("::")[-1])
    if good and other:
        res.add([finding("ORDER", key, w, "the constructor index is the position of the case in the type definition on some paths only; on others it is %s: a case at another position is encoded under a wrong constructor tag" % ", ".join(sorted(set(other))))])
    elif good:
        res.add([ok("ORDER", key, w, "constructor = type_def.find_case_index(case) = position in cases")])
    else:
        res.add([finding("ORDER", key, w, "the constructor index is not the position of the case in the type definition")])
    # fields pushed inside the loop over case_def.fields
    key2 = f["path"] + "|fields in declaration order"
    loops = cfg.loops()
    pushes = [bi for bi, t in mir.calls(f) if (t.get("callee") or "").endswith("Vec::<T, A>::push")]
    iter_src_ok = False
    for bi, t in mir.calls(f):
        c = t.get("callee") or ""
        if c.endswith("::iter") or c == "std::iter::IntoIterator::into_iter":
            o = mir.provenance(f, du, t["args"][0], transparent_extra=("core::slice::<impl [T]>::iter", "std::iter::Iterator::enumerate"))
            if any(".fields" in x.proj for x in o if x.kind in ("call", "arg", "local")) or any(x.kind == "call" and x.callee.endswith("expect_case_def") for x in o):
                iter_src_ok = True
    in_loop = pushes and all(any(p in body for body in loops.values()) for p in pushes)
    sorts = any(discharge_sort(t) for _, t in mir.calls(f))
    # every push into the field list happens in a loop that walks the *declaration's* fields (element type RecordField of the
    # case definition), not the constructor's own field list (RecordConstructorField: the order the fields were written in)
    wrong_driver = None
    for pb in pushes:
        t_push = f["blocks"][pb]["t"]
        tgt = " ".join(t_push.get("gargs") or [])
        if "v1beta0::Expression" not in tgt:
            continue
        inner = None
        for h, body in loops.items():
            if pb in body and (inner is None or len(body) < len(inner[1])):
                inner = (h, body)
        if inner is None:
            continue
        drivers = [f["blocks"][b]["t"] for b in inner[1] if f["blocks"][b]["t"]["k"] == "call" and f["blocks"][b]["t"].get("method") == "next"
                   and f["blocks"][b]["t"].get("trait") == "std::iter::Iterator"]
        tys = " ".join(" ".join(d.get("gargs") or []) for d in drivers)
        if "RecordConstructorField" in tys or ("ast::RecordField" not in tys and "VariantCase" not in tys):
            wrong_driver = (t_push["line"], tys[:120])
    if in_loop and iter_src_ok and not sorts and wrong_driver:
        res.add([finding("ORDER", key2, where(f, wrong_driver[0]), "record fields are pushed while walking %s instead of the case definition's fields: they come out in the order they were written, not in declaration order" % (wrong_driver[1] or "another collection"))])
    elif in_loop and iter_src_ok and not sorts:
        res.add([ok("ORDER", key2, w, "fields.push(..) inside `for (index, field_def) in case_def.fields.iter().enumerate()`; no reordering")])
    else:
        # the same written as a chain: `case_def.fields.iter().enumerate().map(..).collect()` - order-preserving adaptors only
        # between the declaration's fields and the collected list of expressions
        ORDER_KEEPING = ("core::slice::<impl [T]>::iter", "std::iter::Iterator::enumerate", "std::iter::Iterator::map", "std::iter::IntoIterator::into_iter",
                         "std::iter::Iterator::zip", "std::iter::Iterator::cloned", "std::iter::Iterator::copied", "std::ops::Deref::deref")
        chain_ok = False
        for bi, t in mir.calls(f):
            if (t.get("callee") or "") != "std::iter::Iterator::collect" or "v1beta0::Expression" not in " ".join(t.get("gargs") or []) + f["locals"][t["dest"]["l"]]:
                continue
            o = mir.provenance(f, du, t["args"][0], transparent_extra=ORDER_KEEPING)
            if o and all((x.kind in ("arg", "local", "call")) for x in o) and any(".fields" in x.proj or (x.kind == "call" and x.callee.endswith("case_def")) for x in o) \
                    and not any(x.kind == "call" and x.callee.startswith("std::iter::Iterator::") for x in o):
                chain_ok = True
        if chain_ok and not sorts and not pushes:
            res.add([ok("ORDER", key2, w, "case_def.fields.iter()..map(..).collect(): order-preserving adaptors only; no reordering")])
        elif pushes or sorts:
            res.add([finding("ORDER", key2, w, "record fields are not emitted in the declaration order of the case")])
        else:
            res.add([assumption("ORDER", key2, w, "the field list is built in a shape this rule does not follow (neither a push loop nor an order-preserving chain over the declaration's fields): not decided")])


def discharge_sort(t):
    c = t.get("callee") or ""
    return c.split("::")[-1].startswith(("sort", "reverse", "swap"))


REORDER = re.compile(r"::(sort|sort_by|sort_by_key|sort_unstable|sort_unstable_by|sort_unstable_by_key|sort_by_cached_key|dedup|dedup_by|dedup_by_key|reverse|rev|retain|swap|swap_remove|rotate_left|rotate_right)$")
KEYED = re.compile(r"std::collections::(BTreeMap|BTreeSet|HashMap|HashSet)<")


def noreorder(F, res, reach):
    """Plutus Data lists, maps and constructor fields are emitted in the order of the template: inside the data-encoding closure
    nothing may sort, de-duplicate, reverse or pass the items through a keyed container (a BTreeMap sorts map entries and
    collapses repeated keys)."""
    bad = []
    n = 0
    for p in sorted(reach):
        f = F.fns.get(p)
        if f is None or f["crate"] != "tx3_cardano" or f.get("derived"):
            continue
        n += 1
        for bi, t in mir.calls(f):
            c = t.get("callee") or ""
            g = " ".join(t.get("gargs") or []) + " " + (t.get("resolved") or "")
            if REORDER.search(c) and ("slice" in c or "Vec" in c or "Iterator" in c):
                bad.append((f, t["line"], c.split("::")[-1]))
            elif c.split("::")[-1] in ("collect", "from_iter", "extend") and KEYED.search(g):
                bad.append((f, t["line"], "%s into %s" % (c.split("::")[-1], KEYED.search(g).group(1))))
    key = "data-encoding closure|items keep the order of the template"
    if bad:
        f, line, what = bad[0]
        res.add([finding("ORDER", key + "|" + f["path"].split("::")[-2] + "::" + f["path"].split("::")[-1], where(f, line), "`%s` in the data encoder: entries are reordered and/or repeated keys collapsed on the way into the Plutus Data value" % what)])
    else:
        res.add([ok("ORDER", key, "crates/tx3-cardano/src/compile/plutus_data.rs", "no sort / dedup / reverse / keyed container among %d encoder functions" % n)])


def bignum(F, res):
    """CBOR bignums: tag 2 carries n, tag 3 carries -1 - n.  The payload of BigNInt must therefore go through an adjustment
    (`!x`, `x + 1`, `m - 1`) that the payload of BigUInt does not; if no such operation feeds it, every negative bignum is
    off by one."""
    f = F.fns.get("<i128 as %sIntoData>::as_data" % P)
    if f is None:
        raise BrokenCheck("<i128 as IntoData>::as_data not found")
    from .. import e9_attrib as e9
    du = mir.DefUse(f)
    neg = []
    for bi, si, s in mir.stmts(f):
        rv = s["rv"]
        if rv["k"] == "agg" and rv.get("variant") == "BigNInt":
            neg.append(s)
    key = f["path"] + "|negative bignum payload is -1 - n"
    if not neg:
        res.add([ok("INT", key, where(f), "no BigNInt construction (negative values take another path)")])
        return
    for s in neg:
        ops = set()
        e9.deep_sources(F, f, du, s["rv"]["ops"][0], self_local=1, ops_out=ops)
        adj = {o for o in ops if o in (("unop", "Not"), ("binop", "Sub"), ("binop", "Add"), ("unop", "Neg"))}
        if adj & {("unop", "Not"), ("binop", "Sub"), ("binop", "Add")}:
            res.add([ok("INT", key, where(f, s["line"]), "the BigNInt payload passes through %s" % ", ".join(sorted(x[1] for x in adj)))])
        else:
            res.add([finding("INT", key, where(f, s["line"]), "the payload of BigNInt is the plain magnitude (no `!x` / `- 1` / `+ 1` on the way): CBOR tag 3 encodes -1 - n, so every integer below -2^64 is emitted one too low")])


def bignum_bytes(F, res):
    """The payload of a bignum is the magnitude's big-endian bytes with the *leading* zero bytes removed - nothing else.  On the
    way from `to_be_bytes()` to the `BoundedBytes` (helpers inlined, closures included) no adaptor may drop, reorder or
    de-duplicate bytes by their value or position in general (`filter`, `filter_map`, `retain`, `dedup`, `rev`, `step_by`,
    `take`, `sort`); trimming the front (`skip_while`, a slice from the first non-zero `position`, `leading_zeros`) is the one
    accepted form.  `filter(|b| *b != 0)` removes interior zero bytes as well: 2^64 is emitted as the one byte 0x01."""
    f0 = F.fns.get("<i128 as %sIntoData>::as_data" % P)
    if f0 is None:
        raise BrokenCheck("<i128 as IntoData>::as_data not found")

    def want(t, callee):
        return callee["crate"] == "tx3_cardano" and not callee.get("impl_trait") and not callee.get("trait_default") and len(callee["blocks"]) <= 80
    _KEEP_B.append(want)
    f = mir.inline_calls(F, f0, want=want, depth=2)
    BAD = ("filter", "filter_map", "retain", "dedup", "dedup_by", "dedup_by_key", "rev", "step_by", "take", "sort", "sort_unstable", "reverse", "truncate", "pop", "remove", "swap_remove")
    PASS = ("std::iter::IntoIterator::into_iter", "core::slice::<impl [T]>::iter", "std::iter::Iterator::copied", "std::iter::Iterator::cloned", "std::ops::Deref::deref",
            "std::ops::DerefMut::deref_mut", "core::array::<impl std::iter::IntoIterator for [T; N]>::into_iter", "std::iter::Iterator::skip_while", "std::iter::Iterator::collect",
            "std::slice::<impl [T]>::to_vec", "core::slice::<impl [T]>::to_vec", "std::iter::Iterator::map", "std::ops::Index::index")
    key = f0["path"] + "|bignum payload = big-endian magnitude minus leading zero bytes"
    hits = []
    n = 0
    from ..common import with_closures
    for b in with_closures(F, f):
        du = mir.DefUse(b)
        for bi, t in mir.calls(b):
            c = t.get("callee") or ""
            last = c.split("::")[-1]
            if c.endswith("::to_be_bytes") or c.endswith("::to_le_bytes"):
                n += 1
            if last in BAD and t["args"] and (c.startswith("std::") or c.startswith("core::") or c.startswith("alloc::")):
                if any(o.kind == "call" and ((o.callee or "").endswith("::to_be_bytes") or (o.callee or "").endswith("::to_le_bytes")) for o in mir.provenance(b, du, t["args"][0], transparent_extra=PASS)):
                    hits.append((b, t["line"], last))
    if hits:
        b, line, last = hits[0]
        res.add([finding("INT", key, where(b, line), "the magnitude's bytes go through `%s` on their way into the bignum: bytes are dropped / reordered by value or position, not only the leading zero padding - an integer beyond 64 bits whose big-endian form has a zero byte (2^64, 10^20) is emitted as another number" % last)])
    elif n:
        res.add([ok("INT", key, where(f0), "no value- or position-based dropping / reordering adaptor between to_be_bytes() and the payload")])
    else:
        res.add([assumption("INT", key, where(f0), "no to_be_bytes() call found in the integer encoder (helpers inlined): how the magnitude becomes bytes is not decided")])


_KEEP_B = []


def run(ctx):
    F = ctx.F
    res = Result("C09")
    res.rule("I-CONSTR", "constructor tag is a piecewise function of the index with the general form present")
    res.rule("SIB", "datum and redeemer converters accept the same expression variants and share the constructor function")
    res.rule("ORDER", "constructor index = case position; fields in declaration order")
    res.rule("PANIC", "no undischarged panic site in the data-encoding closure")
    res.rule("INT", "no lossy integer cast in the data-encoding closure")
    i_constr(F, res)
    sib(F, res)
    order(F, res)
    cg = CallGraph(F, callbacks=False)
    roots = [_converter(F, EXPR), _converter(F, "tx3_tir::model::v1beta0::StructExpr"),
             "<%s as %sTryIntoData>::try_as_data" % (EXPR, P)]
    rows = table("e1_rows").get("C09", [])
    reach, _ = c12.panic_obligations(F, res, roots, rows, cg=cg)
    res.floor("functions in closure", res.analysed.get("functions in closure", 0), 10)
    # integers are encoded exactly: no lossy integer cast inside the data-encoding closure (an `as` between widths or
    # signedness maps e.g. 2^63 ..= 2^64-1 to negative numbers)
    noreorder(F, res, reach)
    bignum(F, res)
    bignum_bytes(F, res)
    from . import c02
    r2 = Result("C09")
    c02.casts(F, r2, {p for p in reach if p in F.fns and F.fns[p]["crate"] == "tx3_cardano"})
    n = 0
    for o in r2.obs:
        n += 1
        o.rule = "INT"
        res.add([o])
    if not n:
        res.add([ok("INT", "data-encoding closure|no lossy integer cast", "crates/tx3-cardano/src/compile/plutus_data.rs", "no IntToInt cast whose target range does not contain its source range among %d functions" % len(reach))])
    return res
