"""C02 -- quantities are never silently wrapped, truncated or dropped.

Static clauses (necessary conditions; value equality itself is not decided):
  CAST   every integer-to-integer `as` cast on the quantity path whose target type cannot represent every value of its source
         type is discharged (position/index of an in-memory collection, reviewed row) or reported
  ARITH  every integer add/sub/mul/neg on the quantity path is checked arithmetic or is discharged structurally (the same
         discharges as C14: bounded counter, sizes, widened operands, guarded subtraction); debug builds panic there, release
         builds wrap
  CLAMP  no saturating_*/wrapping_*/clamp call on the quantity path (tabled: the float ranking of the vector selector)
  DROP   the `None` of a checked operation (SafeAdd::try_add) must not flow into a removal: overflow turned into a silent drop
  OPTIONAL the filter on the outputs drops only optional outputs that carry nothing (truth table of the predicate, E17): every
         dropping row has the flag set, every tested quantity zero, every tested container empty, and looked at all value atoms
  SUBID  `a - b` never returns its subtrahend unchanged (Arithmetic::sub for Expression: no identity flow from `other`)
"""
import re

from .. import mir, e1_panic as e1, discharge
from ..common import CallGraph, table, is_derive, site_in_derive, is_trait_call, with_closures
from ..engine import Result, ok, finding, assumption, where
from ..facts import BrokenCheck

META = {
    "level": "other",
    "explanation": (
        "Inventory, over the call-graph closure of compile / reduce_op / reduce / resolve_tx / lowering / from_json, of every "
        "lossy integer cast (source and target types read from MIR; lossy iff the target type's range does not contain the "
        "source type's) and of every overflow-checked arithmetic site, each discharged structurally or reported; plus two "
        "flow rules (a checked operation's None must not reach a removal; subtraction must not return its subtrahend "
        "unchanged). Tests only push values through these sites for which the cast is the identity."),
    "trusted_base": ["rustc MIR (casts carry both types; overflow checks are explicit Assert terminators)", "driver", "tables/e4_rows.json"],
    "not_decided": ["that emitted values equal the big-integer evaluation of their source expressions", "the ledger balance equation"],
}

ROOTS = [
    "tx3_resolver::resolve_tx", "tx3_resolver::inputs::resolve",
    "<tx3_cardano::Compiler as tx3_tir::compile::Compiler>::compile", "<tx3_cardano::Compiler as tx3_tir::compile::Compiler>::reduce_op",
    "<tx3_tir::encoding::AnyTir as tx3_tir::reduce::Apply>::reduce", "<tx3_tir::encoding::AnyTir as tx3_tir::reduce::Apply>::apply_args",
    "<tx3_tir::encoding::AnyTir as tx3_tir::reduce::Apply>::apply_fees", "<tx3_tir::encoding::AnyTir as tx3_tir::reduce::Apply>::apply_inputs",
    "tx3_lang::lowering::lower", "tx3_resolver::interop::from_json",
]

BITS = {"u8": (8, 0), "i8": (8, 1), "u16": (16, 0), "i16": (16, 1), "u32": (32, 0), "i32": (32, 1), "u64": (64, 0), "i64": (64, 1),
        "usize": (64, 0), "isize": (64, 1), "u128": (128, 0), "i128": (128, 1)}


def rng(t):
    w, s = BITS[t]
    return (-(1 << (w - 1)), (1 << (w - 1)) - 1) if s else (0, (1 << w) - 1)


def lossy(a, b):
    if a not in BITS or b not in BITS:
        return False
    la, ha = rng(a)
    lb, hb = rng(b)
    return la < lb or ha > hb


def _cast_keys(F, reach):
    keys = set()
    seen = {}
    for p in sorted(reach):
        f = F.built.get(p, F.fns[p])
        if is_derive(f):
            continue
        for bi, si, s in mir.stmts(f):
            rv = s["rv"]
            if rv["k"] != "cast" or rv["ck"] != "IntToInt" or site_in_derive(s["exp"]) or not lossy(rv["from"], rv["to"]):
                continue
            base = "%s|cast|%s->%s" % (p, rv["from"], rv["to"])
            k = seen.get(base, 0) + 1
            seen[base] = k
            keys.add(base if k == 1 else "%s|#%d" % (base, k))
    return keys


def casts(F, res, reach):
    rows = {r["key"]: r["reason"] for r in table("e4_rows")["casts"]}
    # a reviewed row whose own site no longer exists (the function was renamed / inlined into its caller) still speaks for a
    # cast of the same types in the same crate
    present = _cast_keys(F, reach)
    moved = {}
    for k, reason in rows.items():
        if k not in present:
            m = re.search(r"\btx3[a-z_]*", k)
            moved.setdefault((m.group(0) if m else "", k.split("|", 1)[1].split("|#")[0]), reason)
    n = 0
    seen = {}
    for p in sorted(reach):
        f = F.built.get(p, F.fns[p])
        if is_derive(f):
            continue
        du = None
        for bi, si, s in mir.stmts(f):
            rv = s["rv"]
            if rv["k"] != "cast" or rv["ck"] != "IntToInt" or site_in_derive(s["exp"]):
                continue
            if not lossy(rv["from"], rv["to"]):
                continue
            n += 1
            base = "%s|cast|%s->%s" % (p, rv["from"], rv["to"])
            k = seen.get(base, 0) + 1
            seen[base] = k
            key = base if k == 1 else "%s|#%d" % (base, k)
            w = where(f, s["line"])
            du = du or mir.DefUse(f)
            by = None
            c = mir.op_const(rv["op"])
            if c is not None and "int" in c:
                lo, hi = rng(rv["to"])
                if lo <= c["int"] <= hi:
                    by = "literal %d fits" % c["int"]
            if by is None and rv["from"] == "usize":
                orig = mir.provenance(f, du, rv["op"], transparent_extra=_INDEX_PASS)
                if orig and all(o.kind == "call" and (o.callee.endswith("::position") or o.callee.endswith("Iterator::position") or "enumerate" in o.callee
                                                       or o.callee.endswith("::len")) or (o.kind == "arg" and f["def_kind"] == "Closure") for o in orig):
                    if any(o.kind == "call" for o in orig) or _closure_arg_is_index(F, f, du, rv["op"]):
                        by = "D-INDEX: position / length of an in-memory collection (bounded by memory, far below the target type's range)"
            if by is None and rv["from"] == "usize":
                # the index comes out of a helper of the crate (`fn sorted_position(..) -> Option<usize>`): look through it
                from . import c12
                fi = c12._inlined_for_discharge(F, f)
                if fi is not None and fi.get("inlined"):
                    orig = mir.provenance(fi, mir.DefUse(fi), rv["op"], transparent_extra=_INDEX_PASS)
                    if orig and all(o.kind == "call" and (o.callee.endswith("::position") or o.callee.endswith("Iterator::position") or "enumerate" in o.callee
                                                          or o.callee.endswith("::len")) for o in orig):
                        by = "D-INDEX: position / length of an in-memory collection, computed in an inlined helper"
            if by is None and rv["from"] == "usize" and f["def_kind"] != "Closure":
                # the index is a parameter of a small helper (`fn found_index_or(found: Option<usize>, ..) -> Result<u32, _>`): judged
                # in every caller, with the crate's helpers (this one among them) inlined two levels deep
                orig0 = mir.provenance(f, du, rv["op"], transparent_extra=_INDEX_PASS)
                if orig0 and all(o.kind == "arg" for o in orig0):
                    from ..common import callers_index
                    callers = [(g, ct) for g, ct in callers_index(F).get(p, []) if g["crate"].startswith("tx3") and not is_derive(g)]
                    good_all = bool(callers)

                    def want_h(t_, callee, crate=f["crate"]):
                        return callee["crate"] == crate and not callee.get("impl_trait") and not callee.get("trait_default") and len(callee["blocks"]) <= 80
                    _KEEP_C.append(want_h)
                    for g, ct in callers:
                        hi = mir.inline_calls(F, g, want=want_h, depth=2)
                        dh = mir.DefUse(hi)
                        found_here = False
                        for bj, sj, s2 in mir.stmts(hi):
                            r2 = s2["rv"]
                            if hi["blocks"][bj].get("inl") == p and r2["k"] == "cast" and r2.get("ck") == "IntToInt" and r2.get("from") == rv["from"] and r2.get("to") == rv["to"]:
                                found_here = True
                                o2 = mir.provenance(hi, dh, r2["op"], transparent_extra=_INDEX_PASS)
                                if not (o2 and all(o.kind == "call" and (o.callee.endswith("::position") or o.callee.endswith("Iterator::position") or "enumerate" in o.callee
                                                                         or o.callee.endswith("::len")) for o in o2)):
                                    good_all = False
                        if not found_here:
                            good_all = False
                    if good_all:
                        by = "D-INDEX: position / length of an in-memory collection at every call of this helper (%d caller(s), helpers inlined)" % len(callers)
            if by is None and key in rows:
                by = "D-TABLE: " + rows[key]
            if by is None:
                m = re.search(r"\btx3[a-z_]*", p)
                mv = moved.get((m.group(0) if m else "", "cast|%s->%s" % (rv["from"], rv["to"])))
                if mv:
                    by = "D-TABLE (row of a site that moved here): " + mv
            if by:
                res.add([ok("CAST", key, w, by)])
            else:
                res.add([finding("CAST", key, w, "`as %s` on a %s: values outside the %s range are silently wrapped/truncated" % (rv["to"], rv["from"], rv["to"]))])
    res.count("lossy casts", n)


_KEEP_C = []
# a found position on its way to the cast: unwrapped, or turned into an error when absent
_INDEX_PASS = ("std::option::Option::<T>::unwrap", "std::option::Option::<T>::expect", "std::option::Option::<T>::ok_or", "std::option::Option::<T>::ok_or_else",
               "std::ops::Try::branch", "std::result::Result::<T, E>::unwrap", "std::result::Result::<T, E>::expect")


def _closure_arg_is_index(F, f, du, op):
    """`.position(..).map(|i| i as u32)` style closures: the cast operand is the closure's own parameter and the closure is
    handed to an Option/iterator adaptor whose receiver is a position / length / enumerate value"""
    from ..common import closure_creations
    orig = mir.provenance(f, du, op)
    if not orig or not all(o.kind == "arg" and o.local >= 2 for o in orig):
        return False
    good = False
    from . import c12
    for owner, rv in closure_creations(F, f["path"]):
        oi = c12._inlined_for_discharge(F, owner)
        if oi is not None and oi.get("inlined"):
            owner = oi      # statements / terminators of the original blocks are shared objects or equal copies
            rv = next((st["rv"] for _, _, st in mir.stmts(owner) if st["rv"]["k"] == "agg" and st["rv"].get("closure") == f["path"]), rv)
        duo = mir.DefUse(owner)
        # the local the closure value is assigned to, and the call that receives it
        clocals = {st["lhs"]["l"] for _, _, st in mir.stmts(owner) if st["rv"] is rv}
        for bi, t in mir.calls(owner):
            if not any((mir.op_place(a) or {}).get("l") in clocals for a in t["args"][1:]):
                continue
            recv = mir.provenance(owner, duo, t["args"][0], transparent_extra=_INDEX_PASS)
            if recv and all(o.kind == "call" and (o.callee.endswith("::position") or o.callee.endswith("::len") or "enumerate" in o.callee
                                                  or o.callee.endswith("::rposition") or o.callee.endswith("::count")) for o in recv):
                good = True
            else:
                return False
    return good


def arith(F, res, cg, reach):
    rows = {r["key"]: r["reason"] for r in table("e1_rows")["C14"]}
    rows.update({r["key"]: r["reason"] for r in table("e4_rows")["arith"]})
    discharge.CURRENT_F = F
    _, n_fns, sites = e1.inventory(F, cg, ROOTS)
    res.count("functions on the quantity path", n_fns)
    res.floor("functions on the quantity path", n_fns, 900)
    cache = {}
    n = 0
    for s in sites:
        if s.kind != "K3" or s.what not in ("Overflow", "OverflowNeg"):
            continue
        n += 1
        f = s.fn
        p = f["path"]
        if p not in cache:
            cache[p] = (mir.DefUse(f), mir.CFG(f))
        du, cfg = cache[p]
        key = s.key()
        w = where(f, s.line)
        by = discharge.try_all(f, du, cfg, s)
        if by is None:
            by = discharge.try_in_callers(F, f, s)
        if by is None and key in rows:
            by = "D-TABLE: " + rows[key]
        if by:
            res.add([ok("ARITH", key, w, by)])
        else:
            res.add([finding("ARITH", key, w, "unchecked integer arithmetic (%s): overflow wraps in release builds and panics in debug builds" % s.what)])
    res.count("arithmetic sites", n)
    res.floor("arithmetic sites", n, 20)


def clamps(F, res, reach):
    from ..common import row_lookup
    rows = {r["key"]: r["reason"] for r in table("e4_rows")["clamps"]}
    sites = []
    counts = []
    for p in sorted(reach):
        f = F.built.get(p, F.fns[p])
        if is_derive(f):
            continue
        for bi, t in mir.calls(f):
            c = t.get("callee") or ""
            last = c.split("::")[-1]
            if last.startswith(("saturating_", "wrapping_")) or last == "clamp" or (last in ("min", "max") and c.startswith("std::cmp::Ord::")):
                if "<impl usize>" in c and any(o.kind == "call" and (o.callee or "").split("::")[-1] in ("len", "count")
                                               for a in t["args"] for o in mir.provenance(f, mir.DefUse(f), a)):
                    # arithmetic on a number of elements (`limit.saturating_sub(picked.len())`), not on a quantity: a quantity
                    # that became a usize went through a cast the CAST rule sees
                    counts.append(("%s|%s" % (p, last), where(f, t["line"])))
                    continue
                sites.append(("%s|%s" % (p, last), where(f, t["line"]), last))
    look = row_lookup(rows, {k for k, _, _ in sites})
    for key, w, last in sites:
        r = look(key)
        if r:
            res.add([ok("CLAMP", key, w, "D-TABLE: " + r[0] + (" (row relocated from %s)" % r[1] if r[1] else ""))])
        else:
            res.add([finding("CLAMP", key, w, "`%s` on the quantity path clamps or wraps a value instead of failing" % last)])
    for key, w in counts:
        res.add([ok("CLAMP", key + " (element count)", w, "usize arithmetic on a len()/count(): a number of elements, not a quantity")])
    res.count("clamp/wrap calls", len(sites))


def floats(F, res, reach):
    """a quantity (up to 128 bits) never passes through a float on the quantity path; the functions that only *rank* candidates
    with floats are tabled (their result orders candidates, no amount flows out of them)"""
    from ..common import float_sites, row_lookup
    rows = {r["key"]: r["reason"] for r in table("e4_rows").get("floats", [])}
    by_fn = {}
    for f, line, what in float_sites(F, reach):
        by_fn.setdefault(f["path"], (f, line, []))[2].append(what)
    look = row_lookup(rows, {"%s|floating point" % p for p in by_fn})
    for p, (f, line, whats) in sorted(by_fn.items()):
        key = "%s|floating point" % p
        r = look(key)
        if r:
            res.add([ok("FLOAT", key, where(f, line), "D-TABLE: " + r[0] + (" (row relocated from %s)" % r[1] if r[1] else ""))])
        else:
            res.add([finding("FLOAT", key, where(f, line), "%s uses floating point on the quantity path (%s): values beyond 2^53 are rounded" % (p.split("::")[-1], "; ".join(sorted(set(whats))[:3])))])
    res.count("functions using floating point on the quantity path", len(by_fn))


def defaulted(F, res, reach):
    """DEFAULTED: the failure of a checked numeric operation (`T::try_from(n)`, `n.try_into()`, `checked_*`, `str::parse`) must
    not be turned into a default value (`.ok().unwrap_or_default()`, `.unwrap_or(0)`, `.unwrap_or_else(..)`): the out-of-range
    quantity then silently becomes 0 (or the fallback) instead of failing the operation."""
    CHECKED = ("try_from", "try_into", "parse")
    n = 0
    for p in sorted(reach):
        f = F.built.get(p, F.fns.get(p))
        if f is None or is_derive(f) or f["crate"] not in ("tx3_cardano", "tx3_tir", "tx3_resolver", "tx3_lang"):
            continue
        du = None
        for bi, t in mir.calls(f):
            c = t.get("callee") or ""
            last = c.split("::")[-1]
            if last not in ("unwrap_or_default", "unwrap_or", "unwrap_or_else") or not t["args"] or site_in_derive(t.get("exp", "")):
                continue
            if not (c.startswith("std::option::Option") or c.startswith("std::result::Result")):
                continue
            du = du or mir.DefUse(f)
            src = mir.provenance(f, du, t["args"][0], transparent_extra=("std::result::Result::<T, E>::ok",))
            INTS = ("usize", "u64", "i64", "u32", "i128", "u128", "u8", "u16", "i32")
            hit = [o for o in src if o.kind == "call" and (o.callee.split("::")[-1] in CHECKED or o.callee.split("::")[-1].startswith("checked_"))
                   and any(x in " ".join(o.term.get("gargs") or []) + f["locals"][t["dest"]["l"]] for x in INTS)]
            if not hit:
                # `.and_then(|n| usize::try_from(n).ok()).unwrap_or_default()`: the checked conversion sits in the closure of an
                # Option / Result adaptor that feeds the defaulting call
                for o in src:
                    if o.kind == "call" and o.callee.split("::")[-1] in ("and_then", "map", "map_or", "then") and f["locals"][t["dest"]["l"]] in INTS:
                        for fr in o.term.get("fnrefs") or []:
                            g = F.fns.get(fr)
                            if g is None:
                                continue
                            for _, t2 in mir.calls(g):
                                l2 = (t2.get("callee") or "").split("::")[-1]
                                if l2 in CHECKED or l2.startswith("checked_"):
                                    hit = [mir.Origin("call", callee=t2.get("callee"), term=t2, bb=0)]
            if not hit:
                continue
            n += 1
            key = "%s|%s after %s" % (p, last, hit[0].callee.split("::")[-1])
            rows = {r["key"]: r["reason"] for r in table("e4_rows").get("defaulted", [])}
            if key in rows:
                res.add([ok("DEFAULTED", key, where(f, t["line"]), "D-TABLE: " + rows[key])])
            else:
                res.add([finding("DEFAULTED", key, where(f, t["line"]), "the failure of `%s` is replaced by a default value (`%s`): a quantity that does not fit silently becomes the fallback instead of failing" % (hit[0].callee.split("::")[-1], last))])
    res.count("defaulted checked conversions", n)


def drop_rule(F, res):
    # the function that merges two amount maps with the checked addition - found by role (it calls SafeAdd::try_add and is
    # not an impl of it), whatever its name
    SAFE = [t_ for t_ in {g.get("impl_trait") for g in F.fns.values()} if t_ and t_.endswith("::SafeAdd")]
    if not SAFE:
        raise BrokenCheck("no SafeAdd trait in tx3_cardano")
    cands = [g for g in F.fns.values() if g["crate"] == "tx3_cardano" and g.get("impl_trait") not in SAFE and not is_derive(g)
             and any(t.get("trait") in SAFE and t.get("method") == "try_add" for _, t in mir.calls(g))]
    if not cands:
        raise BrokenCheck("no function calls SafeAdd::try_add any more")
    f = sorted(cands, key=lambda g: g["path"])[0]
    cfg = mir.CFG(f)
    w = where(f)
    # the key keeps the historical name of the role so that the listed finding stays the same finding under a rename
    key = "tx3_cardano::compile::asset_math::fold_assets|None of try_add"
    from ..e8_state import option_switch
    ta = [(bi, t) for bi, t in mir.calls(f) if t.get("trait") in SAFE and t.get("method") == "try_add"]
    rem = [bi for bi, t in mir.calls(f) if (t.get("callee") or "").endswith("OccupiedEntry::<'a, K, V, A>::remove")]
    bad = False
    for bi, t in ta:
        for (sb, none_t, some_t) in option_switch(f, t["dest"]["l"]):
            if none_t is not None and set(rem) & cfg.reach_from(none_t):
                bad = True
    # do the SafeAdd impls distinguish overflow from a zero sum?
    conflated = []
    for g in F.fns.values():
        if g.get("impl_trait") in SAFE and g.get("name") == "try_add":
            has_checked = any((t.get("callee") or "").endswith("::checked_add") for _, t in mir.calls(g))
            has_ok = any((t.get("callee") or "").endswith("Result::<T, E>::ok") for _, t in mir.calls(g))
            if has_checked and has_ok:
                conflated.append(g["impl_self"].split("::")[-1])
    if bad:
        res.add([finding("DROP", key, w, "when try_add returns None the entry is removed; None means overflow as well as a zero sum (%s): an overflowing total silently disappears from the transaction" % ", ".join(sorted(conflated)))])
    else:
        res.add([ok("DROP", key, w, "the None edge of try_add does not reach a removal")])


def optional_rule(F, res, rule="OPTIONAL"):
    """OPTIONAL: the only outputs the compiler may leave out are *optional* ones that carry *nothing*.  The predicate of every
    `filter` on the way from tx.outputs into the body (helpers inlined) is turned into its truth table (E17); each row that
    drops the output must have the output's `optional` flag set, every quantity it tests zero and every container it tests
    empty, and must have tested all the value atoms the predicate tests for that shape of value (a row that decides after
    looking at the lovelace only, while another row of the same shape looks at the native assets, drops value).  A predicate
    outside the recognised fragment is not decided."""
    from .. import roles, truthtable
    tbp = roles.builder_of(F, "tx3_cardano", "::TransactionBody")
    try:
        feeder = F.fns[roles.feeder_of(F, tbp, "::TransactionBody", "outputs")]
    except BrokenCheck:
        return
    bodies = with_closures(F, feeder)
    # is component .0 of the filtered element the block's `optional` flag?
    flag_is_optional = False
    for b in bodies:
        du = mir.DefUse(b)
        for bi, si, s in mir.stmts(b):
            rv = s["rv"]
            if rv["k"] == "agg" and "tuple" in rv and rv["ops"] and b["locals"][s["lhs"]["l"]].startswith("(bool,"):
                if any(o.kind == "arg" and o.proj and o.proj[-1] == ".optional" for o in mir.provenance(b, du, rv["ops"][0])):
                    flag_is_optional = True
    n = 0
    for b in bodies:
        for bi, t in mir.calls(b):
            if not (t.get("callee") or "").endswith("Iterator::filter"):
                continue
            for fr in t.get("fnrefs") or []:
                g = F.fns.get(fr)
                if g is None or g["locals"][0] != "bool" or t["args"][-1:] == [] :
                    continue
                # the predicate is the filter's own closure argument
                if not any(o.kind == "agg" and o.rv.get("closure") == fr for o in mir.provenance(b, mir.DefUse(b), t["args"][1])):
                    continue
                # selections of chain-specific ad-hoc directives by name are not on the path of the template's outputs
                from ..common import ITER_PASS
                if any(o.kind == "arg" and ".adhoc" in o.proj for o in mir.provenance(b, mir.DefUse(b), t["args"][0], transparent_extra=tuple(ITER_PASS) + ("std::iter::Iterator::map", "core::slice::<impl [T]>::iter", "std::ops::Deref::deref", "std::iter::IntoIterator::into_iter"))):
                    continue
                n += 1
                key = "%s|filter predicate drops only empty optional outputs" % feeder["path"]
                w = where(g)

                def want(t2, callee):
                    return callee["crate"] == g["crate"] and not callee.get("impl_trait") and len(callee["blocks"]) <= 200
                body = mir.inline_calls(F, g, want=want, depth=3)
                rows = truthtable.table(body)
                dropped = [r for r in rows if r[2] is False]
                if not rows or any(r[3] for r in dropped) or any(r[2] is None for r in rows):
                    res.add([assumption(rule, key, w, "the predicate is outside the recognised fragment (%d paths, %d opaque): not decided" % (len(rows), sum(1 for r in rows if r[3])))])
                    continue
                if not dropped:
                    res.add([ok(rule, key, w, "the predicate never drops an output")])
                    continue
                by_ctx = {}
                for a, ctx, r, op in rows:
                    by_ctx.setdefault(ctx, set()).update(k for k in a if k[0] in ("positive", "empty"))
                bad = []
                for a, ctx, r, op in dropped:
                    flags = [(k, v) for k, v in a.items() if k[0] == "flag" and k[1].startswith("arg")]
                    if not flags or not all(v for _, v in flags):
                        bad.append("an output that is not optional can be dropped")
                    for k, v in a.items():
                        if k[0] == "positive" and v:
                            bad.append("an output is dropped although a quantity it carries (%s) is positive" % k[1])
                        if k[0] == "empty" and not v:
                            bad.append("an output is dropped although %s is not empty" % k[1])
                    missing = by_ctx[ctx] - set(a)
                    if missing:
                        bad.append("an output is dropped after looking at only part of its value (%s not looked at)" % ", ".join(sorted(m[1] for m in missing)))
                if bad:
                    res.add([finding(rule, key, w, "%s: the value in it disappears from the transaction (truth table of the predicate: %d rows, %d dropping)" % (sorted(set(bad))[0], len(rows), len(dropped)))])
                elif not flag_is_optional:
                    res.add([assumption(rule, key, w, "the flag the predicate tests could not be traced to the block's `optional` field: not decided")])
                else:
                    res.add([ok(rule, key, w, "dropped only when optional and every tested quantity is zero / container empty (%d rows, %d dropping)" % (len(rows), len(dropped)))])
    res.count("output filter predicates", n)


def sub_identity(F, res):
    EXPR = "tx3_tir::model::v1beta0::Expression"
    f = F.fn("<%s as tx3_tir::reduce::Arithmetic>::sub" % EXPR)
    du = mir.DefUse(f)
    w = where(f)
    key = f["path"] + "|subtrahend returned unchanged"
    bad = []
    for bi, si, s in mir.stmts(f):
        rv = s["rv"]
        if s["lhs"]["l"] == 0 and not s["lhs"]["p"] and rv["k"] == "agg" and rv.get("variant") == "Ok":
            for o in mir.provenance(f, du, rv["ops"][0]):
                if o.kind == "arg" and o.local == 2 and not o.proj:
                    bad.append(s["line"])
    if bad:
        res.add([finding("SUBID", key, w, "an arm of Expression::sub returns `other` itself (identity flow, no call to sub/neg): `None - y` evaluates to `y` instead of `-y`")])
    else:
        res.add([ok("SUBID", key, w, "every arm passes `other` through Arithmetic::sub / neg")])


QTY_TY = re.compile(r"\b(NonZeroInt|PositiveCoin|u64|i64|i128|u128|Coin)\b")
MAP_TY = re.compile(r"\b(BTreeMap|HashMap)<")


def _qty_map(ty):
    """a map type whose values (possibly nested maps) are quantities"""
    ty = (ty or "").strip()
    for wrap in ("std::result::Result<", "std::option::Option<"):
        if ty.startswith(wrap):
            ty = ty[len(wrap):]
    m = re.match(r"^&?(mut )?std::collections::(BTreeMap|HashMap)<", ty)
    if not m:
        return False
    rest = ty[m.end():]
    # value part = after the first top-level comma
    depth = 0
    for i, ch in enumerate(rest):
        if ch in "<([":
            depth += 1
        elif ch in ">)]":
            depth -= 1
        elif ch == "," and depth == 0:
            return bool(QTY_TY.search(rest[i + 1:]))
    return False


def merge_rule(F, res, reach):
    """Two quantity-bearing maps (multi-assets by policy, withdrawals by account) may only be combined through the aggregation
    functions: `collect`, `extend`, `append` keep the *last* value of a repeated key and silently drop the other amount."""
    n = 0
    for p in sorted(reach):
        f = F.fns.get(p)
        if f is None or f["crate"] not in ("tx3_cardano", "tx3_tir", "tx3_resolver") or f.get("derived"):
            continue
        if "::asset_math::" in p:
            continue   # the aggregation itself (entry API; its own None-handling is rule DROP)
        seen = {}
        for bi, t in mir.calls(f):
            c = t.get("callee") or ""
            name = c.split("::")[-1]
            g = t.get("gargs") or []
            why = None
            if name == "collect" and "Iterator" in c and len(g) >= 2 and _qty_map(g[-1]):
                n += 1
                src = g[0]
                if "Chain<" in src:
                    why = "two sources are chained and collected into one map"
                elif not re.match(r"^std::iter::Map<std::collections::(btree_map|hash_map)::(IntoIter|Iter|IterMut)<[^{]*>, \{closure[^}]*\}>$|^std::collections::(btree_map|hash_map)::(IntoIter|Iter)<", src):
                    why = "a list of items is collected into a map"
            elif name in ("extend", "append") and g and _qty_map(g[0]) and ("Extend" in c or "BTreeMap" in c):
                n += 1
                why = "one map is `%s`ed with another" % name
            if why:
                k = "%s|%s into %s" % (p, name, re.sub(r"pallas::ledger::pallas_primitives::|std::collections::", "", g[-1] if name == "collect" else g[0])[:90])
                seen[k] = seen.get(k, 0) + 1
                key = k if seen[k] == 1 else "%s|#%d" % (k, seen[k])
                res.add([finding("MERGE", key, where(f, t["line"]), "%s: when a key (policy / asset / reward account) occurs twice the later amount replaces the earlier one instead of being added to it" % why)])
    res.count("map-building sites on quantity maps", n)
    if not [o for o in res.obs if o.rule == "MERGE"]:
        res.add([ok("MERGE", "quantity maps|combined only by aggregation", "crates/tx3-cardano/src/compile/asset_math.rs", "%d map-building sites inspected; none merges two sources or a list into a quantity map" % n)])


def run(ctx):
    F = ctx.F
    res = Result("C02")
    res.rule("CAST", "no undischarged lossy integer cast on the quantity path")
    res.rule("ARITH", "no undischarged unchecked integer arithmetic on the quantity path")
    res.rule("CLAMP", "no saturating/wrapping/clamp call on the quantity path")
    res.rule("DROP", "the None of a checked add must not flow into a removal")
    res.rule("SUBID", "subtraction never returns its subtrahend unchanged")
    res.rule("MERGE", "quantity-bearing maps are combined by aggregation, never by overwrite")
    res.rule("DEFAULTED", "the failure of a checked numeric conversion is never replaced by a default value")
    res.rule("FLOAT", "no quantity passes through floating point (tabled: the candidate ranking of the vector selector)")
    res.rule("BIGNUM", "negative bignums carry -1 - n")
    cg = CallGraph(F)
    reach = cg.reachable(ROOTS)
    casts(F, res, reach)
    res.floor("lossy casts analysed (closure size)", len(reach), 900)
    arith(F, res, cg, reach)
    clamps(F, res, reach)
    drop_rule(F, res)
    sub_identity(F, res)
    merge_rule(F, res, reach)
    floats(F, res, reach)
    defaulted(F, res, reach)
    res.rule("OPTIONAL", "only optional outputs that carry nothing are left out (truth table of the filter predicate)")
    optional_rule(F, res)
    # integers that leave the 64-bit range are encoded as CBOR bignums: the negative form carries -1 - n (rule shared with C09)
    from . import c09
    r3 = Result("C02")
    c09.bignum(F, r3)
    for o in r3.obs:
        o.rule = "BIGNUM"
        res.add([o])
    if ctx.tier == "thorough":
        # release semantics: with overflow checks off the same arithmetic is unchecked without an Assert; the casts are unchanged
        F2 = ctx.facts("nooverflow")
        r2 = Result("C02")
        reach2 = CallGraph(F2).reachable(ROOTS)
        casts(F2, r2, reach2)
        have = {o.key for o in res.obs}
        missing = [o for o in r2.obs if o.key not in have]
        res.add(missing)
        res.note("release-semantics extraction (-C overflow-checks=off): %d cast sites, %d not seen in the default configuration" % (len(r2.obs), len(missing)))
    # an asset's class is not changed on the way: a token whose class is merged into another one (an unnamed token folded
    # into lovelace) is a quantity that disappears from its class and appears in another (rule shared with C15)
    from . import c15
    res.rule("I-CLASS", "from_asset sends each presence combination of (policy, name) to its own asset class")
    c15.i_class(F, res)
    return res
