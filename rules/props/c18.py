"""C18 -- lowering and encoding are deterministic.

Static clauses (exact for the mechanism the property names):
  H-SER   no RandomState hash container with a derived Serialize inside an IR value the lowering can construct (its CBOR
          encoding follows iteration order)
  H-ITER  no order-dependent consumption of a hash container in the closure of parse_string / analyze / lower / to_bytes / emit_tii
          (iteration that feeds an ordered result, *and* a variable assigned on some iterations and read on later ones)
  H-JSON  the TII file is written from a serde_json::Value whose maps are sorted (serde_json without `preserve_order`)
  H-SRC   no other nondeterminism source (time, randomness, environment, threads, explicit RandomState) in the closure of
          parse / analyze / lower / to_bytes
"""
import re

from .. import mir, e6_hash as e6, e3_trav as e3
from ..common import CallGraph, table, is_derive, site_in_derive, call_matches
from ..engine import Result, ok, finding, assumption, where
from ..facts import BrokenCheck
from . import c11

META = {
    "level": "other",
    "explanation": (
        "Type-level and flow rule for the one mechanism that can make the output differ between processes: iteration order of "
        "std HashMap/HashSet (RandomState). (1) every type reachable from v1beta0::Tx is scanned for hash-container fields with "
        "a derived Serialize, and kept if the lowering's call-graph closure constructs that type; (2) every iteration call on a "
        "hash container in the closure of parse/analyze/lower/to_bytes/emit_tii is classified by its terminal consumer "
        "(order-neutral: collected into a map/set, all/any/count..; order-dependent: collected into a Vec, pushed in a loop, "
        "first/next); (3) the TII writer goes through serde_json::Value with sorted maps (resolved cargo features); (4) no "
        "time/random/env/thread calls. A same-process test can never observe RandomState differences; this rule covers every program."),
    "trusted_base": ["rustc MIR, driver", "cargo metadata (resolved features of serde_json)", "std HashMap iteration order is the only order source considered besides H-SRC's list"],
    "not_decided": [],
}

ROOTS = ["tx3_lang::parsing::parse_string", "tx3_lang::analyzing::analyze", "tx3_lang::lowering::lower", "tx3_lang::facade::Workspace::lower",
         "tx3_tir::encoding::to_bytes"]
TII_ROOT = "tx3c::tii::emit_tii"
TX = "tx3_tir::model::v1beta0::Tx"


def h_ser(F, res, cg):
    fam = c11.wire_family(F)
    lower_reach = cg.reachable(["tx3_lang::lowering::lower"])
    # which ADT variants does the lowering construct?
    built = set()
    for p in lower_reach:
        f = F.fns[p]
        if is_derive(f):
            continue
        for bi, si, s in mir.stmts(f):
            rv = s["rv"]
            if rv["k"] == "agg" and "adt" in rv and not site_in_derive(s["exp"]):
                built.add((rv["adt"], rv["variant"]))
    n = 0
    for ty in sorted(fam):
        if ty in ("tx3_tir::reduce::ArgValue",):
            continue
        a = F.adt(ty)
        for v in a["variants"]:
            for fd in v["fields"]:
                if not e6.HASH_TY.search(fd["ty"]):
                    continue
                n += 1
                key = "%s::%s.%s" % (ty, v["name"], fd["name"])
                w = "%s:%s" % (a["file"].replace("/repo/", ""), a["line"])
                if (ty, v["name"]) in built:
                    res.add([finding("H-SER", key, w, "`%s` (%s) is serialised in hash-iteration order and the lowering constructs %s::%s: the TIR bytes differ between processes" % (
                        fd["name"], fd["ty"].split("<")[0].split("::")[-1], ty.split("::")[-1], v["name"]))])
                else:
                    res.add([ok("H-SER", key, w, "never constructed in the closure of lowering::lower (%d functions)" % len(lower_reach))])
    res.count("hash-container fields in IR types", n)
    res.floor("IR types scanned for hash containers", len(fam), 24)


def h_iter(F, res, cg):
    reach = cg.reachable(ROOTS + [TII_ROOT])
    rows = {r["key"]: r["reason"] for r in table("e6_rows")["iter"]}
    n = 0
    for p in sorted(reach):
        f = F.built.get(p, F.fns[p])
        if is_derive(f):
            continue
        for bi, t in mir.calls(f):
            h = e6.is_hash_iter(t)
            if not h or site_in_derive(t["exp"]):
                continue
            n += 1
            kind, why = e6.classify(f, bi)
            key = "%s|%s" % (p, h.split("::")[-1] if "::" in h else h)
            w = where(f, t["line"])
            if kind == "neutral":
                res.add([ok("H-ITER", key, w, why)])
            elif key in rows:
                res.add([ok("H-ITER", key, w, "D-TABLE: " + rows[key])])
            else:
                res.add([finding("H-ITER", key, w, "hash-container iteration with an order-dependent consumer: " + why)])
    res.count("hash iteration sites", n)
    res.count("functions in closure", len(reach))
    res.floor("functions in closure", len(reach), 1500)


def h_json(F, res):
    f = F.fn(TII_ROOT)
    w = where(f)
    feats = F.resolved_features("serde_json")
    key = "serde_json|maps are sorted"
    if "preserve_order" in feats:
        res.add([finding("H-JSON", key, "Cargo.lock", "serde_json is built with `preserve_order`: serde_json::Map keeps insertion (= hash iteration) order")])
    else:
        res.add([ok("H-JSON", key, "Cargo.lock", "resolved features %s: serde_json::Map is a BTreeMap" % sorted(feats))])
    # the string written derives from serde_json::to_value(tii)
    du = mir.DefUse(f)
    tv = [bi for bi, t in mir.calls(f) if (t.get("callee") or "") == "serde_json::to_value"]
    sp = [(bi, t) for bi, t in mir.calls(f) if (t.get("callee") or "") in ("serde_json::to_string_pretty", "serde_json::to_string", "serde_json::to_vec", "serde_json::to_writer", "serde_json::to_writer_pretty")]
    key2 = TII_ROOT + "|written from a serde_json::Value"
    good = bool(sp)
    for bi, t in sp:
        o = mir.provenance(f, du, t["args"][0], transparent_extra=("std::result::Result::<T, E>::unwrap", "std::result::Result::<T, E>::expect"))
        if not any(x.kind == "call" and x.callee == "serde_json::to_value" for x in o):
            good = False
    if good and tv:
        res.add([ok("H-JSON", key2, w, "to_string_pretty(&json!(tii)): the TiiFile's HashMaps pass through serde_json::Value first")])
    else:
        res.add([finding("H-JSON", key2, w, "the TII text is serialised directly from the TiiFile struct (HashMap fields in iteration order)")])


BAD_SOURCES = ("std::time::", "std::env::var", "std::env::vars", "std::thread::", "std::hash::RandomState::new", "std::collections::hash_map::RandomState::new",
               "rand::", "std::process::id", "std::ptr::addr", "std::time::SystemTime", "std::time::Instant")


def h_src(F, res, cg):
    reach = cg.reachable(ROOTS)
    bad = []
    for p in sorted(reach):
        f = F.fns[p]
        if is_derive(f):
            continue
        for bi, t in mir.calls(f):
            c = t.get("callee") or ""
            if c.startswith(BAD_SOURCES):
                bad.append((p, c, t["line"]))
        for bi, si, s in mir.stmts(f):
            rv = s["rv"]
            if rv["k"] == "cast" and rv["ck"] in ("PointerExposeProvenance", "PointerExposeAddress") and not s["exp"]:
                bad.append((p, "pointer-to-integer cast", s["line"]))
    key = "parse/analyze/lower/to_bytes closure|no other nondeterminism source"
    if bad:
        res.add([finding("H-SRC", key, "crates/tx3-lang/src", "nondeterminism sources in the closure: %s" % bad[:4])])
    else:
        res.add([ok("H-SRC", key, "crates/tx3-lang/src", "no time / random / env / thread / RandomState::new / pointer-address use in %d functions" % len(reach))])


def run(ctx):
    F = ctx.F
    res = Result("C18")
    res.rule("H-SER", "no hash container with derived Serialize in an IR value the lowering constructs")
    res.rule("H-ITER", "no order-dependent consumption of a hash container in the closure")
    res.rule("H-JSON", "TII text is produced from a serde_json::Value with sorted maps")
    res.rule("H-SRC", "no other nondeterminism source in the closure")
    cg = CallGraph(F, callbacks=False)
    h_ser(F, res, cg)
    h_iter(F, res, cg)
    h_json(F, res)
    h_src(F, res, cg)
    return res
