"""C18 -- lowering and encoding are deterministic.

Static clauses (exact for the mechanism the property names):
  H-SER   no RandomState hash container with a derived Serialize inside an IR value the lowering can construct (its CBOR
          encoding follows iteration order)
  H-ITER  no order-dependent consumption of a hash container in the closure of parse_string / analyze / lower / to_bytes / emit_tii
          (a map insertion in such a loop is neutral only under a key that is the whole iterated item, or the key half of a
          map's own entries)
          (iteration that feeds an ordered result, *and* a variable assigned on some iterations and read on later ones)
  H-JSON  the TII file is written from a serde_json::Value whose maps are sorted (serde_json without `preserve_order`)
  H-FILE  the TII file is replaced as a whole (`fs::write`, `File::create`, or OpenOptions with `truncate(true)` / `create_new(true)`
          and not `append`): what an earlier build left at the output path never shows in the bytes
  H-SRC   no other nondeterminism source (time, randomness, environment, threads, explicit RandomState) in the closure of
          parse / analyze / lower / to_bytes
"""
import re

from .. import mir, e6_hash as e6, e3_trav as e3
from ..common import CallGraph, table, is_derive, site_in_derive, call_matches
from ..engine import Result, ok, finding, assumption, where
from ..facts import BrokenCheck
from . import c11

META = {
    "level": "other",
    "explanation": (
        "Type-level and flow rule for the one mechanism that can make the output differ between processes: iteration order of "
        "std HashMap/HashSet (RandomState). (1) every type reachable from v1beta0::Tx is scanned for hash-container fields with "
        "a derived Serialize, and kept if the lowering's call-graph closure constructs that type; (2) every iteration call on a "
        "hash container in the closure of parse/analyze/lower/to_bytes/emit_tii is classified by its terminal consumer "
        "(order-neutral: collected into a map/set, all/any/count..; order-dependent: collected into a Vec, pushed in a loop, "
        "first/next); (3) the TII writer goes through serde_json::Value with sorted maps (resolved cargo features); (4) no "
        "time/random/env/thread calls. A same-process test can never observe RandomState differences; this rule covers every program."),
    "trusted_base": ["rustc MIR, driver", "cargo metadata (resolved features of serde_json)", "std HashMap iteration order is the only order source considered besides H-SRC's list"],
    "not_decided": [],
}

ROOTS = ["tx3_lang::parsing::parse_string", "tx3_lang::analyzing::analyze", "tx3_lang::lowering::lower", "tx3_lang::facade::Workspace::lower",
         "tx3_tir::encoding::to_bytes"]
TII_ROOT = "tx3c::tii::emit_tii"
TX = "tx3_tir::model::v1beta0::Tx"


def h_ser(F, res, cg):
    fam = c11.wire_family(F)
    lower_reach = cg.reachable(["tx3_lang::lowering::lower"])
    # which ADT variants does the lowering construct?
    built = set()
    for p in lower_reach:
        f = F.fns[p]
        if is_derive(f):
            continue
        for bi, si, s in mir.stmts(f):
            rv = s["rv"]
            if rv["k"] == "agg" and "adt" in rv and not site_in_derive(s["exp"]):
                built.add((rv["adt"], rv["variant"]))
    n = 0
    for ty in sorted(fam):
        if ty in ("tx3_tir::reduce::ArgValue",):
            continue
        a = F.adt(ty)
        for v in a["variants"]:
            for fd in v["fields"]:
                if not e6.HASH_TY.search(fd["ty"]):
                    continue
                n += 1
                key = "%s::%s.%s" % (ty, v["name"], fd["name"])
                w = "%s:%s" % (a["file"].replace("/repo/", ""), a["line"])
                if (ty, v["name"]) in built:
                    res.add([finding("H-SER", key, w, "`%s` (%s) is serialised in hash-iteration order and the lowering constructs %s::%s: the TIR bytes differ between processes" % (
                        fd["name"], fd["ty"].split("<")[0].split("::")[-1], ty.split("::")[-1], v["name"]))])
                else:
                    res.add([ok("H-SER", key, w, "never constructed in the closure of lowering::lower (%d functions)" % len(lower_reach))])
    res.count("hash-container fields in IR types", n)
    res.floor("IR types scanned for hash containers", len(fam), 24)


def h_iter(F, res, cg):
    e6.CURRENT_F = F
    reach = cg.reachable(ROOTS + [TII_ROOT])
    rows = {r["key"]: r["reason"] for r in table("e6_rows")["iter"]}
    n = 0
    for p in sorted(reach):
        f = F.built.get(p, F.fns[p])
        if is_derive(f):
            continue
        for bi, t in mir.calls(f):
            h = e6.is_hash_iter(t)
            if not h or site_in_derive(t["exp"]):
                continue
            n += 1
            kind, why = e6.classify(f, bi)
            key = "%s|%s" % (p, h.split("::")[-1] if "::" in h else h)
            w = where(f, t["line"])
            if kind == "neutral":
                res.add([ok("H-ITER", key, w, why)])
            elif key in rows:
                res.add([ok("H-ITER", key, w, "D-TABLE: " + rows[key])])
            else:
                res.add([finding("H-ITER", key, w, "hash-container iteration with an order-dependent consumer: " + why)])
    res.count("hash iteration sites", n)
    res.count("functions in closure", len(reach))
    res.floor("functions in closure", len(reach), 1500)


def h_json(F, res):
    f = F.fn(TII_ROOT)
    w = where(f)
    feats = F.resolved_features("serde_json")
    key = "serde_json|maps are sorted"
    if "preserve_order" in feats:
        res.add([finding("H-JSON", key, "Cargo.lock", "serde_json is built with `preserve_order`: serde_json::Map keeps insertion (= hash iteration) order")])
    else:
        res.add([ok("H-JSON", key, "Cargo.lock", "resolved features %s: serde_json::Map is a BTreeMap" % sorted(feats))])
    # the string written derives from serde_json::to_value(tii) - the emitter read with the crate's helpers inlined
    # (`write_json(&path, &json!(tii))`)
    def want(t, callee):
        return callee["crate"] == "tx3c" and not callee.get("impl_trait") and not callee.get("trait_default") and len(callee["blocks"]) <= 200
    _KEEP.append(want)
    f = mir.inline_calls(F, f, want=want, depth=2)
    du = mir.DefUse(f)
    tv = [bi for bi, t in mir.calls(f) if (t.get("callee") or "") == "serde_json::to_value"]
    VALUE_ARG = {"serde_json::to_string_pretty": 0, "serde_json::to_string": 0, "serde_json::to_vec": 0, "serde_json::to_vec_pretty": 0,
                 "serde_json::to_writer": 1, "serde_json::to_writer_pretty": 1}
    sp = [(bi, t) for bi, t in mir.calls(f) if (t.get("callee") or "") in VALUE_ARG]
    key2 = TII_ROOT + "|written from a serde_json::Value"
    good = bool(sp)
    for bi, t in sp:
        o = mir.provenance(f, du, t["args"][VALUE_ARG[t["callee"]]], transparent_extra=("std::result::Result::<T, E>::unwrap", "std::result::Result::<T, E>::expect"))
        if not any(x.kind == "call" and x.callee == "serde_json::to_value" for x in o):
            good = False
    if good and tv:
        res.add([ok("H-JSON", key2, w, "to_string_pretty(&json!(tii)): the TiiFile's HashMaps pass through serde_json::Value first")])
    else:
        res.add([finding("H-JSON", key2, w, "the TII text is serialised directly from the TiiFile struct (HashMap fields in iteration order)")])
    # H-FILE: the file holds what this run wrote and nothing else: it is written by `fs::write` / `File::create`, or opened with
    # `truncate(true)` / `create_new(true)` and not in append mode.  Otherwise the bytes at the output path depend on what an
    # earlier build left there (the tail of a longer file survives).
    key3 = TII_ROOT + "|the output file is replaced, not overwritten in place"
    BUILDER = tuple("std::fs::OpenOptions::" + m for m in ("write", "create", "truncate", "append", "read", "create_new"))
    writers = []
    for bi, t in mir.calls(f):
        c = t.get("callee") or ""
        if c in ("std::fs::write", "std::fs::File::create", "std::fs::File::create_new", "std::fs::File::create_buffered"):
            writers.append((t["line"], c, None))
        elif c == "std::fs::OpenOptions::open" and t["args"]:
            flags = {}
            for o in mir.provenance(f, du, t["args"][0], transparent_extra=BUILDER):
                for nm in o.through:
                    flags.setdefault(nm.split("::")[-1], None)
            for bj, t2 in mir.calls(f):
                c2 = t2.get("callee") or ""
                if c2 in BUILDER and c2.split("::")[-1] in flags and len(t2["args"]) > 1:
                    cv = mir.op_const(t2["args"][1])
                    val = bool(cv.get("int")) if cv and "int" in cv else None
                    prev = flags[c2.split("::")[-1]]
                    flags[c2.split("::")[-1]] = val if prev is None else (prev if prev == val else "mixed")
            writable = flags.get("write") or flags.get("append")
            if writable is None and "write" not in flags and "append" not in flags:
                continue       # opened for reading
            if flags.get("append") in (True, "mixed", None) and "append" in flags:
                writers.append((t["line"], c, "opened in append mode"))
            elif flags.get("truncate") is True or flags.get("create_new") is True:
                writers.append((t["line"], c, None))
            else:
                writers.append((t["line"], c, "opened for writing without `truncate(true)` (flags set: %s)" % ", ".join(sorted(flags))))
    badw = [x for x in writers if x[2]]
    if badw:
        res.add([finding("H-FILE", key3, where(f, badw[0][0]), "the output file is %s: when a longer file already sits at the output path its tail survives, so the same source and arguments do not always leave the same bytes" % badw[0][2])])
    elif writers:
        res.add([ok("H-FILE", key3, where(f, writers[0][0]), "written through %s" % ", ".join(sorted({x[1].split("::")[-1] for x in writers})))])
    else:
        res.add([assumption("H-FILE", key3, w, "no recognised file-writing call in the emitter (helpers inlined): how the file is written is not decided")])


_KEEP = []


BAD_SOURCES = ("std::time::", "std::env::var", "std::env::vars", "std::thread::", "std::hash::RandomState::new", "std::collections::hash_map::RandomState::new",
               "rand::", "std::process::id", "std::ptr::addr", "std::time::SystemTime", "std::time::Instant")


def h_src(F, res, cg):
    reach = cg.reachable(ROOTS)
    bad = []
    for p in sorted(reach):
        f = F.fns[p]
        if is_derive(f):
            continue
        for bi, t in mir.calls(f):
            c = t.get("callee") or ""
            if c.startswith(BAD_SOURCES):
                bad.append((p, c, t["line"]))
        for bi, si, s in mir.stmts(f):
            rv = s["rv"]
            if rv["k"] == "cast" and rv["ck"] in ("PointerExposeProvenance", "PointerExposeAddress") and not s["exp"]:
                bad.append((p, "pointer-to-integer cast", s["line"]))
    key = "parse/analyze/lower/to_bytes closure|no other nondeterminism source"
    if bad:
        res.add([finding("H-SRC", key, "crates/tx3-lang/src", "nondeterminism sources in the closure: %s" % bad[:4])])
    else:
        res.add([ok("H-SRC", key, "crates/tx3-lang/src", "no time / random / env / thread / RandomState::new / pointer-address use in %d functions" % len(reach))])


def run(ctx):
    F = ctx.F
    res = Result("C18")
    res.rule("H-SER", "no hash container with derived Serialize in an IR value the lowering constructs")
    res.rule("H-ITER", "no order-dependent consumption of a hash container in the closure")
    res.rule("H-JSON", "TII text is produced from a serde_json::Value with sorted maps")
    res.rule("H-SRC", "no other nondeterminism source in the closure")
    res.rule("H-FILE", "the emitted file is replaced as a whole (fs::write / File::create / truncate), never overwritten in place")
    cg = CallGraph(F, callbacks=False)
    h_ser(F, res, cg)
    h_iter(F, res, cg)
    h_json(F, res)
    h_src(F, res, cg)
    return res
