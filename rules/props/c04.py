"""C04 -- a transaction never spends one UTxO through two input blocks.

Static clauses (typestate: "a ref enters `ignore` before the selector is used again"):
  S-IGNORE    InputSelector.ignore is only ever extended (never cleared, removed from, replaced) after construction; in
              select_input every path to Ok(matched) passes the `extend` whose argument derives from `matched`; the refs handed to
              fetch_utxos come out of a `filter` whose closure consults `ignore.contains`; inputs::resolve builds exactly one
              selector, outside its loop over the queries
  S-FABRICATE the coin-selection strategies and find_first_excess_utxo never build a Utxo: everything they return is a clone /
              move of an element of the search space they were given
  I-DIAG      binding keys: blocks are bound under lower-cased names, so two input-like blocks whose keys collide must be
              rejected by the analyzer - the duplicate-definition diagnostic has to be raised somewhere
  NOFILTER    compile_inputs flattens the bound sets without de-duplicating or filtering adaptors
  (forms)     S-IGNORE follows the selection into an awaited private helper, accepts a growth of the taken refs in a loop that is
              only left when its iterator is exhausted, and reports a growth inside a short-circuiting adaptor's closure
  S-POOLS     what input blocks took and what backs the collateral are remembered apart (collateral memory = the field the
              collateral entry point grows): nothing derived from a collateral selection lands in an input memory, or vice versa
Not decided: that the store returns what it was asked for (trusted interface).
"""
import re

from .. import mir, roles
from ..common import CallGraph, call_matches, is_derive, site_in_derive, with_closures, bool_return_leaves
from ..engine import Result, ok, finding, assumption, where
from ..facts import BrokenCheck
from . import c17

META = {
    "level": "other",
    "explanation": (
        "Effect/typestate rules over MIR (pre-transform coroutine bodies for the async selector): who writes InputSelector.ignore "
        "and with which operations; dominance of the success return of select_input by the extend(matched) call; provenance of "
        "the candidate refs through a filter on ignore.contains; one selector per resolution; no Utxo aggregates in the "
        "strategies; the analyzer's duplicate diagnostic; no dedup/filter in compile_inputs. Together they are the reasons two "
        "blocks cannot receive the same UTxO, for every store and every combination of overlapping queries."),
    "trusted_base": ["rustc MIR (mir_built for async bodies), driver", "the UtxoStore returns only UTxOs whose refs were requested"],
    "not_decided": ["store behaviour"],
}

SEL = "tx3_resolver::inputs::select::InputSelector"
SELP = "tx3_resolver::inputs::select::InputSelector::<'a, S>::"


def _HELPERS(t, callee):
    if callee["crate"] != "tx3_resolver" or callee.get("impl_trait") or callee.get("trait_default") or callee.get("is_async"):
        return False
    return len(callee["blocks"]) <= 150


def _HELPERS_ALL(t, callee):
    """also the selector's async helpers (`async fn fetch_candidates(..)`): awaited calls are inlined too"""
    if callee["crate"] != "tx3_resolver" or callee.get("impl_trait") or callee.get("trait_default"):
        return False
    return len(callee["blocks"]) <= 200


def _RESOLVE_HELPERS(t, callee):
    """helpers of inputs::resolve (e.g. a per-query `resolve_query`), not the selector's own methods"""
    if callee["crate"] != "tx3_resolver" or callee.get("impl_trait") or callee.get("trait_default"):
        return False
    if callee["path"].startswith(SELP) or "::narrow::" in callee["path"]:
        return False
    return len(callee["blocks"]) <= 200


def bodies_of(F, path):
    """the body to reason about and its closures (async: the coroutine body and the closures inside it)"""
    b = F.body(path)
    out = [b]
    for c in F.fns.values():
        if c.get("owner") == path and c["path"] != b["path"]:
            out.append(c)
    return b, out


MEMBER_READS = ("contains", "contains_key", "get")
OTHER_READS = ("len", "iter", "is_empty", "keys", "values")
GROW = ("extend", "insert")
ITER_TRANSPARENT = ("std::iter::Iterator::map", "std::collections::HashSet::<T, S, A>::iter", "std::iter::Iterator::cloned",
                    "std::iter::Iterator::copied", "std::collections::HashSet::<T, S, A>::into_iter", "std::iter::IntoIterator::into_iter",
                    # the element a `for` loop over the set is looking at
                    "std::iter::Iterator::next")


def excl_fields(F):
    """fields of the selector that can remember refs: containers of UtxoRef"""
    out = {}
    for fd in F.adt(SEL)["variants"][0]["fields"]:
        if "UtxoRef" in fd["ty"] and re.search(r"(HashSet|HashMap|BTreeSet|BTreeMap|Vec|VecDeque)<", fd["ty"]):
            out[fd["name"]] = fd["ty"]
    return out


def _field_of(origins, fields):
    for x in origins:
        for p in x.proj:
            if p.startswith(".") and p[1:] in fields:
                return p[1:]
    return None


class Access:
    def __init__(self, field, op, fn, line, bb, term, via=(), data=None):
        self.field, self.op, self.fn, self.line, self.bb, self.term, self.via, self.data = field, op, fn, line, bb, term, via, data

    @property
    def kind(self):
        if self.op in MEMBER_READS:
            return "member"
        if self.op in OTHER_READS:
            return "read"
        if self.op in GROW:
            return "grow"
        return "other"


_HEFF = {}


def _helper_effect(F, op):
    """an access that is a call of one of the crate's own free helpers with the remembering set as argument
    (`mark_used(&mut self.used, &matched)`): what the helper does to that parameter - `extend` when it only grows it, a read
    when it only reads it; anything else keeps the helper's name (and is reported)"""
    if op in GROW or op in MEMBER_READS or op in OTHER_READS:
        return op
    if op not in _HEFF:
        eff = op
        cands = [g for g in F.fns.values() if g["crate"] == "tx3_resolver" and not g.get("impl_trait") and g["def_kind"] != "Closure" and g["path"].rsplit("::", 1)[-1] == op]
        if len(cands) == 1:
            g = cands[0]
            du = mir.DefUse(g)
            ops = set()
            for bi, t in mir.calls(g):
                if not t["args"]:
                    continue
                if any(o.kind == "arg" and "HashSet<tx3_tir::model::core::UtxoRef>" in g["locals"][o.local] for o in mir.provenance(g, du, t["args"][0], transparent_extra=("std::ops::Deref::deref", "std::ops::DerefMut::deref_mut"))):
                    ops.add((t.get("callee") or "").split("::")[-1])
            if ops and all(o in GROW or o in MEMBER_READS or o in OTHER_READS for o in ops):
                eff = "extend" if any(o in GROW for o in ops) else sorted(ops)[0]
        _HEFF[op] = eff
    return _HEFF[op]


def accesses(F, f, fields, depth=0, owner_capt=None):
    """calls in f (and in the closures it creates, and in the selector's own helper methods it calls, two levels) whose receiver
    is one of the selector's ref-remembering fields.  `data` = the operand *in f* the written data comes from (grow only)."""
    out = []
    du = mir.DefUse(f)
    for bi, t in mir.calls(f):
        if not t["args"]:
            continue
        c = t.get("callee") or ""
        org = mir.provenance(f, du, t["args"][0], transparent_extra=("std::ops::Deref::deref", "std::ops::DerefMut::deref_mut"))
        fld = _field_of(org, fields)
        if fld is None and owner_capt:
            # closure: receiver is an upvar that captured a field of the selector
            for x in org:
                if x.kind == "arg" and x.local == 1:
                    for p in x.proj:
                        if re.match(r"^\.\d+$", p) and int(p[1:]) in owner_capt:
                            fld = owner_capt[int(p[1:])]
                            break
        if fld is not None:
            op = c.split("::")[-1]
            data = t["args"][1] if (op in GROW and len(t["args"]) > 1) else None
            out.append(Access(fld, op, f, t["line"], bi, t, data=data))
            continue
        # helper methods of the selector, called on self
        r = t.get("resolved") or c
        if depth < 2 and r.startswith(SELP) and r in F.fns and r != f["path"]:
            g = F.fns[r]
            for a in accesses(F, g, fields, depth + 1):
                data = None
                if a.kind == "grow" and a.data is not None:
                    dg = mir.DefUse(a.fn) if a.fn is g else None
                    if dg is not None:
                        for o in mir.provenance(g, dg, a.data, transparent_extra=ITER_TRANSPARENT):
                            if o.kind == "arg" and 1 <= o.local <= len(t["args"]):
                                data = t["args"][o.local - 1]
                    else:
                        data = a.data
                out.append(Access(a.field, a.op, f, t["line"], bi, t, via=(r.split("::")[-1],) + tuple(a.via), data=data))
    # closures created here
    for bi, si, s in mir.stmts(f):
        rv = s["rv"]
        if rv["k"] == "agg" and rv.get("closure"):
            g = F.fns.get(rv["closure"])
            if g is None:
                continue
            if rv["closure"] in F.built:
                # the body of an async fn: its pre-transform form, with the crate's helper functions inlined (a helper that is
                # handed `&mut self.<field>` then writes the field in place)
                g = mir.inline_calls(F, F.built[rv["closure"]], want=_HELPERS_ALL, depth=2)
            capt = {}
            whole = False
            for i, o in enumerate(rv["ops"]):
                org = mir.provenance(f, du, o)
                fld = _field_of(org, fields)
                if fld:
                    capt[i] = fld
            for a in accesses(F, g, fields, depth + 1, owner_capt=capt):
                out.append(Access(a.field, a.op, f, s["line"], bi, None, via=("closure",) + tuple(a.via), data=None))
    return out


def _in_complete_loop(f, cfg, du, bb, target):
    """`bb` sits in a loop that every path to `target` passes through and that is only left when its iterator is exhausted
    (`for x in picked.iter() { taken.insert(..) }`): what the body does is done for every element"""
    best = None
    for h, blks in cfg.loops().items():
        if bb in blks and cfg.dominates(h, target) and target not in blks and (best is None or len(blks) < len(best)):
            best = blks
    if best is None:
        return False
    for u in best:
        for v in cfg.succ[u]:
            if v in best or f["blocks"][v]["cleanup"] or (f["blocks"][v]["t"]["k"] == "unreachable" and not f["blocks"][v]["s"]):
                continue
            t = f["blocks"][u]["t"]
            if t["k"] != "switch":
                return False
            pl = mir.op_place(t["discr"])
            src = None
            for st in f["blocks"][u]["s"]:
                if pl is not None and st["lhs"]["l"] == pl["l"] and st["rv"]["k"] == "discr":
                    src = st["rv"]["pl"]["l"]
            if src is None:
                return False
            ds = du.defs.get(src, [])
            if not (len(ds) == 1 and ds[0][0] == "call" and (ds[0][3].get("callee") or "").endswith("Iterator::next")):
                return False
            tm = dict((a_, b_) for a_, b_ in t["targets"])
            none_t = tm.get(0, t["otherwise"])
            if v != none_t:
                return False
    return True


def s_ignore(F, res):
    fields = excl_fields(F)
    if not fields:
        raise BrokenCheck("InputSelector has no field that can remember taken refs")
    b, allb = bodies_of(F, SELP + "select_input")
    # helper functions of the resolver crate are inlined (two levels): a candidate filter extracted into
    # `fn candidate_refs(space, used)` is analysed as if it were written in place
    b = mir.inline_calls(F, b, want=_HELPERS_ALL, depth=2)
    cfg = mir.CFG(b)
    du = mir.DefUse(b)
    acc = accesses(F, b, fields)
    # (c) candidates are filtered through a membership test on a remembering field
    key3 = SELP + "select_input|candidates exclude taken refs"
    fu = [(bi, t) for bi, t in mir.calls(b) if t.get("trait") == "tx3_resolver::UtxoStore" and t.get("method") == "fetch_utxos"]
    if not fu:
        raise BrokenCheck("select_input no longer calls fetch_utxos")
    filt_fields = set()
    value_dependent = set()
    wrong_polarity = []
    late_adds = []
    good3 = True

    def candidates(g, dg, op, fld_of_operand, depth=0):
        """how the set of refs in `op` (a value in g) was built: the membership filters it went through and what was added to
        it afterwards.  fld_of_operand(operand) -> remembering field a captured / passed operand stands for."""
        here = set()
        src = mir.provenance(g, dg, op)
        for x in src:
            if x.kind == "call" and x.callee == "std::iter::Iterator::collect":
                # anything added to the collected set later on bypasses the filter
                dest = x.term["dest"]["l"]
                roots = {dest}
                for _ in range(4):
                    for bj, sj, s2 in mir.stmts(g):
                        if s2["rv"]["k"] in ("use", "ref") and not s2["lhs"]["p"]:
                            pl2 = mir.op_place(s2["rv"].get("op")) if s2["rv"]["k"] == "use" else s2["rv"]["pl"]
                            if pl2 is not None and pl2["l"] in roots and not [q for q in pl2["p"] if q[0] != "d"]:
                                roots.add(s2["lhs"]["l"])
                for bj, t2 in mir.calls(g):
                    n2 = (t2.get("callee") or "").split("::")[-1]
                    if n2 in ("extend", "insert", "append", "union") and t2["args"]:
                        pl2 = mir.op_place(t2["args"][0])
                        if pl2 is not None and pl2["l"] in roots:
                            late_adds.append((g, t2["line"], n2))
                for y in mir.provenance(g, dg, x.term["args"][0]):
                    if y.kind == "call" and y.callee == "std::iter::Iterator::filter":
                        for z in mir.provenance(g, dg, y.term["args"][1]):
                            if z.kind == "agg" and z.rv.get("closure"):
                                c = F.fns.get(z.rv["closure"])
                                capt = {}
                                for i, o in enumerate(z.rv["ops"]):
                                    fld = fld_of_operand(o)
                                    if fld:
                                        capt[i] = fld
                                leaves = bool_return_leaves(F, c, follow=lambda r: r.startswith(SELP))
                                polarity = None
                                if leaves is not None:
                                    for sign, t3, g3 in leaves:
                                        if (t3.get("callee") or "").split("::")[-1] in MEMBER_READS:
                                            polarity = sign
                                if polarity is not None and polarity > 0:
                                    wrong_polarity.append(z.rv["closure"])
                                    continue
                                for a in accesses(F, c, fields, 1, owner_capt=capt):
                                    if a.kind == "member":
                                        here.add(a.field)
                                        if a.op == "get" and re.search(r"Map<", fields[a.field]):
                                            value_dependent.add(a.field)
                                # a captured plain set (helper parameter standing for a field): membership test on the upvar
                                if not here and capt:
                                    for bj, t3 in mir.calls(c):
                                        if (t3.get("callee") or "").split("::")[-1] in MEMBER_READS:
                                            here |= set(capt.values())
            elif x.kind == "call" and depth < 2:
                r = x.term.get("resolved") or x.callee
                h = F.fns.get(r)
                if h is not None and h["crate"] == "tx3_resolver" and not h.get("is_async"):
                    dh = mir.DefUse(h)
                    # map the helper's parameters to remembering fields through the call's arguments
                    pmap = {}
                    for ai, a in enumerate(x.term["args"]):
                        fld = fld_of_operand_at(g, dg, a)
                        if fld:
                            pmap[ai + 1] = fld

                    def fo(o, h=h, dh=dh, pmap=pmap):
                        for og in mir.provenance(h, dh, o):
                            if og.kind == "arg" and og.local in pmap:
                                return pmap[og.local]
                        return None
                    for bj, sj, s2 in mir.stmts(h):
                        if s2["lhs"]["l"] == 0 and not s2["lhs"]["p"] and s2["rv"]["k"] == "use":
                            here |= candidates(h, dh, s2["rv"]["op"], fo, depth + 1)
        return here

    def fld_of_operand_at(g, dg, o):
        return _field_of(mir.provenance(g, dg, o), fields)

    for bi, t in fu:
        here = candidates(b, du, t["args"][1], lambda o: fld_of_operand_at(b, du, o))
        if not here:
            good3 = False
        filt_fields |= here
    if good3 and late_adds:
        g, line, n2 = late_adds[0]
        res.add([finding("S-IGNORE", key3 + "|added after the filter", where(g, line), "refs are added to the candidate set (`%s`) after it has been filtered against the taken refs: a UTxO an earlier block took becomes a candidate again (e.g. for a block that pins it with `ref:`)" % n2)])
    elif good3:
        res.add([ok("S-IGNORE", key3, where(b), "fetch_utxos(take(..).into_iter().filter(<membership test on self.%s>).collect()), nothing added afterwards" % "/".join(sorted(filt_fields)))])
    else:
        res.add([finding("S-IGNORE", key3, where(b), "the refs handed to the store are not filtered through the selector's memory of taken refs%s: a UTxO taken by an earlier block can be offered again" % (" (the filter *keeps* the refs that are members instead of dropping them)" if wrong_polarity else ""))])
    track = filt_fields or set(fields)
    # (a) the remembering fields only ever grow, and a mark once set keeps excluding
    touched = []
    for f in list(F.fns.values()) + list(F.built.values()):
        if f["crate"] != "tx3_resolver" or is_derive(f):
            continue
        if f["path"] in F.built and f.get("stage") == "opt":
            continue   # use the pre-transform body of coroutines
        if f.get("owner"):
            continue   # closures are reached through their owner
        # helper functions that receive the remembering set as a parameter (`pick_and_remember(.., used: &mut HashSet<..>)`) are
        # seen through their callers, with the helper inlined
        f = mir.inline_calls(F, f, want=_HELPERS_ALL, depth=2)
        for bi, si, s in mir.stmts(f):
            lhs = s["lhs"]
            for p in lhs["p"]:
                if p[0] == "f" and p[2] == SEL and p[1] in track:
                    touched.append((f, s["line"], "assignment", p[1]))
        for a in accesses(F, f, fields):
            # a call of one of the crate's own helpers that was not inlined at this depth is judged where it is (in the scan
            # of the function that calls it directly)
            tgt = (a.term or {}).get("resolved") or (a.term or {}).get("callee") or ""
            if tgt in F.fns and F.fns[tgt]["crate"] == "tx3_resolver" and f["blocks"][a.bb].get("inl"):
                continue
            if a.field in track and not a.via[:1] or (a.field in track and a.via and a.via[0] == "closure"):
                touched.append((f, a.line, _helper_effect(F, a.op), a.field))
    key = SEL + "|taken refs only ever grow"
    w = "crates/tx3-resolver/src/inputs/select/mod.rs"
    bad = [(f, line, c, fld) for f, line, c, fld in touched if c not in GROW and c not in MEMBER_READS and c not in OTHER_READS]
    ext = [(f, line, c, fld) for f, line, c, fld in touched if c in GROW]
    over = [(f, line, c, fld) for f, line, c, fld in ext if fld in value_dependent]
    if bad:
        f, line, c, fld = bad[0]
        res.add([finding("S-IGNORE", key, where(f, line), "`%s` is modified by `%s` in %s: already-taken UTxOs can become selectable again" % (fld, c, f["path"].split("::")[-1]))])
    elif over:
        f, line, c, fld = over[0]
        res.add([finding("S-IGNORE", key, where(f, line), "`%s` is a map whose *value* decides whether a ref is excluded, and `%s` in %s overwrites the value of a ref that is already present: a later mark erases the earlier one and the UTxO becomes selectable again" % (fld, c, f["path"].split("::")[-1]))])
    elif not ext:
        res.add([finding("S-IGNORE", key, w, "the selector's memory of taken refs is never extended: no block's selection is remembered")])
    else:
        res.add([ok("S-IGNORE", key, w, "%s written only by %s in %s (and initialised in new)" % ("/".join(sorted(track)), "/".join(sorted({c for _, _, c, _ in ext})), ", ".join(sorted({f["path"].split("::")[-1] for f, _, _, _ in ext}))))])
    # (b) select_input: Ok(matched) dominated by a growth of a filtered-on field with data derived from matched
    oks = [(bi, s) for bi, si, s in mir.stmts(b) if s["lhs"]["l"] == 0 and not s["lhs"]["p"] and s["rv"]["k"] == "agg" and s["rv"].get("variant") == "Ok"]
    if not oks:
        # the selection sits in an (awaited) helper whose result is returned as it is: the Ok(..) values that reach the return place
        AW = ("std::future::Future::poll", "std::pin::Pin::<Ptr>::new_unchecked", "std::future::IntoFuture::into_future", "<F as std::future::IntoFuture>::into_future")
        for o in mir.provenance(b, du, {"l": 0, "p": []}, transparent_extra=AW):
            if o.kind == "agg" and o.rv.get("variant") == "Ok" and o.rv.get("adt", "").endswith("::Result"):
                oks.append((o.bb, {"rv": o.rv}))
    grows = [a for a in acc if a.kind == "grow" and a.field in track and a.term is not None]
    key2 = SELP + "select_input|success records the selection"
    if not oks:
        raise BrokenCheck("select_input has no Ok(..) return")
    good = bool(grows)
    why = ""
    for ob, s in oks:
        def _ok(x):
            # identity of an origin without the projection applied on the way (`matched` vs `matched[i].ref`)
            return (x.kind, x.bb, x.callee) if x.kind == "call" else repr(x)
        ret = {_ok(x) for x in mir.provenance(b, du, s["rv"]["ops"][0])}
        dom = [a for a in grows if cfg.dominates(a.bb, ob) or _in_complete_loop(b, cfg, du, a.bb, ob)]
        if not dom:
            good = False
            why = "a success return is reachable without recording the selection"
            continue
        derived = False
        for a in dom:
            if a.data is None:
                continue
            src = mir.provenance(b, du, a.data, transparent_extra=ITER_TRANSPARENT)
            if {_ok(x) for x in src} & ret:
                derived = True
        if not derived:
            good = False
            why = "what is recorded as taken is not derived from the set that is returned"
    if good:
        res.add([ok("S-IGNORE", key2, where(b), "every Ok(matched) is dominated by a growth of self.%s with the refs of `matched`" % "/".join(sorted({a.field for a in grows})))])
    else:
        res.add([finding("S-IGNORE", key2, where(b), why or "select_input never records its selection")])
    # (b') ... for every element: a growth inside a closure handed to a short-circuiting adaptor runs only until the adaptor has
    # its answer (`picked.iter().any(|x| taken.insert(..))` stops at the first fresh ref)
    SHORT = ("any", "all", "find", "find_map", "position", "rposition", "take_while", "skip_while", "map_while", "try_for_each", "try_fold")
    key2b = SELP + "select_input|every selected UTxO is recorded"
    cut = []
    for bi, t in mir.calls(b):
        c = t.get("callee") or ""
        if c.split("::")[-1] in SHORT and c.startswith(("std::iter::", "core::iter::")):
            for cl in t.get("fnrefs") or ():
                g = F.fns.get(cl)
                if g is None:
                    continue
                for cb in with_closures(F, g):
                    for _, t2 in mir.calls(cb):
                        c2 = t2.get("callee") or ""
                        if c2.split("::")[-1] in GROW and t2["args"] and "UtxoRef" in " ".join(t2.get("gargs") or []) + cb["locals"][mir.op_place(t2["args"][0])["l"]] if mir.op_place(t2["args"][0]) is not None else False:
                            cut.append((t["line"], c.split("::")[-1], c2.split("::")[-1]))
    if cut:
        res.add([finding("S-IGNORE", key2b, where(b, cut[0][0]), "taken refs are recorded (`%s`) inside a closure handed to `%s`, which stops as soon as it has its answer: of a selection of several UTxOs only a prefix is remembered, the rest stay selectable for later blocks" % (cut[0][2], cut[0][1]))])
    else:
        res.add([ok("S-IGNORE", key2b, where(b), "no growth of the taken refs inside a short-circuiting adaptor's closure")])
    # (d) one selector per resolution
    r = mir.inline_calls(F, F.body("tx3_resolver::inputs::resolve"), want=_RESOLVE_HELPERS, depth=2)
    cfg_r = mir.CFG(r)
    news = [bi for bi, t in mir.calls(r) if (t.get("callee") or "").endswith("InputSelector::<'a, S>::new")]
    loops = cfg_r.loops()
    key4 = "tx3_resolver::inputs::resolve|one selector per resolution"
    sel_calls = [bi for bi, t in mir.calls(r) if (t.get("callee") or "").endswith("InputSelector::<'a, S>::select")]
    in_loop = [n for n in news if any(n in body and any(s in body for s in sel_calls) for body in loops.values())]
    if len(news) == 1 and not in_loop and sel_calls:
        res.add([ok("S-IGNORE", key4, where(r), "InputSelector::new once, before the loop over find_queries")])
    else:
        res.add([finding("S-IGNORE", key4, where(r), "the selector (and its memory of taken UTxOs) is re-created per query (%d constructions, %d inside the loop)" % (len(news), len(in_loop)))])


def s_fabricate(F, res, FS=None):
    targets = [p for p in F.fns if re.search(r"CoinSelection>::(pick_single|pick_many)$", p) or p.endswith("select::find_first_excess_utxo")]
    if len(targets) < 3:
        raise BrokenCheck("coin-selection functions not found")
    UT = "tx3_tir::model::core::Utxo"
    for p in sorted(targets):
        f = F.fns[p]
        bad = []
        for b in with_closures(F, f):
            for bi, si, s in mir.stmts(b):
                if s["rv"]["k"] == "agg" and s["rv"].get("adt") == UT:
                    bad.append(s["line"])
            for bi, t in mir.calls(b):
                c = t.get("callee") or ""
                if "serde" in c or "from_reader" in c or "deserialize" in c:
                    bad.append(t["line"])
        key = "%s|returns only given UTxOs" % p
        if bad:
            res.add([finding("S-FABRICATE", key, where(f, bad[0]), "the selection strategy constructs a Utxo value itself")])
        else:
            res.add([ok("S-FABRICATE", key, where(f), "no Utxo aggregate, no decoding: results are clones of search-space elements")])
    res.count("selection functions", len(targets))


def nofilter(F, res):
    tbp = roles.builder_of(F, "tx3_cardano", "::TransactionBody")
    f = F.fns[roles.feeder_of(F, tbp, "::TransactionBody", "inputs")]
    bad = []
    for b in with_closures(F, f):
        for bi, t in mir.calls(b):
            c = t.get("callee") or ""
            n = c.split("::")[-1]
            if n in ("filter", "filter_map", "take", "skip", "dedup", "dedup_by_key", "step_by", "take_while", "skip_while") and ("Iterator" in c or "Vec" in c):
                bad.append(n)
    # ... nor does anything it calls inside the compiler crate collapse the refs through a container keyed by a part of the
    # reference (`BTreeMap<txid, index>`: two outputs of one transaction become one input)
    from ..common import keyed_collapses
    reach = [F.fns[p] for p in CallGraph(F, callbacks=False).reachable([f["path"]]) if F.fns[p]["crate"] == f["crate"] and not is_derive(F.fns[p])]
    for g in reach:
        for line, what in keyed_collapses(F, g):
            key2 = "%s|keyed collapse" % g["path"]
            res.add([finding("NOFILTER", key2, where(g, line), "on the way from the selected UTxOs into the body's inputs, %s: UTxOs that agree on that part become one input" % what)])
    res.count("functions between the selection and the body's inputs", len(reach))
    key = f["path"] + "|no filtering or de-duplication"
    if bad:
        res.add([finding("NOFILTER", key, where(f), "compile_inputs uses %s: selected UTxOs can be dropped or merged on the way into the body" % sorted(set(bad)))])
    else:
        res.add([ok("NOFILTER", key, where(f), "flat_map + map + collect only")])


def s_pools(F, res):
    """S-POOLS: the selector keeps two memories - what input blocks took and what backs the collateral - and keeps them apart (a
    UTxO may back the collateral and be spent as an input of the same transaction).  The collateral memory is whatever
    remembering field the collateral entry point grows (helpers inlined); every other remembering field belongs to the inputs.
    Nothing that derives from a *collateral* selection may be recorded in an input memory, and nothing from an input selection
    in the collateral memory: otherwise a block is refused (or offered) a UTxO because of what the other pool holds."""
    fields = excl_fields(F)
    col, inp = SELP + "select_collateral", SELP + "select_input"
    if col not in F.fns or inp not in F.fns or len(fields) < 2:
        res.add([assumption("S-POOLS", SEL + "|input and collateral memories are kept apart", "crates/tx3-resolver/src/inputs/select/mod.rs", "the two entry points / two remembering fields are not there under these names: not decided")])
        return
    AW = ("std::future::Future::poll", "std::pin::Pin::<Ptr>::new_unchecked", "std::future::IntoFuture::into_future", "<F as std::future::IntoFuture>::into_future", "std::ops::Try::branch")

    def grown_in(path):
        b = mir.inline_calls(F, F.body(path), want=_HELPERS_ALL, depth=2)
        return {a.field for a in accesses(F, b, fields) if a.kind == "grow"}
    k_fields = grown_in(col)
    if not k_fields:
        # the collateral entry point records nothing itself: then nothing tells the two pools apart here
        res.add([assumption("S-POOLS", SEL + "|input and collateral memories are kept apart", "crates/tx3-resolver/src/inputs/select/mod.rs", "select_collateral grows no remembering field itself: which field is the collateral memory is not decided")])
        return
    i_fields = set(fields) - k_fields
    bad = []
    n = 0
    for f0 in list(F.fns.values()):
        if f0["crate"] != "tx3_resolver" or not f0["path"].startswith(SELP) or f0.get("owner") or is_derive(f0):
            continue
        b = F.body(f0["path"])
        calls_col = any(call_matches(t, col) for _, t in mir.calls(b))
        calls_inp = any(call_matches(t, inp) for _, t in mir.calls(b))
        if not (calls_col or calls_inp):
            continue
        du = mir.DefUse(b)
        for a in accesses(F, b, fields):
            if a.kind != "grow" or a.data is None or a.via:
                continue
            n += 1
            srcs = set()
            for o in mir.provenance(b, du, a.data, transparent_extra=ITER_TRANSPARENT + AW):
                if o.kind == "call" and (o.callee or "").startswith(col):
                    srcs.add("collateral")
                elif o.kind == "call" and (o.callee or "").startswith(inp):
                    srcs.add("input")
            if a.field in i_fields and "collateral" in srcs:
                bad.append((b, a.line, "the refs of a collateral selection are recorded in `%s`, the memory input blocks are filtered against: a UTxO that only backs the collateral is withheld from the input blocks resolved after it (`%s` fails with InputNotResolved on a wallet the original resolves)" % (a.field, f0["path"].split("::")[-1])))
            if a.field in k_fields and "input" in srcs:
                bad.append((b, a.line, "the refs of an input selection are recorded in `%s`, the collateral memory: a UTxO spent as an input can no longer back the collateral" % a.field))
    key = SEL + "|input and collateral memories are kept apart"
    if bad:
        res.add([finding("S-POOLS", key, where(bad[0][0], bad[0][1]), bad[0][2])])
    else:
        res.add([ok("S-POOLS", key, "crates/tx3-resolver/src/inputs/select/mod.rs", "collateral memory = %s, input memory = %s; no recording across the two in the functions that dispatch to the entry points (%d growth site(s) looked at)" % ("/".join(sorted(k_fields)), "/".join(sorted(i_fields)), n))])


def run(ctx):
    F = ctx.F
    res = Result("C04")
    res.rule("S-POOLS", "what input blocks took and what backs the collateral are remembered apart: no recording across the two memories")
    res.rule("S-IGNORE", "the selector only ever grows its set of taken refs, records every selection before returning it, filters candidates through it, and lives for the whole resolution")
    res.rule("S-FABRICATE", "strategies return only UTxOs they were given")
    res.rule("I-DIAG", "colliding block names are rejected (duplicate-definition diagnostic raised)")
    res.rule("NOFILTER", "compile_inputs neither filters nor de-duplicates")
    s_ignore(F, res)
    s_pools(F, res)
    s_fabricate(F, res)
    c17.i_diag(F, res)
    nofilter(F, res)
    if ctx.tier == "thorough":
        F2 = ctx.facts("naive")
        r2 = Result("C04")
        s_fabricate(F2, r2)
        have = {o.key for o in res.obs}
        res.add([o for o in r2.obs if o.key not in have])
        from ..common import run_witnesses
        passed, failed, tail = run_witnesses()
        key = "witness crate|selector is private"
        if failed == 0 and passed >= 8:
            res.add([ok("S-IGNORE", key, "witness/src/lib.rs", "compile-fail witness: tx3_resolver::inputs::select is not nameable from outside (E0603); twin compiles")])
        else:
            res.add([finding("S-IGNORE", key, "witness/src/lib.rs", "a compile-fail witness no longer fails: %s" % tail[-300:])])
    return res
