"""C04 -- a transaction never spends one UTxO through two input blocks.

Static clauses (typestate: "a ref enters `ignore` before the selector is used again"):
  S-IGNORE    InputSelector.ignore is only ever extended (never cleared, removed from, replaced) after construction; in
              select_input every path to Ok(matched) passes the `extend` whose argument derives from `matched`; the refs handed to
              fetch_utxos come out of a `filter` whose closure consults `ignore.contains`; inputs::resolve builds exactly one
              selector, outside its loop over the queries
  S-FABRICATE the coin-selection strategies and find_first_excess_utxo never build a Utxo: everything they return is a clone /
              move of an element of the search space they were given
  I-DIAG      binding keys: blocks are bound under lower-cased names, so two input-like blocks whose keys collide must be
              rejected by the analyzer - the duplicate-definition diagnostic has to be raised somewhere
  NOFILTER    compile_inputs flattens the bound sets without de-duplicating or filtering adaptors
Not decided: that the store returns what it was asked for (trusted interface).
"""
import re

from .. import mir
from ..common import CallGraph, call_matches, is_derive, site_in_derive, with_closures
from ..engine import Result, ok, finding, assumption, where
from ..facts import BrokenCheck
from . import c17

META = {
    "level": "other",
    "explanation": (
        "Effect/typestate rules over MIR (pre-transform coroutine bodies for the async selector): who writes InputSelector.ignore "
        "and with which operations; dominance of the success return of select_input by the extend(matched) call; provenance of "
        "the candidate refs through a filter on ignore.contains; one selector per resolution; no Utxo aggregates in the "
        "strategies; the analyzer's duplicate diagnostic; no dedup/filter in compile_inputs. Together they are the reasons two "
        "blocks cannot receive the same UTxO, for every store and every combination of overlapping queries."),
    "trusted_base": ["rustc MIR (mir_built for async bodies), driver", "the UtxoStore returns only UTxOs whose refs were requested"],
    "not_decided": ["store behaviour"],
}

SEL = "tx3_resolver::inputs::select::InputSelector"
SELP = "tx3_resolver::inputs::select::InputSelector::<'a, S>::"


def bodies_of(F, path):
    """the body to reason about and its closures (async: the coroutine body and the closures inside it)"""
    b = F.body(path)
    out = [b]
    for c in F.fns.values():
        if c.get("owner") == path and c["path"] != b["path"]:
            out.append(c)
    return b, out


def s_ignore(F, res):
    # (a) who touches `ignore`
    allowed_mut = ("std::iter::Extend::extend",)
    reads = ("std::collections::HashSet::<T, S, A>::contains", "std::collections::HashSet::<T, S, A>::len", "std::collections::HashSet::<T, S, A>::iter")
    touched = []
    for f in list(F.fns.values()) + list(F.built.values()):
        if f["crate"] != "tx3_resolver" or is_derive(f):
            continue
        if f["path"] in F.built and f.get("stage") == "opt":
            continue   # use the pre-transform body of coroutines
        du = None
        for bi, si, s in mir.stmts(f):
            lhs = s["lhs"]
            if any(p[0] == "f" and p[1] == "ignore" and p[2] == SEL for p in lhs["p"]):
                touched.append((f, s["line"], "assignment"))
        for bi, t in mir.calls(f):
            if not t["args"]:
                continue
            du = du or mir.DefUse(f)
            for ai, a in enumerate(t["args"][:1]):
                pl = mir.op_place(a)
                if pl is None:
                    continue
                o = mir.provenance(f, du, a)
                if any(".ignore" in x.proj for x in o):
                    c = t.get("callee") or ""
                    if c in reads:
                        continue
                    # mutable borrow handed to a call
                    touched.append((f, t["line"], c))
    key = SEL + ".ignore|only ever extended"
    bad = [(f, line, c) for f, line, c in touched if c not in allowed_mut]
    w = "crates/tx3-resolver/src/inputs/select/mod.rs"
    ext = [(f, line, c) for f, line, c in touched if c in allowed_mut]
    if bad:
        f, line, c = bad[0]
        res.add([finding("S-IGNORE", key, where(f, line), "`ignore` is modified by `%s` in %s: already-taken UTxOs can become selectable again" % (c, f["path"].split("::")[-2]))])
    elif not ext:
        res.add([finding("S-IGNORE", key, w, "`ignore` is never extended: no block's selection is remembered")])
    else:
        res.add([ok("S-IGNORE", key, w, "written only by extend() in %s (and initialised in new)" % ", ".join(sorted({f["path"].split("::")[-2] for f, _, _ in ext})))])
    # (b) select_input: Ok(matched) dominated by extend(matched-derived)
    b, allb = bodies_of(F, SELP + "select_input")
    cfg = mir.CFG(b)
    du = mir.DefUse(b)
    oks = [(bi, s) for bi, si, s in mir.stmts(b) if s["lhs"]["l"] == 0 and not s["lhs"]["p"] and s["rv"]["k"] == "agg" and s["rv"].get("variant") == "Ok"]
    exts = [(bi, t) for bi, t in mir.calls(b) if (t.get("callee") or "") == "std::iter::Extend::extend" and any(".ignore" in x.proj for x in mir.provenance(b, du, t["args"][0]))]
    key2 = SELP + "select_input|success passes extend(matched)"
    if not oks:
        raise BrokenCheck("select_input has no Ok(..) return")
    good = bool(exts)
    why = ""
    for ob, s in oks:
        ret = {repr(x) for x in mir.provenance(b, du, s["rv"]["ops"][0])}
        dom = [e for e in exts if cfg.dominates(e[0], ob)]
        if not dom:
            good = False
            why = "a success return is reachable without recording the selection in `ignore`"
            continue
        # extend's argument derives from the returned set
        derived = False
        for eb, t in dom:
            src = mir.provenance(b, du, t["args"][1], transparent_extra=("std::iter::Iterator::map", "std::collections::HashSet::<T, S, A>::iter", "std::iter::Iterator::cloned"))
            if {repr(x) for x in src} & ret:
                derived = True
        if not derived:
            good = False
            why = "what is added to `ignore` is not derived from the set that is returned"
    if good:
        res.add([ok("S-IGNORE", key2, where(b), "every Ok(matched) is dominated by ignore.extend(matched.iter().map(|x| x.ref))")])
    else:
        res.add([finding("S-IGNORE", key2, where(b), why or "select_input never records its selection")])
    # (c) candidates are filtered through ignore.contains
    key3 = SELP + "select_input|candidates exclude ignored refs"
    fu = [(bi, t) for bi, t in mir.calls(b) if t.get("trait") == "tx3_resolver::UtxoStore" and t.get("method") == "fetch_utxos"]
    if not fu:
        raise BrokenCheck("select_input no longer calls fetch_utxos")
    good3 = True
    for bi, t in fu:
        src = mir.provenance(b, du, t["args"][1])
        coll = [x for x in src if x.kind == "call" and x.callee == "std::iter::Iterator::collect"]
        filt = []
        for x in coll:
            for y in mir.provenance(b, du, x.term["args"][0]):
                if y.kind == "call" and y.callee == "std::iter::Iterator::filter":
                    filt.append(y)
        consult = False
        for y in filt:
            for fr in y.term.get("fnrefs", ()):
                g = F.fns.get(fr)
                if g is None:
                    continue
                dg = mir.DefUse(g)
                for bj, t2 in mir.calls(g):
                    if (t2.get("callee") or "") == "std::collections::HashSet::<T, S, A>::contains":
                        consult = True
            # the closure must capture `ignore`
            cap = mir.provenance(b, du, y.term["args"][1])
            if not any(x.kind == "agg" and "closure" in x.rv and any(".ignore" in z.proj for o in x.rv["ops"] for z in mir.provenance(b, du, o)) for x in cap):
                consult = False
        if not (filt and consult):
            good3 = False
    if good3:
        res.add([ok("S-IGNORE", key3, where(b), "fetch_utxos(take(..).into_iter().filter(|x| !self.ignore.contains(x)).collect())")])
    else:
        res.add([finding("S-IGNORE", key3, where(b), "the refs handed to the store are not filtered through `ignore`: a UTxO taken by an earlier block can be offered again")])
    # (d) one selector per resolution
    r = F.body("tx3_resolver::inputs::resolve")
    cfg_r = mir.CFG(r)
    news = [bi for bi, t in mir.calls(r) if (t.get("callee") or "").endswith("InputSelector::<'a, S>::new")]
    loops = cfg_r.loops()
    key4 = "tx3_resolver::inputs::resolve|one selector per resolution"
    sel_calls = [bi for bi, t in mir.calls(r) if (t.get("callee") or "").endswith("InputSelector::<'a, S>::select")]
    in_loop = [n for n in news if any(n in body and any(s in body for s in sel_calls) for body in loops.values())]
    if len(news) == 1 and not in_loop and sel_calls:
        res.add([ok("S-IGNORE", key4, where(r), "InputSelector::new once, before the loop over find_queries")])
    else:
        res.add([finding("S-IGNORE", key4, where(r), "the selector (and its memory of taken UTxOs) is re-created per query (%d constructions, %d inside the loop)" % (len(news), len(in_loop)))])


def s_fabricate(F, res, FS=None):
    targets = [p for p in F.fns if re.search(r"CoinSelection>::(pick_single|pick_many)$", p) or p.endswith("select::find_first_excess_utxo")]
    if len(targets) < 3:
        raise BrokenCheck("coin-selection functions not found")
    UT = "tx3_tir::model::core::Utxo"
    for p in sorted(targets):
        f = F.fns[p]
        bad = []
        for b in with_closures(F, f):
            for bi, si, s in mir.stmts(b):
                if s["rv"]["k"] == "agg" and s["rv"].get("adt") == UT:
                    bad.append(s["line"])
            for bi, t in mir.calls(b):
                c = t.get("callee") or ""
                if "serde" in c or "from_reader" in c or "deserialize" in c:
                    bad.append(t["line"])
        key = "%s|returns only given UTxOs" % p
        if bad:
            res.add([finding("S-FABRICATE", key, where(f, bad[0]), "the selection strategy constructs a Utxo value itself")])
        else:
            res.add([ok("S-FABRICATE", key, where(f), "no Utxo aggregate, no decoding: results are clones of search-space elements")])
    res.count("selection functions", len(targets))


def nofilter(F, res):
    f = F.fn("tx3_cardano::compile::compile_inputs")
    bad = []
    for b in with_closures(F, f):
        for bi, t in mir.calls(b):
            c = t.get("callee") or ""
            n = c.split("::")[-1]
            if n in ("filter", "filter_map", "take", "skip", "dedup", "dedup_by_key", "step_by", "take_while", "skip_while") and ("Iterator" in c or "Vec" in c):
                bad.append(n)
    key = f["path"] + "|no filtering or de-duplication"
    if bad:
        res.add([finding("NOFILTER", key, where(f), "compile_inputs uses %s: selected UTxOs can be dropped or merged on the way into the body" % sorted(set(bad)))])
    else:
        res.add([ok("NOFILTER", key, where(f), "flat_map + map + collect only")])


def run(ctx):
    F = ctx.F
    res = Result("C04")
    res.rule("S-IGNORE", "the selector only ever grows its set of taken refs, records every selection before returning it, filters candidates through it, and lives for the whole resolution")
    res.rule("S-FABRICATE", "strategies return only UTxOs they were given")
    res.rule("I-DIAG", "colliding block names are rejected (duplicate-definition diagnostic raised)")
    res.rule("NOFILTER", "compile_inputs neither filters nor de-duplicates")
    s_ignore(F, res)
    s_fabricate(F, res)
    c17.i_diag(F, res)
    nofilter(F, res)
    if ctx.tier == "thorough":
        F2 = ctx.facts("naive")
        r2 = Result("C04")
        s_fabricate(F2, r2)
        have = {o.key for o in res.obs}
        res.add([o for o in r2.obs if o.key not in have])
        from ..common import run_witnesses
        passed, failed, tail = run_witnesses()
        key = "witness crate|selector is private"
        if failed == 0 and passed >= 8:
            res.add([ok("S-IGNORE", key, "witness/src/lib.rs", "compile-fail witness: tx3_resolver::inputs::select is not nameable from outside (E0603); twin compiles")])
        else:
            res.add([finding("S-IGNORE", key, "witness/src/lib.rs", "a compile-fail witness no longer fails: %s" % tail[-300:])])
    return res
