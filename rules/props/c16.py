"""C16 -- JSON arguments are coerced faithfully and safely at the service boundary.

Static clauses:
  PANIC     no undischarged panic site in the closure of interop::from_json, trp::parse_resolve_request and the envelope
            conversions (a request document can never panic the parser)
  F-FIELDUSE every field of ResolveParams (args, tir, env) is consulted by parse_resolve_request
  S-DECLARED an argument is inserted only for a key the template declares (control-dependent on params.get(&key) being Some)
             and is coerced with that declared type
  S-TYPES   from_json has a non-error arm for each scalar Type it documents (Int, Bool, Bytes, Address, UtxoRef, Undefined)
  S-ALLSUPPLIED every entry supplied under `args` / `env` reaches the per-key lookup: no filtering / truncating adaptor on the way
  NOFLOAT   no floating-point operation or cast in the closure of from_json (a JSON number never passes through f64)
  ENCODINGS each documented textual encoding is realised by its library primitive on the decoding path (Number::as_i128,
            i128 from_str_radix with radix 10, i128::from_be_bytes over a `[u8; 16]` obtained by try_from, hex::decode,
            base64 Engine::decode, bech32::decode, str::split_once + parse::<u32>), and no text-to-integer parse uses another radix
  (forms)   S-DECLARED knows the insert-under-lookup loop and the argument map *collected* from a walk over find_params(..);
            in the latter the walk may drop what was not supplied but passes no truncating adaptor (S-ALLSUPPLIED)
  S-ARGSWIN where `args` and `env` are merged (chain / extend) the explicit arguments come last: they win on a shared key
  S-BOOL    a JSON number becomes a boolean only by equality with 0 / 1: no `!=` / ordering test on a value read out of a Number
Not decided: that each decoder inverts its encoding (value-level); ENCODINGS decides which decoders are in use.
"""
import re

from .. import mir, e3_trav as e3
from ..common import CallGraph, table, call_matches, with_closures
from ..engine import Result, ok, finding, assumption, where
from ..facts import BrokenCheck
from . import c12

META = {
    "level": "other",
    "explanation": (
        "Panic-site inventory over the closure of from_json / parse_resolve_request / envelope conversions (every request "
        "document, envelope and IR payload at once), plus field-use, control-dependence and provenance rules on "
        "parse_resolve_request (every ResolveParams field consulted; insert only under `params.get(&key)` = Some; from_json "
        "called with the declared type) and an arm-coverage rule on from_json's match over Type."),
    "trusted_base": ["rustc MIR, driver", "serde_json / hex / base64 / bech32 decoders return Err rather than panic"],
    "not_decided": ["that each decoder inverts the documented textual encoding for every value (value-level round trip)"],
}

ROOTS = [
    "tx3_resolver::interop::from_json",
    "tx3_resolver::trp::parse_resolve_request",
]


def envelope_roots(F):
    """every conversion out of a TirEnvelope / BytesEnvelope (From or TryFrom impls), whatever its current form"""
    out = []
    for p, f in F.fns.items():
        if f["crate"] == "tx3_resolver" and f.get("impl_trait") in ("std::convert::From", "std::convert::TryFrom") and "Envelope>" in p and "::{closure" not in p:
            out.append(p)
    return sorted(out)

RP = "tx3_resolver::trp::spec::ResolveParams"
TYPE = "tx3_tir::model::core::Type"


def nofloat(F, res, cg, roots):
    """integers (up to 128 bits) and byte strings are decoded exactly: nothing in the workspace part of the decoding closure
    converts to or from floating point, computes with floats, or asks serde_json for the float view of a number"""
    from ..common import float_sites
    reach = cg.reachable(roots)
    sites = float_sites(F, reach, crates=("tx3_resolver",))
    key = "tx3_resolver::interop|no floating point in the decoding closure"
    if not sites:
        res.add([ok("NOFLOAT", key, "crates/tx3-resolver/src/interop.rs", "no float cast, float arithmetic or float view of a JSON number in %d functions" % len([p for p in reach if p.startswith("tx3_resolver")]))])
    for i, (f, line, what) in enumerate(sites):
        res.add([finding("NOFLOAT", "%s|%s" % (f["path"], what), where(f, line), "%s in %s: a JSON integer routed through a float is rounded to 53 significant bits, so the argument handed to the template is not the one the client sent" % (what, f["path"].split("::")[-1]))])


ENCODINGS = [
    # (what the property documents, library primitive that realises it, extra condition)
    ("integers: JSON numbers of any 128-bit size", "serde_json::Number::as_i128", None),
    # (`s.parse::<i128>()` is FromStr for i128 = from_str_radix(s, 10))
    ("integers: decimal strings", "core::num::<impl i128>::from_str_radix || core::str::<impl str>::parse|i128", "radix10"),
    ("integers: 0x-prefixed 16-byte big-endian hex (two's complement)", "core::num::<impl i128>::from_be_bytes", None),
    ("integers: the hex form is exactly 16 bytes", "std::convert::TryFrom::try_from|[u8; 16]", None),
    ("bytes / addresses: hex", "hex::decode", None),
    ("bytes: base64 envelopes", "base64::Engine::decode", None),
    ("addresses: bech32", "bech32::decode", None),
    # (any of the splitting primitives; an unbounded `split` must have its third segment looked at - see below)
    ("UTxO references: `txid#index`", "core::str::<impl str>::split_once || core::str::<impl str>::rsplit_once || core::str::<impl str>::split || core::str::<impl str>::splitn || core::str::<impl str>::rsplit || core::str::<impl str>::rsplitn", None),
    ("UTxO references: the index is a u32", "core::str::<impl str>::parse|u32", None),
]


def encodings(F, res, cg):
    """ENCODINGS: each textual encoding the property documents is realised by a specific library primitive on the decoding
    path (the closure of from_json inside tx3_resolver): the primitive must be there, and an integer may be parsed from text only
    in radix 10 (`from_str_radix(.., 16)` would read the hex form as sign-magnitude: every negative value is rejected or
    misread).  This decides that the documented decoders are the ones in use, not that they invert the encoding."""
    reach = [F.fns[p] for p in cg.reachable(["tx3_resolver::interop::from_json"]) if F.fns[p]["crate"] == "tx3_resolver"]
    calls = []
    for f in reach:
        du = None
        for bi, t in mir.calls(f):
            calls.append((f, t))
    for what, prims, cond in ENCODINGS:
        hits = []
        for prim in [x.strip() for x in prims.split("||")]:
            name, _, garg = prim.partition("|")
            hits += [(f, t) for f, t in calls if (t.get("callee") or "") == name and (not garg or garg in (t.get("gargs") or []))]
        name, _, garg = [x.strip() for x in prims.split("||")][0].partition("|")
        if not hits and not garg:
            # the primitive handed over as a function value (`.map(i128::from_be_bytes)`)
            for f, t in calls:
                vals = [c_.get("fn_resolved") or c_.get("fn") for c_ in (mir.op_const(a) for a in t["args"]) if c_ and "fn" in c_] + list(t.get("fnrefs") or [])
                if name in vals:
                    hits.append((f, t))
        key = "tx3_resolver::interop|%s" % what
        if not hits:
            res.add([finding("ENCODINGS", key, "crates/tx3-resolver/src/interop.rs", "%s: `%s` is no longer on the decoding path" % (what, name.split("::<")[0]))])
            continue
        res.add([ok("ENCODINGS", key, where(hits[0][0], hits[0][1]["line"]), "%s in %s" % (name.split("::")[-1], hits[0][0]["path"].split("::")[-1]))])
    # an unbounded split taken apart by hand: `txid#index` has exactly two segments, so besides the two `next()` that fetch
    # them something must look at the rest of the iterator (a third `next()`, `count`, `collect`, ..) - otherwise whatever
    # follows a second `#` is dropped and an ill-formed reference is accepted
    for f, t in calls:
        if (t.get("callee") or "") in ("core::str::<impl str>::split", "core::str::<impl str>::rsplit") and t.get("dest") is not None:
            users = []
            for bi2, t2 in mir.calls(f):
                if t2 is t:
                    continue
                tys = [f["locals"][pl["l"]] for pl in (mir.op_place(a) for a in t2["args"]) if pl is not None and not pl["p"]]
                if any("str::Split<" in ty or "str::RSplit<" in ty for ty in tys):
                    users.append((t2.get("callee") or "").split("::")[-1])
            key = "%s|every segment of the split is accounted for" % f["path"]
            if users and all(u == "next" for u in users) and len(users) <= 2:
                res.add([finding("ENCODINGS", key, where(f, t["line"]), "%s takes %d segment(s) of an unbounded `split` with `next()` and never looks at the rest of the iterator: text after a further separator is dropped, so an ill-formed `txid#index` value is accepted instead of rejected" % (f["path"].split("::")[-1], len(users)))])
            else:
                res.add([ok("ENCODINGS", key, where(f, t["line"]), "consumers of the split iterator: %s" % ", ".join(users[:6]))])
    # radix of every text-to-integer parse
    for f, t in calls:
        if (t.get("callee") or "").endswith("::from_str_radix") and len(t["args"]) > 1:
            c = mir.op_const(t["args"][1])
            rad = c.get("int") if c else None
            if rad is None:
                for o in mir.provenance(f, mir.DefUse(f), t["args"][1]):
                    if o.kind == "const" and "int" in o.const:
                        rad = o.const["int"]
            key = "%s|from_str_radix radix" % f["path"]
            if rad == 10:
                res.add([ok("ENCODINGS", key, where(f, t["line"]), "radix 10")])
            else:
                res.add([finding("ENCODINGS", key, where(f, t["line"]), "an integer is parsed from text in radix %s: the documented hex form is 16 big-endian bytes in two's complement, which a sign-magnitude parse does not invert (negative values are rejected or misread)" % rad)])


def field_use(F, res):
    from ..common import with_helpers
    f = with_helpers(F, "tx3_resolver::trp::parse_resolve_request")
    adt = F.adt(RP)
    read = set()
    for b in with_closures(F, f):
        for bi, si, s in mir.stmts(b):
            rv = s["rv"]
            pls = []
            if rv["k"] in ("use", "cast"):
                pl = mir.op_place(rv["op"])
                if pl is not None:
                    pls.append(pl)
            elif rv["k"] in ("ref", "rawptr", "discr"):
                pls.append(rv["pl"])
            elif rv["k"] == "agg":
                pls += [mir.op_place(o) for o in rv["ops"] if mir.op_place(o) is not None]
            for pl in pls:
                for p in pl["p"]:
                    if p[0] == "f" and p[2] == RP:
                        read.add(p[1])
        for bi, t in mir.calls(b):
            for a in t["args"]:
                pl = mir.op_place(a)
                if pl is not None:
                    for p in pl["p"]:
                        if p[0] == "f" and p[2] == RP:
                            read.add(p[1])
    w = where(f)
    for fd in adt["variants"][0]["fields"]:
        key = "%s|ResolveParams.%s" % (f["path"], fd["name"])
        if fd["name"] in read:
            res.add([ok("F-FIELDUSE", key, w, "field is read")])
        else:
            res.add([finding("F-FIELDUSE", key, w, "request field `%s` is never consulted by parse_resolve_request: values supplied there never reach the template" % fd["name"])])
    res.floor("ResolveParams fields", len(adt["variants"][0]["fields"]), 3)


LOOKUP_RE = re.compile(r"(BTreeMap|HashMap)::<K, V(, [A-Z])*>::(get|get_key_value|remove|remove_entry|get_mut)$")


def declared_only(F, res):
    from ..common import with_helpers
    f = with_helpers(F, "tx3_resolver::trp::parse_resolve_request")
    cfg = mir.CFG(f)
    du = mir.DefUse(f)
    w = where(f)
    inserts = [(bi, t) for bi, t in mir.calls(f) if (t.get("callee") or "").endswith("BTreeMap::<K, V, A>::insert")]
    # lookups of the key in the declared-parameter table, whatever accessor is used (whether the table may be *consumed* by the
    # lookup is C17's rule)
    gets = [(bi, t) for bi, t in mir.calls(f) if LOOKUP_RE.search(t.get("callee") or "")]
    fj = [(bi, t) for bi, t in mir.calls(f) if call_matches(t, "tx3_resolver::interop::from_json")]
    key = f["path"] + "|insert only for declared keys"
    if not inserts:
        return declared_only_collected(F, res, f)
    if not fj:
        raise BrokenCheck("parse_resolve_request: no ArgMap insert / from_json call found (anchor changed)")
    problems = []
    from ..e8_state import option_switch
    for ib, it in inserts:
        good = False
        for gb, gt in gets:
            dl = gt["dest"]["l"]
            for (sb, none_t, some_t) in option_switch(f, dl):
                if some_t is not None and cfg.dominates(some_t, ib) and (none_t is None or ib not in cfg.reach_from(none_t, avoid=[sb])):
                    good = True
        if not good:
            problems.append("an argument is inserted without the key having been found among the template's parameters")
    if problems:
        res.add([finding("S-DECLARED", key, w, "; ".join(sorted(set(problems))))])
    else:
        res.add([ok("S-DECLARED", key, w, "every ArgMap::insert is dominated by the Some edge of `params.get(&key)`")])
    key2 = f["path"] + "|coerced with the declared type"
    good2 = True
    why = []
    for fb, ft in fj:
        o = mir.provenance(f, du, ft["args"][1])
        if any(x.kind == "call" and LOOKUP_RE.search(x.callee) for x in o):
            why.append("type argument derives from params.get(&key)")
        else:
            good2 = False
            why.append("type argument: %r" % o)
    if good2:
        res.add([ok("S-DECLARED", key2, w, "; ".join(sorted(set(why))))])
    else:
        res.add([finding("S-DECLARED", key2, w, "from_json is not called with the type the template declares: " + "; ".join(why))])
    # find_params is what defines "declared"
    key3 = f["path"] + "|declared = find_params(tir)"
    fp = [bi for bi, t in mir.calls(f) if call_matches(t, "tx3_tir::reduce::find_params")]
    ok3 = False
    for gb, gt in gets:
        o = mir.provenance(f, du, gt["args"][0])
        if any(x.kind == "call" and x.callee == "tx3_tir::reduce::find_params" for x in o):
            ok3 = True
    if fp and ok3:
        res.add([ok("S-DECLARED", key3, w, "the map consulted is find_params(&tir)")])
    else:
        res.add([finding("S-DECLARED", key3, w, "the declared-parameter map is not find_params(&tir)")])


ARGMAP = "std::collections::BTreeMap<std::string::String, tx3_tir::reduce::ArgValue>"
ITER_ADAPTORS = tuple("std::iter::Iterator::" + n for n in (
    "map", "filter_map", "map_while", "flat_map", "flatten", "filter", "take", "skip", "take_while", "skip_while", "step_by", "inspect",
    "peekable", "rev", "cloned", "copied", "by_ref", "fuse", "scan", "chain")) + (
    "std::iter::IntoIterator::into_iter", "std::collections::BTreeMap::<K, V, A>::iter", "std::collections::BTreeMap::<K, V, A>::into_iter",
    "std::collections::HashMap::<K, V, S, A>::iter", "std::ops::Deref::deref", "std::ops::Try::branch")


def declared_only_collected(F, res, f):
    """S-DECLARED when the argument map is not filled by `insert` in the function's own loop but collected / folded from an
    iterator chain.  Two shapes: the chain walks the declared table (`find_params(..)`): its keys are declared by construction and
    the type handed to from_json is the walked entry's; or the chain walks the supplied entries and a `filter_map` / `flat_map`
    stage looks each key up in the declared table (dropping exactly the undeclared ones) and coerces with the type found.
    Anything else is reported as not decided.  Closures are read with the crate's helpers inlined."""
    from ..common import deep_bodies, outer_origins
    w = where(f)
    key = f["path"] + "|insert only for declared keys"
    key2 = f["path"] + "|coerced with the declared type"
    key3 = f["path"] + "|declared = find_params(tir)"
    deep = deep_bodies(F, "tx3_resolver::trp::parse_resolve_request")
    by_path = {b["path"]: b for b in deep}
    fj = [(b, t) for b in deep for bi, t in mir.calls(b) if call_matches(t, "tx3_resolver::interop::from_json")]
    if not fj:
        raise BrokenCheck("parse_resolve_request: no from_json call found (anchor changed)")
    f = deep[0]
    du = mir.DefUse(f)
    builds = []
    for bi, t in mir.calls(f):
        last = (t.get("callee") or "").split("::")[-1]
        dty = f["locals"][t["dest"]["l"]]
        if last in ("collect", "from_iter") and ARGMAP in dty and t["args"]:
            builds.append((t, t["args"][0]))
        elif last == "extend" and len(t["args"]) > 1 and mir.op_place(t["args"][0]) is not None and ARGMAP in f["locals"][mir.op_place(t["args"][0])["l"]]:
            builds.append((t, t["args"][1]))
        elif last in ("try_fold", "fold") and ARGMAP in dty and t["args"]:
            # `chain.try_fold(ArgMap::new(), |mut acc, item| { acc.insert(k, v); Ok(acc) })`
            builds.append((t, t["args"][0]))
    if not builds:
        raise BrokenCheck("parse_resolve_request: the argument map is neither filled by insert nor collected (anchor changed)")

    def lookups_in(c):
        """declared-table lookups made by closure c (helpers inlined) or the closures under it"""
        out = []
        st, seen = [c["path"]], set()
        while st:
            pth = st.pop()
            if pth in seen or pth not in by_path:
                continue
            seen.add(pth)
            cb = by_path[pth]
            for _, t2 in mir.calls(cb):
                if LOOKUP_RE.search(t2.get("callee") or "") and "tx3_tir::model::core::Type" in cb["locals"][t2["dest"]["l"]]:
                    out.append((cb, t2))
                st.extend(x for x in t2.get("fnrefs") or ())
        return out
    for t, src in builds:
        org = mir.provenance(f, du, src, transparent_extra=ITER_ADAPTORS)
        from_declared = bool(org) and all(o.kind == "call" and o.callee == "tx3_tir::reduce::find_params" for o in org)
        # the stages of the chain and their closures
        stage_closures = []
        st, seen = [src], set()
        while st:
            x = st.pop()
            pl = mir.op_place(x)
            if pl is None or pl["l"] in seen:
                continue
            seen.add(pl["l"])
            for d in du.defs.get(pl["l"], []):
                if d[0] == "call" and mir.is_transparent(d[3], ITER_ADAPTORS):
                    stage_closures += [(d[3], F.fns[c]) for c in d[3].get("fnrefs") or () if c in F.fns]
                    st.append(d[3]["args"][0])
                elif d[0] == "stmt" and d[3]["rv"]["k"] in ("use", "cast"):
                    st.append(d[3]["rv"]["op"])
        if from_declared:
            res.add([ok("S-DECLARED", key, where(f, t["line"]), "the argument map is collected from a walk over find_params(&tir): its keys are the declared ones")])
            res.add([ok("S-DECLARED", key3, w, "the table walked is find_params(&tir)")])
            good2, why = True, []
            for b, ft in fj:
                o = mir.provenance(b, mir.DefUse(b), ft["args"][1])
                if b["def_kind"] == "Closure" and o and all(x.kind == "arg" and x.local == 2 for x in o) and any(b["path"] == c["path"] for _, c in stage_closures):
                    why.append("type argument is the walked entry's")
                else:
                    good2 = False
                    why.append("type argument: %r" % o)
            if good2:
                res.add([ok("S-DECLARED", key2, w, "; ".join(sorted(set(why))))])
            else:
                res.add([finding("S-DECLARED", key2, w, "from_json is not called with the type the template declares: " + "; ".join(why))])
            continue
        looked = []
        for at, c in stage_closures:
            if (at.get("callee") or "").split("::")[-1] in ("filter_map", "flat_map"):
                looked += lookups_in(c)
        if not looked:
            res.add([assumption("S-DECLARED", key, where(f, t["line"]), "the argument map is collected from a chain whose shape is not recognised (neither a walk over the declared table nor a looked-up filter_map over the supplied entries): not decided")])
            continue
        res.add([ok("S-DECLARED", key, where(f, t["line"]), "the argument map is built from the supplied entries through a filter_map stage that looks the key up in the declared table and drops the entry when it is not there")])
        # the type handed to from_json is what the lookup found: from_json sits in the closure of an `Option::map` (or behind a
        # `?` / match) on the lookup's result
        good2, why = True, []
        for b, ft in fj:
            o = mir.provenance(b, mir.DefUse(b), ft["args"][1], transparent_extra=("std::ops::Try::branch",))
            if any(x.kind == "call" and LOOKUP_RE.search(x.callee) for x in o):
                why.append("type argument derives from the lookup")
                continue
            via_map = False
            if b["def_kind"] == "Closure" and o and all(x.kind == "arg" and x.local == 2 for x in o):
                for hb in deep:
                    dh = None
                    for _, t2 in mir.calls(hb):
                        if (t2.get("callee") or "") in ("std::option::Option::<T>::map", "std::option::Option::<T>::and_then", "std::option::Option::<T>::map_or", "std::option::Option::<T>::map_or_else") and b["path"] in (t2.get("fnrefs") or ()):
                            dh = dh or mir.DefUse(hb)
                            if any(x.kind == "call" and LOOKUP_RE.search(x.callee) for x in mir.provenance(hb, dh, t2["args"][0])):
                                via_map = True
            if via_map:
                why.append("type argument is the payload of the lookup's result (closure of Option::map on it)")
            else:
                good2 = False
                why.append("type argument: %r" % o)
        if good2:
            res.add([ok("S-DECLARED", key2, w, "; ".join(sorted(set(why))))])
        else:
            res.add([finding("S-DECLARED", key2, w, "from_json is not called with the type the template declares: " + "; ".join(why))])
        ok3 = False
        for cb, t2 in looked:
            for fn2, o in outer_origins(F, cb, t2["args"][0], depth=3):
                if o.kind == "call" and o.callee == "tx3_tir::reduce::find_params":
                    ok3 = True
        if ok3:
            res.add([ok("S-DECLARED", key3, w, "the map consulted is find_params(&tir)")])
        else:
            res.add([assumption("S-DECLARED", key3, w, "the table looked up inside the chain's closure could not be traced back to find_params (not decided)")])


def type_arms(F, res):
    f = F.fn("tx3_resolver::interop::from_json")
    adt = F.adt(TYPE)
    discr = {v["name"]: v["discr"] for v in adt["variants"]}
    arms = e3.variant_arms(f, self_local=2)
    w = where(f)
    if not arms or arms[0] != TYPE:
        raise BrokenCheck("from_json no longer matches on its target type")
    _, tmap, other = arms
    cfg = mir.CFG(f)
    err_blocks = [bi for bi, si, s in mir.stmts(f) if s["rv"]["k"] == "agg" and s["rv"].get("adt") == "tx3_resolver::interop::Error" and s["rv"]["variant"] == "TargetTypeNotSupported"]
    for v in ("Int", "Bool", "Bytes", "Address", "UtxoRef", "Undefined"):
        key = "%s|arm for Type::%s" % (f["path"], v)
        tb = tmap.get(discr[v])
        if tb is None or tb == other or any(cfg.dominates(tb, eb) for eb in err_blocks):
            res.add([finding("S-TYPES", key, w, "arguments declared `%s` are rejected as unsupported" % v)])
        else:
            res.add([ok("S-TYPES", key, w, "dedicated arm")])


DROPPING = ("filter", "filter_map", "take", "skip", "take_while", "skip_while", "map_while", "scan", "step_by", "take_if", "nth", "last", "find", "find_map",
            "retain", "truncate", "clear", "drain", "split_off", "pop_first", "pop_last", "remove")
# on a walk over the *declared* table, dropping an entry for which nothing was supplied is the point (filter_map / a lookup that
# consumes); cutting the walk short is not
TRUNCATING = ("take", "skip", "take_while", "skip_while", "map_while", "scan", "step_by", "nth", "last", "find", "find_map", "truncate", "clear",
              "drain", "split_off", "pop_first", "pop_last")


def _closure_looks_up(F, t):
    from ..common import deep_bodies
    by_path = {b["path"]: b for b in deep_bodies(F, "tx3_resolver::trp::parse_resolve_request")}
    st, seen = list(t.get("fnrefs") or ()), set()
    while st:
        pth = st.pop()
        if pth in seen or pth not in by_path:
            continue
        seen.add(pth)
        cb = by_path[pth]
        for _, t2 in mir.calls(cb):
            if LOOKUP_RE.search(t2.get("callee") or "") and "tx3_tir::model::core::Type" in cb["locals"][t2["dest"]["l"]]:
                return True
            st.extend(t2.get("fnrefs") or ())
    return False


def all_supplied(F, res):
    """S-ALLSUPPLIED: every entry the request supplies - under `args` and under `env` - reaches the loop that looks it up among
    the declared parameters: on the way from those fields of ResolveParams (helpers inlined) there is no filtering, truncating
    or conditional dropping adaptor (`Option::filter`, `Iterator::filter/take/skip..`, `retain`, `clear`, ..).  Whether an entry
    is *used* is then decided per key by S-DECLARED alone, never by counts or by what else the request contains."""
    from ..common import with_helpers
    f = with_helpers(F, "tx3_resolver::trp::parse_resolve_request")
    n = 0
    for b in with_closures(F, f):
        du = mir.DefUse(b)
        for bi, t in mir.calls(b):
            c = t.get("callee") or ""
            last = c.split("::")[-1]
            if last not in DROPPING or not t["args"] or not (c.startswith("std::") or c.startswith("core::") or c.startswith("alloc::")):
                continue
            flds = set()
            for o in mir.provenance(b, du, t["args"][0], transparent_extra=("std::iter::IntoIterator::into_iter", "std::iter::Iterator::flatten", "std::iter::Iterator::chain",
                                                                            "std::iter::Iterator::map", "std::option::Option::<T>::as_ref", "std::option::Option::<T>::as_mut",
                                                                            "std::ops::Deref::deref", "std::ops::DerefMut::deref_mut")):
                if o.kind == "arg":
                    for pr in o.proj:
                        if pr in (".args", ".env"):
                            flds.add(pr[1:])
            if not flds and last in TRUNCATING and any(
                    o.kind == "call" and o.callee == "tx3_tir::reduce::find_params"
                    for o in mir.provenance(b, du, t["args"][0], transparent_extra=ITER_ADAPTORS)):
                n += 1
                key = "tx3_resolver::trp::parse_resolve_request|the walk over the declared parameters passes through %s" % last
                res.add([finding("S-ALLSUPPLIED", key, where(b, t["line"]), "the walk over the template's declared parameters goes through `%s`: it can end before every declared parameter was matched with the supplied entries, so a supplied argument is dropped depending on which other arguments the request contains" % last)])
                continue
            if not flds:
                continue
            if last in ("filter_map", "flat_map") and _closure_looks_up(F, t):
                continue       # the stage that drops exactly the undeclared entries (S-DECLARED judges it)
            n += 1
            key = "tx3_resolver::trp::parse_resolve_request|request.%s passes through %s" % ("/".join(sorted(flds)), last)
            res.add([finding("S-ALLSUPPLIED", key, where(b, t["line"]), "entries supplied under `%s` go through `%s` before they are matched against the declared parameters: a declared argument can be dropped (or an ill-formed one go unnoticed) depending on what else the request contains" % ("/".join(sorted(flds)), last))])
    if n == 0:
        res.add([ok("S-ALLSUPPLIED", "tx3_resolver::trp::parse_resolve_request|every supplied entry reaches the lookup", where(F.fn("tx3_resolver::trp::parse_resolve_request")), "no filtering / truncating adaptor between request.args / request.env and the loop over the supplied entries")])


def precedence(F, res):
    """S-ARGSWIN: an explicit argument wins over an environment entry of the same key.  Where the two request fields are merged -
    `env.chain(args)` feeding inserts (a later insert overwrites), or `merged = env; merged.extend(args)` (extend overwrites) -
    the entries of `args` come last.  The reverse order silently replaces what the client passed by the environment's value.
    Another way of merging is reported as not decided."""
    from ..common import deep_bodies
    PASS = ("std::iter::IntoIterator::into_iter", "std::iter::Iterator::flatten", "std::option::Option::<T>::unwrap_or_default", "std::option::Option::<T>::unwrap_or",
            "std::option::Option::<T>::unwrap_or_else", "std::iter::Iterator::map", "std::option::Option::<T>::into_iter", "std::ops::Deref::deref", "std::ops::DerefMut::deref_mut")

    def src(b, du, op):
        out = set()
        for o in mir.provenance(b, du, op, transparent_extra=PASS):
            if o.kind == "arg":
                for pr in o.proj:
                    if pr in (".args", ".env"):
                        out.add(pr[1:])
        return out
    key = "tx3_resolver::trp::parse_resolve_request|explicit arguments are merged after the environment"
    seen = []
    for b in deep_bodies(F, "tx3_resolver::trp::parse_resolve_request"):
        du = mir.DefUse(b)
        for bi, t in mir.calls(b):
            c = t.get("callee") or ""
            if c in ("std::iter::Iterator::chain", "std::iter::Extend::extend") and len(t["args"]) > 1:
                first, second = src(b, du, t["args"][0]), src(b, du, t["args"][1])
                if first and second and first != second:
                    seen.append((b, t["line"], c.split("::")[-1], first, second))
    if not seen:
        res.add([assumption("S-ARGSWIN", key, where(F.fn("tx3_resolver::trp::parse_resolve_request")), "the way `args` and `env` are merged is not one of the recognised shapes (chain, extend): which of the two wins on a shared key is not decided")])
        return
    bad = [x for x in seen if x[3] == {"args"} and x[4] == {"env"}]
    if bad:
        b, line, how, _, _ = bad[0]
        res.add([finding("S-ARGSWIN", key, where(b, line), "`%s` puts the environment's entries after the explicit arguments: for a key present in both, the value the client passed is silently replaced by the environment's" % how)])
    else:
        res.add([ok("S-ARGSWIN", key, where(seen[0][0], seen[0][1]), "%s(env, args): a later entry overwrites an earlier one, so the explicit argument wins" % seen[0][2])])


NUM_READS = ("as_u64", "as_i64", "as_f64", "as_i128", "as_u128", "is_u64", "is_i64")


def bools(F, res):
    """S-BOOL: a JSON number becomes a boolean only by being *equal* to one of the two documented literals.  In the decoder of
    Bool arguments (by role: the functions of the interop module that return `Result<bool, _>`, helpers inlined, closures
    included) no inequality / ordering test (`!=`, `>`, `>=`, `<`, `<=`) is made on a value read out of a `serde_json::Number`
    (`as_u64()` ..): such a test reads the number as a truth value, and every number other than 0 and 1 is then *accepted*
    (as true or as false) where the property wants it rejected with an error."""
    from ..common import deep_bodies
    decs = [p for p, f in F.fns.items() if f["crate"] == "tx3_resolver" and p.startswith("tx3_resolver::interop::") and f["def_kind"] != "Closure"
            and not f.get("derived") and f["locals"] and f["locals"][0].startswith("std::result::Result<bool,")]
    res.count("Bool decoders", len(decs))
    if not decs:
        res.add([assumption("S-BOOL", "tx3_resolver::interop|Bool decoder", "crates/tx3-resolver/src/interop.rs", "no function of the interop module returns Result<bool, _>: the Bool decoder was not found by role (not decided)")])
        return
    for p in sorted(decs):
        bodies = deep_bodies(F, p)
        by_path = {b["path"]: b for b in bodies}
        bad = []
        for b in bodies:
            du = mir.DefUse(b)
            # closures handed to an Option adaptor whose receiver is a number read: their parameter is that number
            num_param = False
            for hb in bodies:
                dh = None
                for _, t2 in mir.calls(hb):
                    if b["path"] in (t2.get("fnrefs") or ()) and (t2.get("callee") or "").startswith("std::option::Option::<T>::") and t2["args"]:
                        dh = dh or mir.DefUse(hb)
                        if any(o.kind == "call" and (o.callee or "").split("::")[-1] in NUM_READS and "Number" in (o.callee or "") for o in mir.provenance(hb, dh, t2["args"][0])):
                            num_param = True
            for bi, si, st in mir.stmts(b):
                rv = st["rv"]
                if rv["k"] != "binop" or rv["op"] not in ("Ne", "Gt", "Ge", "Lt", "Le"):
                    continue
                for side in (rv["a"], rv["b"]):
                    for o in mir.provenance(b, du, side):
                        if (o.kind == "call" and (o.callee or "").split("::")[-1] in NUM_READS and "Number" in (o.callee or "")) or \
                                (num_param and o.kind == "arg" and o.local == 2 and b["def_kind"] == "Closure"):
                            bad.append((b, st["line"], rv["op"]))
        key = "%s|a number is a boolean only by equality with 0 / 1" % p
        if bad:
            b, line, op = bad[0]
            res.add([finding("S-BOOL", key, where(b, line), "the Bool decoder tests the integer value of a JSON number with `%s`: the number is read as a truth value, so numbers other than 0 and 1 are accepted as booleans instead of being rejected with an error" % {"Ne": "!=", "Gt": ">", "Ge": ">=", "Lt": "<", "Le": "<="}[op])])
        else:
            res.add([ok("S-BOOL", key, where(F.fns[p]), "no inequality / ordering test on a value read out of a serde_json::Number")])


def run(ctx):
    F = ctx.F
    res = Result("C16")
    res.rule("S-BOOL", "a JSON number becomes a boolean only by equality with the documented literals, never through a truthiness test")
    res.rule("PANIC", "no undischarged panic site in the closure of the request-parsing entry points")
    res.rule("F-FIELDUSE", "every field of ResolveParams is consulted by parse_resolve_request")
    res.rule("S-DECLARED", "arguments are inserted only for declared keys and coerced with the declared type")
    res.rule("ENCODINGS", "each documented textual encoding is realised by its library primitive on the decoding path; integers are parsed from text in radix 10 only")
    res.rule("NOFLOAT", "no value passes through floating point in the resolver's part of the decoding closure: a 128-bit integer argument does not survive a 53-bit mantissa")
    res.rule("S-TYPES", "from_json has a dedicated arm for each scalar type")
    cg = CallGraph(F)
    rows = table("e1_rows")["C16"]
    env_roots = envelope_roots(F)
    res.count("envelope conversions", len(env_roots))
    res.floor("envelope conversions", len(env_roots), 3)
    c12.panic_obligations(F, res, ROOTS + env_roots, rows, cg=cg)
    res.floor("functions in closure", res.analysed.get("functions in closure", 0), 25)
    field_use(F, res)
    declared_only(F, res)
    res.rule("S-ALLSUPPLIED", "every entry supplied under args / env reaches the per-key lookup (no filtering or truncation on the way)")
    all_supplied(F, res)
    type_arms(F, res)
    bools(F, res)
    res.rule("S-ARGSWIN", "where args and env are merged, the explicit arguments come last (they win on a shared key)")
    precedence(F, res)
    nofloat(F, res, cg, ROOTS + env_roots)
    encodings(F, res, cg)
    return res
