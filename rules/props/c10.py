"""C10 -- emitted transactions are well-formed, self-consistent and reproducible.

Static clauses:
  S-HASH    Compiler::compile takes `hash` and `payload` from the same compiled transaction value; in entry_point the
            script-data hash and the auxiliary-data hash are computed from the very witness set / auxiliary data later moved into
            the Tx, the latter through Option::map (present exactly when the data is present)
  S-PRUNE   no empty inner map is (re-)inserted into a multi-asset map: an insert of a map that a preceding call may have emptied
            is guarded by a non-emptiness test
  S-SETS    every Option<NonEmptySet<_>> field of the body / witness set is fed by NonEmptySet::from_vec; network_id is the
            configured network
  H-ITER    no order-dependent consumption of a RandomState hash container in the closure of Compiler::compile (the same
            reduced template must give byte-identical payloads in one process or two)
  S-LANG    each `plutus_vN_script` bucket gets the language id N-1 on the way to the LanguageView, and no min / max / sort runs
            over items that are still Options (an absent bucket must not win the selection of the hashed language)
  S-PRESENT (values)  `Value::Multiasset(coin, map)` is built only around a map known to hold an entry
Not decided: that a standard decoder accepts the bytes (pallas' encoder, a dependency), digest values.
"""
import re

from .. import mir, roles, e6_hash as e6
from ..common import CallGraph, table, call_matches, is_derive, site_in_derive, with_closures
from ..engine import Result, ok, finding, assumption, where
from ..facts import BrokenCheck

def _compile_body(F):
    """Compiler::compile with the crate's own helper functions (inherent methods it may have been split into) inlined"""
    f = F.fn("<tx3_cardano::Compiler as tx3_tir::compile::Compiler>::compile")
    return mir.inline_calls(F, f, want=_CARDANO_HELPERS, depth=2)


def _CARDANO_HELPERS(t, callee):
    # inherent helpers of the Compiler and small private functions next to it; the compile_* / ops::* functions that other
    # rules name stay calls
    if callee["crate"] != "tx3_cardano" or callee.get("impl_trait") or callee.get("trait_default"):
        return False
    p = callee["path"]
    if p.startswith("tx3_cardano::compile::") or p.startswith("tx3_cardano::ops::") or p.startswith("tx3_cardano::coercion::"):
        return False
    return len(callee["blocks"]) <= 200


_KEEP_ASM = []

META = {
    "level": "other",
    "explanation": (
        "Provenance and dominance rules on the assembly of the transaction (hash and payload from one value; hash fields from "
        "the values that are shipped; Option::map for presence-equivalence), a guard rule on map inserts that may re-introduce an "
        "emptied inner map, a feeding rule for non-empty-set fields, and the hash-iteration consumer classification (E6) over the "
        "compile closure. They hold for every reduced template, parameter set and network."),
    "trusted_base": ["rustc MIR, driver", "pallas' Conway encoder and ScriptData::build_for", "tables/e6_rows.json"],
    "not_decided": ["acceptance by a standard decoder", "digest values"],
}

CO = "tx3_cardano::compile::"


def s_hash(F, res):
    f = _compile_body(F)
    du = mir.DefUse(f)
    aggs = [(bi, s) for bi, si, s in mir.stmts(f) if s["rv"]["k"] == "agg" and s["rv"].get("adt") == "tx3_tir::compile::CompiledTx"]
    if not aggs:
        raise BrokenCheck("Compiler::compile no longer builds a CompiledTx")
    key = f["path"] + "|hash and payload from the same compiled transaction"
    good = True
    for bi, s in aggs:
        rv = s["rv"]
        ho = mir.provenance(f, du, rv["ops"][rv["fields"].index("hash")], transparent_extra=("std::slice::<impl [T]>::to_vec",))
        po = mir.provenance(f, du, rv["ops"][rv["fields"].index("payload")], transparent_extra=("std::result::Result::<T, E>::unwrap",))
        hc = [x for x in ho if x.kind == "call" and x.callee.endswith("::compute_hash")]
        pc = [x for x in po if x.kind == "call" and x.callee.endswith("minicbor::to_vec")]
        if not hc or not pc:
            good = False
            continue
        hroot = {repr(x).split(".")[0] for x in mir.provenance(f, du, hc[0].term["args"][0])}
        proot = {repr(x).split(".")[0] for x in mir.provenance(f, du, pc[0].term["args"][0])}
        if not (hroot & proot):
            good = False
        # the hashed part is the body
        if not any(".transaction_body" in x.proj for x in mir.provenance(f, du, hc[0].term["args"][0])):
            good = False
    if good:
        res.add([ok("S-HASH", key, where(f), "hash = compiled_tx.transaction_body.compute_hash(); payload = to_vec(&compiled_tx)")])
    else:
        res.add([finding("S-HASH", key, where(f), "the reported hash and the payload are not derived from one and the same compiled transaction")])
    e = F.fn(CO + "entry_point")
    txa = [(bi, s) for bi, si, s in mir.stmts(e) if s["rv"]["k"] == "agg" and s["rv"].get("adt", "").endswith("conway::Tx")]
    if not txa:
        # the assembly sits in helpers of the crate (`assemble_tx(body, witness_set, aux)`, `seal_body_hashes(&mut body, ..)`):
        # those that build the Tx or write the two hash fields are inlined; what computes the hashes stays a call
        def _asm(g, depth=0):
            if any((s_["rv"]["k"] == "agg" and s_["rv"].get("adt", "").endswith("conway::Tx")) or
                   any(p_[0] == "f" and p_[1] in ("script_data_hash", "auxiliary_data_hash") for p_ in s_["lhs"]["p"]) for _b, _i, s_ in mir.stmts(g)):
                return True
            return False

        def _want_asm(t, callee):
            return callee["crate"] == "tx3_cardano" and not callee.get("impl_trait") and len(callee["blocks"]) <= 200 and _asm(callee)
        _KEEP_ASM.append(_want_asm)
        e = mir.inline_calls(F, e, want=_want_asm, depth=2)
        txa = [(bi, s) for bi, si, s in mir.stmts(e) if s["rv"]["k"] == "agg" and s["rv"].get("adt", "").endswith("conway::Tx")]
    du2 = mir.DefUse(e)
    if not txa:
        raise BrokenCheck("entry_point no longer builds a Tx")
    rv = txa[0][1]["rv"]
    ws_root = {repr(x) for x in mir.provenance(e, du2, rv["ops"][rv["fields"].index("transaction_witness_set")], transparent_extra=())}
    ax_root = {repr(x) for x in mir.provenance(e, du2, rv["ops"][rv["fields"].index("auxiliary_data")], transparent_extra=("std::option::Option::<T>::map",))}
    for fld, fn_pat, roots, label in (
        ("script_data_hash", None, ws_root, "witness set"),
        ("auxiliary_data_hash", "Option::<T>::map", ax_root, "auxiliary data"),
    ):
        key = "%sentry_point|%s from the shipped %s" % (CO, fld, label)
        writes = [(bi, s) for bi, si, s in mir.stmts(e) if any(p[0] == "f" and p[1] == fld for p in s["lhs"]["p"])]
        good = bool(writes)
        for bi, s in writes:
            o = mir.provenance(e, du2, s["rv"]["op"]) if s["rv"]["k"] == "use" else []
            # fn_pat None: whichever function of the crate computes the field (free function or method, any parameter order)
            calls = [x for x in o if x.kind == "call" and ((fn_pat in x.callee) if fn_pat else (x.callee in F.fns and F.fns[x.callee]["crate"] == "tx3_cardano"))]
            if fn_pat and not calls:
                # the `.map(|aux| aux.compute_hash())` sits in a small helper of the crate (`auxiliary_data_hash(aux.as_ref())`):
                # the helper's own body must be that map over its parameter, and its argument here the shipped value
                for x in o:
                    h = F.fns.get(x.callee) if x.kind == "call" else None
                    if h is None or h["crate"] != "tx3_cardano" or len(h["blocks"]) > 40:
                        continue
                    dh = mir.DefUse(h)
                    inner = [y for y in mir.provenance(h, dh, {"l": 0, "p": []}) if y.kind == "call" and fn_pat in y.callee]
                    if inner and all(z.kind == "arg" for z in mir.provenance(h, dh, inner[0].term["args"][0], transparent_extra=("std::option::Option::<T>::as_ref",))) and \
                            any((t_.get("callee") or "").endswith("::compute_hash") for c_ in [h] + [g_ for g_ in F.fns.values() if g_.get("owner") == h["path"]] for _, t_ in mir.calls(c_)):
                        calls = [x]
            if not calls:
                good = False
                continue
            arg_roots = set()
            for a_ in (calls[0].term["args"] if fn_pat is None else calls[0].term["args"][:1]):
                r_ = {repr(x) for x in mir.provenance(e, du2, a_, transparent_extra=("std::option::Option::<T>::as_ref",))}
                arg_roots |= r_
                if fn_pat is None and not (r_ & roots):
                    # the hash is a function of the shipped witness set and the protocol parameters only: another input (the
                    # template, a flag) means the hash can be withheld or changed for a witness set that needs it
                    apl = mir.op_place(a_)
                    if apl is None or "PParams" not in e["locals"][apl["l"]]:
                        good = False
            if not (arg_roots & roots):
                good = False
        if good:
            res.add([ok("S-HASH", key, where(e), "assigned from a call on the same %s value that is moved into the Tx" % label)])
        else:
            res.add([finding("S-HASH", key, where(e), "%s is not computed from the %s that the transaction carries" % (fld, label))])


def s_prune(F, res):
    AM = CO + "asset_math::"
    n = 0
    for f in sorted((g for g in F.fns.values() if g["crate"] == "tx3_cardano" and not is_derive(g) and g["def_kind"] != "Closure"), key=lambda g: g["path"]):
        if not any((t.get("callee") or "").endswith("::insert") and "BTreeMap<" in " ".join((t.get("gargs") or [])[1:2]) for _, t in mir.calls(f)):
            continue
        cfg = mir.CFG(f)
        du = mir.DefUse(f)
        for bi, t in mir.calls(f):
            c = t.get("callee") or ""
            if not (c.endswith("BTreeMap::<K, V, A>::insert") or c.endswith("VacantEntry::<'a, K, V, A>::insert") or c.endswith("OccupiedEntry::<'a, K, V, A>::insert")):
                continue
            # is the inserted value a map (inner multi-asset map)?
            g = t.get("gargs") or []
            vty = g[1] if len(g) > 1 else ""
            if "BTreeMap<" not in vty:
                continue
            n += 1
            key = "%s|insert of an inner map" % f["path"]
            w = where(f, t["line"])
            # preceding call that may remove entries from that very map
            vo = {repr(x) for x in mir.provenance(f, du, t["args"][2] if len(t["args"]) > 2 else t["args"][1])}
            may_empty = False
            for bj, t2 in mir.calls(f):
                c2 = t2.get("resolved") or t2.get("callee") or ""
                if c2 in F.fns and F.fns[c2]["crate"] == "tx3_cardano" and cfg.dominates(bj, bi) and bj != bi:
                    callee = F.fns.get(c2)
                    if callee is not None and any((t3.get("callee") or "").endswith("::remove") for _, t3 in mir.calls(callee)):
                        ao = {repr(x) for a in t2["args"] for x in mir.provenance(f, du, a)}
                        if ao & vo:
                            may_empty = True
            if not may_empty:
                res.add([ok("S-PRUNE", key, w, "no preceding call can empty the inserted map")])
                continue
            guarded = False
            for bj, t2 in mir.calls(f):
                if (t2.get("callee") or "").endswith("::is_empty") and cfg.dominates(bj, bi):
                    go = {repr(x) for x in mir.provenance(f, du, t2["args"][0])}
                    if go & vo:
                        guarded = True
            if guarded:
                res.add([ok("S-PRUNE", key, w, "the insert is guarded by an is_empty() test on the map")])
            else:
                res.add([finding("S-PRUNE", key, w, "%s re-inserts an inner map that the preceding fold may have emptied (amounts that cancel): the body then carries `policy -> {}`" % f["path"].split("::")[-1])])
    res.count("inner-map inserts", n)
    res.floor("inner-map inserts", n, 1)


def s_present(F, res):
    """Presence-equivalence of optional collections: wherever the compiler wraps a map in `Some(..)` (mint, withdrawals ..) the
    map must be known to be non-empty at that point - the wrap sits on the non-empty edge of an `is_empty()` test of that map,
    or the map is the untouched payload of an Option that was produced under the same rule.  A map that was mutated after it
    came out of its Option (amounts folded in that may cancel) can be empty: the body then carries a present-but-empty field."""
    n = 0
    # helpers that only wrap a map they are handed (`fn post_alonzo_metadata(metadata) -> AuxiliaryData { .. metadata: Some(metadata) .. }`):
    # the emptiness test belongs to the caller, so the wrap is judged there, with the helper inlined
    from ..common import callers_index
    wrappers = set()
    for p in sorted(F.fns):
        f = F.fns[p]
        if f["crate"] != "tx3_cardano" or not p.startswith(CO) or f.get("derived") or f["def_kind"] == "Closure":
            continue
        dw = None
        for bi, si, s in mir.stmts(f):
            rv = s["rv"]
            if rv["k"] == "agg" and rv.get("variant") == "Some" and rv.get("adt", "").endswith("Option"):
                pl = mir.op_place(rv["ops"][0])
                if pl is not None and not pl["p"] and re.match(r"^std::collections::(BTreeMap|HashMap)<", f["locals"][pl["l"]]):
                    dw = dw or mir.DefUse(f)
                    org = mir.provenance(f, dw, rv["ops"][0])
                    if org and all(o.kind == "arg" and not o.proj for o in org) and callers_index(F).get(p) and len(f["blocks"]) <= 60:
                        wrappers.add(p)

    def want_w(t, callee):
        return callee["path"] in wrappers
    _KEEP_L.append(want_w)
    for p in sorted(F.fns):
        f = F.fns[p]
        if f["crate"] != "tx3_cardano" or not p.startswith(CO) or f.get("derived"):
            continue
        if wrappers and p not in wrappers and any((t.get("resolved") or t.get("callee")) in wrappers for _, t in mir.calls(f)):
            f = mir.inline_calls(F, f, want=want_w, depth=2)
        du = None
        cfg = None
        k = 0
        for bi, si, s in mir.stmts(f):
            rv = s["rv"]
            if not (rv["k"] == "agg" and rv.get("variant") == "Some" and rv.get("adt", "").endswith("Option")):
                continue
            pl = mir.op_place(rv["ops"][0])
            if pl is None or pl["p"]:
                continue
            ty = f["locals"][pl["l"]]
            if not re.match(r"^std::collections::(BTreeMap|HashMap)<", ty):
                continue
            if p in wrappers:
                o_w = mir.provenance(f, mir.DefUse(f), rv["ops"][0])
                if o_w and all(o.kind == "arg" and not o.proj for o in o_w):
                    continue       # judged in the callers
            n += 1
            k += 1
            du = du or mir.DefUse(f)
            cfg = cfg or mir.CFG(f)
            key = "%s|Some(map) #%d is non-empty" % (p, k)
            w = where(f, s["line"])
            # aliases of the wrapped map (moves)
            roots = {pl["l"]}
            for _ in range(4):
                for bj, sj, s2 in mir.stmts(f):
                    if s2["rv"]["k"] == "use" and not s2["lhs"]["p"]:
                        src = mir.op_place(s2["rv"]["op"])
                        if src is not None and not [q for q in src["p"] if q[0] == "d"] and (s2["lhs"]["l"] in roots) and not src["p"]:
                            roots.add(src["l"])
            # (a) on the non-empty edge of an is_empty() test of the same map
            guarded = False
            for bj, t in mir.calls(f):
                if not (t.get("callee") or "").endswith("::is_empty"):
                    continue
                rpl = [o for o in mir.provenance(f, du, t["args"][0]) if o.kind in ("local", "call", "arg")]
                recv = mir.op_place(t["args"][0])
                rroot = None
                for o in mir.provenance(f, du, t["args"][0]):
                    rroot = o
                same = any((o.kind == "local" and o.local in roots) for o in mir.provenance(f, du, t["args"][0])) or any(repr(o) in {repr(x) for r in roots for x in mir.provenance(f, du, {"l": r, "p": []})} for o in mir.provenance(f, du, t["args"][0]))
                if not same:
                    continue
                # the switch on its result
                tb = t.get("t")
                if tb is None:
                    continue
                sw = f["blocks"][tb]["t"] if f["blocks"][tb]["t"]["k"] == "switch" else None
                cur = tb
                hops = 0
                while sw is None and hops < 3 and f["blocks"][cur]["t"]["k"] == "goto":
                    cur = f["blocks"][cur]["t"]["t"]
                    sw = f["blocks"][cur]["t"] if f["blocks"][cur]["t"]["k"] == "switch" else None
                    hops += 1
                if sw is None:
                    continue
                false_t = dict((v, x) for v, x in sw["targets"]).get(0)
                if false_t is not None and (false_t == bi or cfg.dominates(false_t, bi)):
                    guarded = True
            # (a') ... or of a comparison of its len() with a literal (`map.len() == 0`, `map.len() > 0`, `>= 1`)
            if not guarded:
                for bj, t in mir.calls(f):
                    if not (t.get("callee") or "").endswith("::len") or not t["args"] or t["dest"]["p"]:
                        continue
                    same = any((o.kind == "local" and o.local in roots) for o in mir.provenance(f, du, t["args"][0])) or any(repr(o) in {repr(x) for r in roots for x in mir.provenance(f, du, {"l": r, "p": []})} for o in mir.provenance(f, du, t["args"][0]))
                    if not same:
                        continue
                    L = t["dest"]["l"]
                    for bk, sk, s3 in mir.stmts(f):
                        r3 = s3["rv"]
                        if r3["k"] != "binop" or r3["op"] not in ("Eq", "Ne", "Lt", "Le", "Gt", "Ge") or s3["lhs"]["p"]:
                            continue
                        pa, pb = mir.op_place(r3["a"]), mir.op_place(r3["b"])
                        ca, cb = mir.op_const(r3["a"]), mir.op_const(r3["b"])
                        if pa is not None and pa["l"] == L and cb is not None and "int" in cb:
                            fn_ = lambda n, c=cb["int"], op=r3["op"]: {"Eq": n == c, "Ne": n != c, "Lt": n < c, "Le": n <= c, "Gt": n > c, "Ge": n >= c}[op]
                        elif pb is not None and pb["l"] == L and ca is not None and "int" in ca:
                            fn_ = lambda n, c=ca["int"], op=r3["op"]: {"Eq": c == n, "Ne": c != n, "Lt": c < n, "Le": c <= n, "Gt": c > n, "Ge": c >= n}[op]
                        else:
                            continue
                        # the comparison separates "empty" from "not empty" exactly
                        if fn_(0) == fn_(1) or fn_(1) != fn_(2) or fn_(2) != fn_(10 ** 6):
                            continue
                        nonempty_val = 1 if fn_(1) else 0
                        swb = f["blocks"][bk]["t"]
                        cur, hops = bk, 0
                        while swb["k"] == "goto" and hops < 3:
                            cur = swb["t"]
                            swb = f["blocks"][cur]["t"]
                            hops += 1
                        if swb["k"] != "switch" or mir.op_place(swb["discr"]) is None or mir.op_place(swb["discr"])["l"] != s3["lhs"]["l"]:
                            continue
                        tg = dict((v, x) for v, x in swb["targets"])
                        edge = tg.get(nonempty_val, swb["otherwise"])
                        if edge is not None and (edge == bi or cfg.dominates(edge, bi)):
                            guarded = True
            if guarded:
                res.add([ok("S-PRESENT", key, w, "wrapped on the non-empty edge of an emptiness test of the map (`is_empty()` / `len()` against a literal)")])
                continue
            # (b) untouched payload of another Option
            from_some = False
            for r in roots:
                for d in du.defs.get(r, []):
                    if d[0] != "call" and d[3]["rv"]["k"] == "use":
                        src = mir.op_place(d[3]["rv"]["op"])
                        if src is not None and any(q[0] == "dc" or q[0] == "f" for q in src["p"]):
                            # moved out of an existing value (`Some(m)`, `Value::Multiasset(_, m)`, a field): it was built
                            # under this same rule wherever that value was built
                            from_some = True
            mutated = []
            for bj, sj, s2 in mir.stmts(f):
                if s2["rv"]["k"] == "ref" and s2["rv"].get("mut") and s2["rv"]["pl"]["l"] in roots:
                    mutated.append(s2["line"])
            if from_some and not mutated:
                res.add([ok("S-PRESENT", key, w, "the untouched payload of an existing value (built under the same rule)")])
            elif from_some:
                res.add([finding("S-PRESENT", key, where(f, mutated[0]), "the map is handed out as `&mut` (entries can be removed, e.g. amounts that cancel) after it came out of its Option and is then wrapped in `Some(..)` without an emptiness test: the field can be present but empty")])
            else:
                res.add([finding("S-PRESENT", key, w, "a map is wrapped in `Some(..)` without an emptiness test: the field can be present but empty")])
    res.count("Some(map) constructions", n)
    res.floor("Some(map) constructions", n, 2)


def s_sets(F, res):
    for fname, adt_suffix in (("compile_tx_body", "TransactionBody"), ("compile_witness_set", "WitnessSet")):
        f = F.fns[roles.builder_of(F, "tx3_cardano", "::" + adt_suffix)]
        du = mir.DefUse(f)
        aggs = [(bi, s) for bi, si, s in mir.stmts(f) if s["rv"]["k"] == "agg" and s["rv"].get("adt", "").endswith("::" + adt_suffix)]
        if not aggs:
            raise BrokenCheck("%s no longer builds a %s" % (fname, adt_suffix))
        rv = aggs[0][1]["rv"]
        # which fields are Option<NonEmptySet<..>>: from the local types of the operands
        for i, fld in enumerate(rv["fields"]):
            pl = mir.op_place(rv["ops"][i])
            ty = f["locals"][pl["l"]] if pl is not None else ""
            if "NonEmptySet<" not in ty:
                continue
            o = mir.provenance(f, du, rv["ops"][i])
            key = "%s%s|%s" % (CO, fname, fld)
            def via_from_vec(x, depth=0):
                if x.kind == "call" and x.callee.endswith("NonEmptySet::<T>::from_vec"):
                    return True
                if x.kind == "agg" and x.rv.get("variant") == "None":
                    return True
                if x.kind == "call" and x.callee in F.fns and depth < 2:
                    g = F.fns[x.callee]
                    dg = mir.DefUse(g)
                    rets = []
                    for y in mir.provenance(g, dg, {"l": 0, "p": []}):
                        if y.kind == "agg" and y.rv.get("variant") == "Ok" and y.rv.get("ops"):
                            rets += mir.provenance(g, dg, y.rv["ops"][0])
                        elif y.kind == "agg" and y.rv.get("variant") == "Err":
                            continue
                        elif y.kind == "call" and "from_residual" in (y.callee or ""):
                            continue
                        else:
                            # a helper that hands on `NonEmptySet::from_vec(..)` (or None) as it is
                            rets.append(y)
                    return bool(rets) and all(via_from_vec(y, depth + 1) for y in rets)
                return False
            if o and all(via_from_vec(x) for x in o):
                res.add([ok("S-SETS", key, where(f), "fed by NonEmptySet::from_vec (None when empty)")])
            else:
                res.add([finding("S-SETS", key, where(f), "set-like field `%s` is not built through NonEmptySet::from_vec: %r" % (fld, o))])
        if adt_suffix == "TransactionBody":
            i = rv["fields"].index("network_id")
            o = mir.provenance(f, du, rv["ops"][i])
            key = "%s%s|network_id" % (CO, fname)
            if any(x.kind == "agg" and x.rv.get("variant") == "Some" for x in o):
                inner = [y for x in o if x.kind == "agg" for y in mir.provenance(f, du, x.rv["ops"][0])]
                argl = [y.local for y in inner if y.kind == "arg"]
                if argl and len(argl) == len(inner):
                    # the body builder's network parameter (whichever position): the caller passes pparams.network there
                    # (every call of the body builder in the crate, wherever the assembly of the Tx was moved to)
                    sites_ = [(e, t) for e in F.fns.values() if e["crate"] == "tx3_cardano" for bi, t in mir.calls(e) if call_matches(t, f["path"])]
                    okk = bool(sites_)
                    for e, t in sites_:
                        du2 = mir.DefUse(e)
                        if not all(0 <= a_ - 1 < len(t["args"]) and any(".network" in z.proj for z in mir.provenance(e, du2, t["args"][a_ - 1])) for a_ in set(argl)):
                            okk = False
                    if okk:
                        res.add([ok("S-SETS", key, where(f), "network_id = Some(pparams.network)")])
                        continue
            res.add([finding("S-SETS", key, where(f), "network_id does not come from the configured network")])


def h_iter(F, res):
    e6.CURRENT_F = F
    cg = CallGraph(F, callbacks=False)
    roots = ["<tx3_cardano::Compiler as tx3_tir::compile::Compiler>::compile"]
    reach = cg.reachable(roots)
    rows = {r["key"]: r["reason"] for r in table("e6_rows")["iter"]}
    n = 0
    wrappers = set()
    for p, f in F.fns.items():
        if is_derive(f) or not f["crate"].startswith("tx3"):
            continue
        for bi, t in mir.calls(f):
            if e6.is_hash_iter(t) and t["dest"]["l"] == 0:
                wrappers.add(p)
    for p in sorted(reach):
        f = F.fns[p]
        if is_derive(f) or p in wrappers:
            continue
        for bi, t in mir.calls(f):
            h = e6.is_hash_iter(t)
            if not h and (t.get("resolved") in wrappers):
                h = "hash iterator returned by " + t["resolved"].split(" as ")[0].split("::")[-1]
            if not h or site_in_derive(t["exp"]):
                continue
            n += 1
            kind, why = e6.classify(f, bi)
            key = "%s|%s" % (p, h.split("::")[-1] if "::" in h else h)
            w = where(f, t["line"])
            if kind == "neutral":
                res.add([ok("H-ITER", key, w, why)])
            elif key in rows:
                res.add([ok("H-ITER", key, w, "D-TABLE: " + rows[key])])
            else:
                res.add([finding("H-ITER", key, w, "hash-container iteration with an order-dependent consumer (%s): the same template compiles to different bytes from one run to the next" % why)])
    # a generic helper that iterates "whatever it is given" (`fn refs_of<'a>(utxos: impl IntoIterator<Item = &'a Utxo>)`), called
    # with a hash container: the helper's body is read as instantiated at that call
    for p in sorted(reach):
        f = F.fns[p]
        if is_derive(f):
            continue
        for bi, t in mir.calls(f):
            h = F.fns.get(t.get("resolved") or t.get("callee") or "")
            if h is None or not h["crate"].startswith("tx3") or not h.get("generics") or not any(e6.HASH_TY.search(g_) for g_ in (t.get("gargs") or [])):
                continue
            sub = mir._generic_subst(h, t)
            if not sub:
                continue
            hb = mir.instantiate_body(F, h, sub)
            for bj, t2 in mir.calls(hb):
                hh = e6.is_hash_iter(t2)
                if not hh:
                    continue
                n += 1
                kind, why = e6.classify(hb, bj)
                key = "%s|%s (instantiated from %s)" % (h["path"], hh.split("::")[-1] if "::" in hh else hh, p.split("::")[-1])
                w = where(h, t2["line"])
                if kind == "neutral":
                    res.add([ok("H-ITER", key, w, why)])
                else:
                    res.add([finding("H-ITER", key, w, "hash-container iteration with an order-dependent consumer (%s): the same template compiles to different bytes from one run to the next" % why)])
    res.count("hash iteration sites in the compile closure", n)
    res.count("functions in the compile closure", len(reach))
    res.floor("functions in the compile closure", len(reach), 80)


def _nonempty(F, f, du, cfg, use_bb, op, depth=0):
    """is the map handed over at `use_bb` known to hold an entry?  (ok, why)"""
    MAPTY = re.compile(r"(BTreeMap|HashMap)<")
    org = mir.provenance(f, du, op, transparent_extra=("std::ops::Try::branch",))
    if not org:
        return False, "unknown origin"
    whys = []
    for o in org:
        if o.kind in ("arg", "local") and any(p_.startswith(" as Multiasset") or p_ == " as Some" for p_ in o.proj):
            whys.append("payload of an existing value")
            continue
        if o.kind == "call":
            c = o.callee or ""
            g = F.fns.get((o.term or {}).get("resolved") or c)
            if c.endswith("BTreeMap::<K, V>::new") or c.endswith("BTreeMap::<K, V, A>::new_in") or c.endswith("HashMap::<K, V>::new"):
                # a fresh map: some unconditional insert into it dominates the use
                m = o.term["dest"]["l"]
                okk = False
                for bi, t in mir.calls(f):
                    if (t.get("callee") or "").endswith("::insert") and t["args"] and cfg.dominates(bi, use_bb):
                        if any(x.kind == "call" and x.term is o.term for x in mir.provenance(f, du, t["args"][0], transparent_extra=("std::ops::DerefMut::deref_mut",))):
                            okk = True
                if okk:
                    whys.append("a fresh map with an insert on every path to here")
                    continue
                return False, "a fresh map into which nothing is inserted on every path (it can be empty)"
            if g is not None and g["crate"] == "tx3_cardano" and depth < 2:
                if " as Some" in o.proj and g["locals"][0].startswith("std::option::Option<") and MAPTY.search(g["locals"][0]):
                    whys.append("Some payload of %s (every `Some(map)` is judged by S-PRESENT)" % g["path"].split("::")[-1])
                    continue
                dg, cg = mir.DefUse(g), mir.CFG(g)
                rets = []
                for bj, sj, s2 in mir.stmts(g):
                    if s2["lhs"]["l"] == 0 and not s2["lhs"]["p"]:
                        r2 = s2["rv"]
                        if r2["k"] == "agg" and r2.get("variant") in ("Ok", "Some") and r2["ops"]:
                            rets.append((bj, r2["ops"][0]))
                        elif r2["k"] == "use" and MAPTY.search(g["locals"][0]) and not g["locals"][0].startswith(("std::result::Result<", "std::option::Option<")):
                            rets.append((bj, r2["op"]))
                # `fn compile_output_asset(ir) -> Result<Multiasset, _> { compile_native_asset(ir, |q| ..) }`: the result of another
                # function of the crate handed on as it is
                delegated = []
                for bj, t2 in mir.calls(g):
                    if t2["dest"]["l"] == 0 and not t2["dest"]["p"] and not (t2.get("callee") or "").endswith("::from_residual"):
                        h = F.fns.get(t2.get("resolved") or t2.get("callee") or "")
                        if h is not None and h["crate"] == "tx3_cardano" and h["path"] != g["path"]:
                            delegated.append(h)
                        else:
                            return False, "%s returns what `%s` yields" % (g["path"].split("::")[-1], (t2.get("callee") or "?").split("::")[-1])
                for h in delegated:
                    dh, ch = mir.DefUse(h), mir.CFG(h)
                    hrets = []
                    for bj, sj, s2 in mir.stmts(h):
                        if s2["lhs"]["l"] == 0 and not s2["lhs"]["p"] and s2["rv"]["k"] == "agg" and s2["rv"].get("variant") in ("Ok", "Some") and s2["rv"]["ops"]:
                            hrets.append((bj, s2["rv"]["ops"][0]))
                    if not hrets:
                        return False, "what %s returns could not be followed" % h["path"].split("::")[-1]
                    for bj, rop in hrets:
                        okk, why = _nonempty(F, h, dh, ch, bj, rop, depth + 1)
                        if not okk:
                            return False, "%s can return an empty map (%s)" % (h["path"].split("::")[-1], why)
                if delegated and not rets:
                    whys.append("every return of %s is a non-empty map" % "/".join(h["path"].split("::")[-1] for h in delegated))
                    continue
                if not rets:
                    return False, "what %s returns could not be followed" % g["path"].split("::")[-1]
                for bj, rop in rets:
                    okk, why = _nonempty(F, g, dg, cg, bj, rop, depth + 1)
                    if not okk:
                        return False, "%s can return an empty map (%s)" % (g["path"].split("::")[-1], why)
                whys.append("every return of %s is a non-empty map" % g["path"].split("::")[-1])
                continue
            if c.endswith("::from") and any(re.search(r"\[\(.*\); [1-9]\d*\]", x) for x in (o.term.get("gargs") or [])):
                whys.append("built from a non-empty array literal")
                continue
            return False, "it comes out of `%s`, which can yield an empty map" % c.split("::")[-1]
        return False, "origin %r" % o
    return True, "; ".join(sorted(set(whys)))


def s_value(F, res):
    """S-PRESENT for output values: `Value::Multiasset(coin, assets)` is built only around a map that is known to hold an entry -
    a fresh map with an insert on every path (the `asset!` form), the `Some` payload of an aggregation that answers `None` for
    "nothing left", the payload of an existing value, or what a function of the crate returns under the same rule.  A map out
    of `unwrap_or_default()`, `get_or_insert_with(BTreeMap::new)` or a fold that may see nothing puts `[coin, {}]` on the wire
    for an output whose native-asset quantity is zero."""
    n = 0
    for p, f in sorted(F.fns.items()):
        if f["crate"] != "tx3_cardano" or f.get("derived"):
            continue
        du = cfg = None
        k = 0
        for bi, si, s in mir.stmts(f):
            rv = s["rv"]
            if not (rv["k"] == "agg" and rv.get("variant") == "Multiasset" and rv.get("adt", "").endswith("Value") and len(rv["ops"]) == 2):
                continue
            n += 1
            k += 1
            du = du or mir.DefUse(f)
            cfg = cfg or mir.CFG(f)
            key = "%s|Value::Multiasset #%d carries a non-empty map" % (f.get("owner") or p, k)
            okk, why = _nonempty(F, f, du, cfg, bi, rv["ops"][1])
            if okk:
                res.add([ok("S-PRESENT", key, where(f, s["line"]), why)])
            else:
                res.add([finding("S-PRESENT", key, where(f, s["line"]), "a `Value::Multiasset` is built around a map that can be empty (%s): the output is encoded as `[coin, {}]` instead of plain `coin`" % why)])
    res.count("Value::Multiasset constructions", n)


def s_lang(F, res):
    """S-LANG: the script-data hash commits to the language view of a script kind the witness set *carries*.  In the function
    that builds the `LanguageView` (found by role, the crate's helpers inlined):
      (pairing) the language id attached to each `plutus_vN_script` bucket is N-1, whether it is returned under the bucket's
                `is_some()` test or produced by `bucket.as_ref().map(|_| id)`;
      (order)   no minimum / maximum is taken over items that are still `Option`s - `None` sorts before every `Some`, so an
                absent bucket would win the selection and the default language be hashed instead of the carried one.
    A shape outside the two recognised ones is reported as not decided."""
    cands = []
    for p, f0 in F.fns.items():
        if f0["crate"] != "tx3_cardano" or f0.get("derived") or f0["def_kind"] == "Closure":
            continue
        if any(st["rv"]["k"] == "agg" and st["rv"].get("adt", "").endswith("::LanguageView") for _, _, st in mir.stmts(f0)):
            cands.append(f0)
    if len(cands) != 1:
        raise BrokenCheck("expected one function of tx3_cardano that builds a LanguageView, found %d" % len(cands))

    def want(t, callee):
        return callee["crate"] == "tx3_cardano" and not callee.get("impl_trait") and not callee.get("trait_default") and len(callee["blocks"]) <= 120
    _KEEP_L.append(want)
    f = mir.inline_calls(F, cands[0], want=want, depth=2)
    du = mir.DefUse(f)
    cfg = mir.CFG(f)
    w = where(cands[0])
    FIELD = re.compile(r"^\.?plutus_v(\d)_script$")

    def bucket_of(op):
        for o in mir.provenance(f, du, op, transparent_extra=("std::option::Option::<T>::as_ref", "std::option::Option::<T>::as_deref")):
            for pr in o.proj:
                m = FIELD.match(pr)
                if m:
                    return int(m.group(1))
        return None
    # locals on the way to the LanguageView's id
    lv = [st for _, _, st in mir.stmts(f) if st["rv"]["k"] == "agg" and st["rv"].get("adt", "").endswith("::LanguageView")][0]
    back, stack = set(), []
    pl0 = mir.op_place(lv["rv"]["ops"][0])
    if pl0 is not None:
        stack.append(pl0["l"])
    while stack:
        l = stack.pop()
        if l in back:
            continue
        back.add(l)
        for d in du.defs.get(l, []):
            if d[0] == "stmt" and d[3]["rv"]["k"] in ("use", "cast"):
                p2 = mir.op_place(d[3]["rv"]["op"])
                if p2 is not None:
                    stack.append(p2["l"])
            elif d[0] == "call":
                for a in d[3]["args"][:1]:
                    p2 = mir.op_place(a)
                    if p2 is not None:
                        stack.append(p2["l"])
    pairs = {}      # bucket N -> set of ids
    # (1) `if ws.plutus_vN_script.is_some() { id }`
    tests = []
    for bi, t in mir.calls(f):
        if (t.get("callee") or "").endswith("Option::<T>::is_some") and t["args"]:
            n = bucket_of(t["args"][0])
            if n is None:
                continue
            sw = f["blocks"][t["t"]]["t"] if t.get("t") is not None else None
            if sw and sw["k"] == "switch":
                tm = dict((a, b) for a, b in sw["targets"])
                true_t = sw["otherwise"] if 0 in tm else tm.get(1)
                if true_t is not None:
                    tests.append((n, true_t))
    for bi, si, st in mir.stmts(f):
        rv = st["rv"]
        if rv["k"] == "use" and not st["lhs"]["p"] and st["lhs"]["l"] in back:
            c = mir.op_const(rv["op"])
            if c and "int" in c:
                doms = [(n, tt) for n, tt in tests if cfg.dominates(tt, bi)]
                # the innermost test whose true edge dominates the assignment
                inner = [x for x in doms if not any(y is not x and cfg.dominates(x[1], y[1]) for y in doms)]
                for n, tt in inner:
                    pairs.setdefault(n, set()).add(c["int"])
    # (2) `ws.plutus_vN_script.as_ref().map(|_| id)`
    for bi, t in mir.calls(f):
        if (t.get("callee") or "") == "std::option::Option::<T>::map" and t["args"]:
            n = bucket_of(t["args"][0])
            if n is None:
                continue
            for c in t.get("fnrefs") or ():
                g = F.fns.get(c)
                if g is None:
                    continue
                for _, _, st in mir.stmts(g):
                    if st["lhs"]["l"] == 0 and not st["lhs"]["p"] and st["rv"]["k"] == "use":
                        cc = mir.op_const(st["rv"]["op"])
                        if cc and "int" in cc:
                            pairs.setdefault(n, set()).add(cc["int"])
    key = cands[0]["path"] + "|language id of each script bucket"
    if not pairs:
        res.add([assumption("S-LANG", key, w, "the way the language id is derived from the witness set's script buckets is not one of the recognised shapes (is_some chain, as_ref().map(|_| id)): not decided")])
    else:
        bad = ["plutus_v%d_script -> %s" % (n, sorted(ids)) for n, ids in sorted(pairs.items()) if ids != {n - 1}]
        if bad:
            res.add([finding("S-LANG", key, w, "a script bucket is given another language's id (%s; the ledger's ids are v1 = 0, v2 = 1, v3 = 2): the hash commits to a cost model of a language the witness set does not carry" % "; ".join(bad))])
        else:
            res.add([ok("S-LANG", key, w, ", ".join("plutus_v%d_script -> %d" % (n, n - 1) for n in sorted(pairs)))])
    key2 = cands[0]["path"] + "|absent buckets take no part in an ordering"
    ordered = []
    for b in with_closures(F, f):
        for bi, t in mir.calls(b):
            c = t.get("callee") or ""
            last = c.split("::")[-1]
            dty = b["locals"][t["dest"]["l"]]
            if c.startswith("std::iter::Iterator::") and last in ("min", "max", "min_by_key", "max_by_key", "min_by", "max_by") and dty.startswith("std::option::Option<std::option::Option<"):
                ordered.append((b, t["line"], last))
            elif c in ("std::cmp::Ord::min", "std::cmp::Ord::max", "std::cmp::min", "std::cmp::max") and dty.startswith("std::option::Option<"):
                ordered.append((b, t["line"], last))
            elif last in ("sort", "sort_unstable") and any(g_.startswith("std::option::Option<") for g_ in (t.get("gargs") or [])[:1]):
                ordered.append((b, t["line"], last))
    if ordered:
        b, line, last = ordered[0]
        res.add([finding("S-LANG", key2, where(b, line), "`%s` is taken over items that are still Options: None orders before every Some, so as soon as one script bucket is absent the selection yields None and the default language is hashed instead of the one the witness set carries" % last)])
    else:
        res.add([ok("S-LANG", key2, w, "no min / max / sort over Option-typed items on the way to the LanguageView")])


_KEEP_L = []


def s_hashsrc(F, res):
    """script_data_hash is present exactly when redeemers are: the presence decision is the ledger library's
    (`ScriptData::build_for` answers None iff the witness set carries no redeemer and no datum).  So the function that calls it
    (crate helpers inlined) must hand back that answer - through `map` - on every exit: a `None` of its own making (a `?` on some
    other lookup, an early return) drops the hash of a transaction that has redeemers."""
    n = 0
    for p in sorted(F.fns):
        f0 = F.fns[p]
        if f0["crate"] != "tx3_cardano" or is_derive(f0) or "{closure" in p:
            continue
        if not any("ScriptData" in (t.get("callee") or "") and (t.get("callee") or "").endswith("build_for") for _, t in mir.calls(f0)):
            continue
        if not f0["locals"][0].startswith("std::option::Option<"):
            continue
        n += 1

        def want(t, callee):
            return callee["crate"] == "tx3_cardano" and len(callee["blocks"]) <= 80
        _KEEP_HS.append(want)
        f = mir.inline_calls(F, f0, want=want, depth=2)
        du = mir.DefUse(f)
        origins = mir.provenance(f, du, {"l": 0, "p": []}, transparent_extra=("std::option::Option::<T>::map",))
        key = "%s|the hash is absent only where build_for says so" % p
        other = [o for o in origins if not (o.kind == "call" and "ScriptData" in (o.callee or "") and (o.callee or "").endswith("build_for"))]
        if other and all(o.kind == "call" and (o.callee or "").endswith("::from_residual") for o in other):
            # a `?` is fine when what it tests is the redeemers of the witness set themselves (`witness_set.redeemer.as_ref()?`)
            br = [t for _, t in mir.calls(f) if (t.get("callee") or "").endswith("Try::branch")]
            def on_redeemers(t):
                os_ = mir.provenance(f, du, t["args"][0], transparent_extra=("std::option::Option::<T>::as_ref",))
                return bool(os_) and all(o.kind == "arg" and o.local == 1 and "redeemer" in "".join(str(x) for x in o.proj) for o in os_)
            if br and all(on_redeemers(t) for t in br):
                other = []
        if other:
            res.add([finding("S-PRESENT", key, where(f0), "%s returns a value that does not come from ScriptData::build_for (%s): the hash can be absent although the witness set carries redeemers (or present although it carries none)" % (p.split("::")[-1], ", ".join(sorted({repr(o) for o in other}))[:200]))])
        else:
            res.add([ok("S-PRESENT", key, where(f0), "every exit hands back build_for(..).map(hash)")])
    res.count("functions deciding the presence of script_data_hash", n)
    res.floor("functions deciding the presence of script_data_hash", n, 1)


_KEEP_HS = []


def run(ctx):
    F = ctx.F
    res = Result("C10")
    res.rule("S-LANG", "the language view hashed is that of a script kind the witness set carries (id per bucket; absence never ordered)")
    res.rule("S-HASH", "hash, payload and the two hash fields come from the values that are shipped")
    res.rule("S-PRUNE", "no emptied inner map is re-inserted")
    res.rule("S-PRESENT", "a map is wrapped in Some(..) only where it is known to be non-empty")
    res.rule("S-SETS", "set-like fields go through NonEmptySet::from_vec; network_id is the configured network")
    res.rule("H-ITER", "no order-dependent hash iteration in the compile closure")
    s_hash(F, res)
    s_prune(F, res)
    s_present(F, res)
    s_hashsrc(F, res)
    s_sets(F, res)
    s_value(F, res)
    s_lang(F, res)
    h_iter(F, res)
    return res
