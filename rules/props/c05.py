"""C05 -- the fee written in the body is the fee reported and covers the final size.

Static clauses:
  S-CONVERGE  resolve_tx returns Ok only from the round in which eval_pass reported that nothing changed (the None edge);
              eval_pass returns Ok(None) only when a previous evaluation was supplied and equals the new one
  S-FEEFLOW   the fee applied to the template in a round is the previous round's reported fee (or 0 in the first round); the
              fee reported by Compiler::compile is eval_size_fees of the very payload it returns; the body's fee field is the
              template's `fees` expression
  S-FEEVALUE  in Param::apply_fees the value put under ExpectFees is the fee argument itself (casts and constructors only: no
              arithmetic, no `max` / `min` / clamp / saturating / checked operation on the way)
  F-FIELDUSE  eval_size_fees consults min_fee_coefficient, min_fee_constant and the configured extra fees
  S-KIND      `fees` enters the template only through Param::apply_fees under the ExpectFees arm (shared with C06)
  (loop forms) S-CONVERGE / S-FEEFLOW understand two forms of the loop: the pass function is handed the previous evaluation and
              answers None (today), or it is handed the fee and returns the evaluation while resolve_tx compares - then an exit
              is a convergence exit on the *equal* edge of `eval.fee == fees` / `eval == best` where the compared variable is what
              the pass function was fed with and, inside the loop, only ever takes this round's evaluation
Not decided (runtime quantities): fee = a*|payload| + b + margin as a number; that convergence is reached for every setting.
"""
from .. import mir, roles, e8_state
from ..common import CallGraph, call_matches, is_trait_call, with_closures
from ..engine import Result, ok, finding, assumption, where
from ..facts import BrokenCheck
from . import c06

def _compile_body(F):
    """Compiler::compile with the crate's own helper functions (inherent methods it may have been split into) inlined"""
    f = F.fn("<tx3_cardano::Compiler as tx3_tir::compile::Compiler>::compile")
    return mir.inline_calls(F, f, want=_CARDANO_HELPERS, depth=2)


def _CARDANO_HELPERS(t, callee):
    # inherent helpers of the Compiler and small private functions next to it; the compile_* / ops::* functions that other
    # rules name stay calls
    if callee["crate"] != "tx3_cardano" or callee.get("impl_trait") or callee.get("trait_default"):
        return False
    p = callee["path"]
    if p.startswith("tx3_cardano::compile::") or p.startswith("tx3_cardano::ops::") or p.startswith("tx3_cardano::coercion::"):
        return False
    return len(callee["blocks"]) <= 200


META = {
    "level": "other",
    "explanation": (
        "CFG and provenance rules on the resolve loop and the fee plumbing: loop exits of resolve_tx classified against the "
        "convergence edge of eval_pass (pre-state-transform coroutine MIR), Ok(None) in eval_pass dominated by the comparison "
        "with the previous evaluation, provenance of the value handed to apply_fees, provenance of CompiledTx.fee/payload in "
        "Compiler::compile, provenance of the body's fee field, field-use of the fee parameters. These are the structural reasons "
        "why body fee = reported fee at a fixed point; they hold (or fail) for every template, store and parameter set."),
    "trusted_base": ["rustc MIR (mir_built for the async bodies), driver", "PartialEq on CompiledTx is derived (payload, hash, fee compared)"],
    "not_decided": ["the numeric value of the fee for a given payload (the FORMULA clause decides the shape of the computation: operators, operands, default margin)", "that the iteration converges within the bound for all parameter settings"],
}


def s_converge(F, res):
    f, exits = e8_state.resolve_loop_exits(F)
    w = where(f)
    n = 0
    for kind, line, detail in exits:
        n += 1
        key = "%s|loop exit (%s)" % ("tx3_resolver::resolve_tx", kind)
        if kind.startswith("unconverged"):
            res.add([finding("S-CONVERGE", key, where(f, line), "resolve_tx %s: the returned transaction's body carries the previous round's fee while the reported fee is the new one" % detail)])
        else:
            res.add([ok("S-CONVERGE", key, where(f, line), detail)])
    if not any(k == "converged" for k, _, _ in exits):
        res.add([finding("S-CONVERGE", "tx3_resolver::resolve_tx|no convergence exit", w, "the loop has no exit on a confirmed fixed point (the pass function answering None, or this round's evaluation / fee equal to what the round was computed with)")])
    good, reason, g = e8_state.eval_pass_first_round_is_some(F)
    key = "%s|Ok(None) only after comparing with the previous evaluation" % e8_state.resolver_roles(F)[1]
    # Ok(None) must also be on the equal edge of `eval != *last_eval`
    cmpcalls = [bi for b_ in [g] + [F.fns[st["rv"]["closure"]] for _, _, st in mir.stmts(g) if st["rv"]["k"] == "agg" and st["rv"].get("closure") in F.fns]
                for bi, t in mir.calls(b_) if (t.get("callee") or "") in ("std::cmp::PartialEq::ne", "std::cmp::PartialEq::eq") and "CompiledTx" in (t.get("resolved") or "") + " ".join(t.get("gargs") or [])]
    if good and e8_state.loop_form(F) == "value":
        res.add([ok("S-CONVERGE", key, where(g), reason)])
    elif good and cmpcalls:
        res.add([ok("S-CONVERGE", key, where(g), reason + "; the new evaluation is compared with the previous one")])
    elif good:
        res.add([finding("S-CONVERGE", key, where(g), "eval_pass no longer compares the new evaluation with the previous one before reporting convergence")])
    else:
        res.add([finding("S-CONVERGE", key, where(g), reason)])
    # CompiledTx equality is derived (compares fee and payload)
    imp = [i for i in F.impls if i.get("self") == "tx3_tir::compile::CompiledTx" and i.get("trait") == "std::cmp::PartialEq"]
    key2 = "tx3_tir::compile::CompiledTx|structural equality"
    if imp and imp[0]["derived"]:
        res.add([ok("S-CONVERGE", key2, "crates/tx3-tir/src/compile.rs", "PartialEq is derived: payload, hash, fee and ex_units all take part")])
    else:
        res.add([finding("S-CONVERGE", key2, "crates/tx3-tir/src/compile.rs", "CompiledTx equality is hand-written or missing: convergence may ignore the fee or the payload")])


def s_latest(F, res):
    """S-LATEST: an exit of the round loop that is not a confirmed fixed point (the give-up exit, a listed finding as such) at
    least returns the *latest* evaluation: the variable the function returns is assigned from this round's pass result before
    the test that gives up.  Testing the budget first and storing the candidate afterwards compiles the last round and throws
    it away - a sequence that settles exactly in the last round allowed then comes back as the round before it."""
    f, cfg, du, le, calls = e8_state.resolve_loop_facts(F)
    sites = e8_state.EXIT_SITES.get(id(F)) or []
    if not sites:
        return
    body = sites[0][1]
    in_loop_calls = [bi for bi, _ in calls if bi in body]
    if not in_loop_calls:
        return
    # locals on the way from the returned value back (moves, Some / Ok wrappers, unwrap, `?`)
    THROUGH = ("std::option::Option::<T>::unwrap", "std::ops::Try::branch", "std::option::Option::<T>::expect", "std::option::Option::<T>::take")
    P, st = set(), []
    for bi, si, s_ in mir.stmts(f):
        rv = s_["rv"]
        if s_["lhs"]["l"] == 0 and not s_["lhs"]["p"] and rv["k"] == "agg" and rv.get("variant") == "Ok" and rv.get("adt", "").endswith("::Result"):
            pl = mir.op_place(rv["ops"][0])
            if pl is not None:
                st.append(pl["l"])
    while st:
        l = st.pop()
        if l in P:
            continue
        P.add(l)
        for d in du.defs.get(l, []) + du.partial.get(l, []):
            if d[0] == "call":
                if (d[3].get("callee") or "") in THROUGH and d[3]["args"]:
                    pl = mir.op_place(d[3]["args"][0])
                    if pl is not None:
                        st.append(pl["l"])
                continue
            rv = d[3]["rv"]
            ops = [rv["op"]] if rv["k"] in ("use", "cast") else (rv["ops"] if rv["k"] == "agg" and rv.get("adt", "").split("::")[-1] in ("Option", "Result") else [])
            if rv["k"] == "ref":
                st.append(rv["pl"]["l"])
            for o in ops:
                pl = mir.op_place(o)
                if pl is not None:
                    st.append(pl["l"])
    # the carried variable: assigned inside the loop as well as outside of it
    W = set()
    for l in P:
        ds = du.defs.get(l, []) + du.partial.get(l, [])
        inb = [d for d in ds if d[1] in body]
        if inb and len(inb) < len(ds):
            W |= {d[1] for d in inb}
    if not W:
        return
    key = "tx3_resolver::resolve_tx|an exit without a confirmed fixed point returns the latest evaluation"
    stale = [u for u, _ in sites if not any(cfg.dominates(w, u) and any(cfg.dominates(c, w) for c in in_loop_calls) for w in W)]
    if stale:
        res.add([finding("S-LATEST", key, where(f, f["blocks"][stale[0]]["t"].get("line")),
                         "the loop gives up before it stores this round's evaluation: the last pass is compiled and thrown away, and the evaluation of the round before is returned")])
    else:
        res.add([ok("S-LATEST", key, where(f), "the returned variable is assigned from this round's pass before the test that gives up")])


_KEEP5 = []
ARITH_OPS = ("Add", "Sub", "Mul", "Div", "Rem", "AddWithOverflow", "SubWithOverflow", "MulWithOverflow", "Shl", "Shr", "BitAnd", "BitOr", "BitXor")


def s_feevalue(F, res):
    """S-FEEVALUE: the fee the resolver hands to `apply_fees` is what the template's `fees` becomes - unchanged.  In
    `<Param as Apply>::apply_fees` (helpers inlined) the value put into `Param::Set(..)` on the ExpectFees arm is reached from
    the `fees` parameter through casts, constructors and conversions only: no arithmetic and no clamping (`max`, `min`,
    `clamp`, `saturating_*`, `wrapping_*`, `checked_*`) on the way.  Otherwise the body's fee and the fee the compiler
    reports for it differ for some fee value although the loop converges."""
    from ..common import with_helpers
    path = "<tx3_tir::model::v1beta0::Param as tx3_tir::reduce::Apply>::apply_fees"
    if path not in F.fns:
        raise BrokenCheck("Param::apply_fees not found")
    f = with_helpers(F, path)
    du = mir.DefUse(f)
    key = path + "|ExpectFees becomes the fee argument itself"
    sets = [(bi, s) for bi, si, s in mir.stmts(f) if s["rv"]["k"] == "agg" and s["rv"].get("adt", "").endswith("::Param") and s["rv"].get("variant") == "Set"]
    if not sets:
        raise BrokenCheck("Param::apply_fees builds no Param::Set")
    seen, st = set(), []
    for bi, s in sets:
        for o in s["rv"]["ops"]:
            pl = mir.op_place(o)
            if pl is not None:
                st.append(pl["l"])
    reached = False
    trouble = []
    # stores through a projection (`(*box) = [..]`, `x.field = ..`) feed the base local as well
    # (pointers obtained from a box by casts - the `vec![..]` expansion - stand for the box)
    parent = {}

    def root(x):
        while parent.get(x, x) != x:
            x = parent[x]
        return x
    for bi, si, s2 in mir.stmts(f):
        rv2 = s2["rv"]
        if not s2["lhs"]["p"] and rv2["k"] in ("use", "cast"):
            pl2 = mir.op_place(rv2["op"])
            if pl2 is not None and "*" in f["locals"][s2["lhs"]["l"]] + f["locals"][pl2["l"]] or (pl2 is not None and "Box<" in f["locals"][pl2["l"]] and rv2["k"] == "cast"):
                parent[root(s2["lhs"]["l"])] = root(pl2["l"])
    stores = {}
    for bi, si, s2 in mir.stmts(f):
        if s2["lhs"]["p"]:
            stores.setdefault(root(s2["lhs"]["l"]), []).append(("stmt", bi, si, s2))
    while st:
        l = st.pop()
        if l in seen:
            continue
        seen.add(l)
        if l == 2:
            reached = True
            continue
        for d in list(du.defs.get(l, [])) + stores.get(root(l), []):
            if d[0] == "call":
                t = d[3]
                c = t.get("callee") or ""
                last = c.split("::")[-1]
                if last in ("max", "min", "clamp") or last.startswith(("saturating_", "wrapping_", "checked_", "overflowing_")):
                    trouble.append("`%s`" % last)
                ops = t["args"]
            else:
                rv = d[3]["rv"]
                if rv["k"] == "binop" and rv["op"] in ARITH_OPS:
                    trouble.append("`%s`" % rv["op"].replace("WithOverflow", ""))
                ops = [rv.get(k) for k in ("op", "a", "b") if isinstance(rv.get(k), dict)] + list(rv.get("ops") or [])
                if rv.get("pl") is not None:
                    ops.append({"cp": rv["pl"]})
            for o in ops:
                pl = mir.op_place(o)
                if pl is not None:
                    st.append(pl["l"])
    if not reached:
        res.add([finding("S-FEEVALUE", key, where(f), "the value substituted for the template's fees does not derive from the fee argument")])
    elif trouble:
        res.add([finding("S-FEEVALUE", key, where(f), "on its way into the template the fee argument passes %s: for some fee value the body carries another fee than the one the compiler reports" % ", ".join(sorted(set(trouble))))])
    else:
        res.add([ok("S-FEEVALUE", key, where(f), "Param::Set(.. fees as i128 ..): casts and constructors only")])


def reported_fee_clause(F, res, rule="S-FEEFLOW", why=None):
    """Compiler::compile: the fee it reports is the fee function of the very payload it returns - nothing else enters it (no
    clamp against the fee the body pays, no memory of earlier rounds).  Shared with C20: only then is the evaluation a function
    of the template and the configuration alone."""
    # Compiler::compile: fee = eval_size_fees(&payload ..) of the returned payload
    c = _compile_body(F)
    du2 = mir.DefUse(c)
    key2 = c["path"] + "|reported fee is computed from the returned payload"
    aggs = [(bi, s) for bi, si, s in mir.stmts(c) if s["rv"]["k"] == "agg" and s["rv"].get("adt") == "tx3_tir::compile::CompiledTx"]
    if not aggs:
        raise BrokenCheck("Compiler::compile no longer builds a CompiledTx")
    good2 = True
    for bi, s in aggs:
        rv = s["rv"]
        fee_op = rv["ops"][rv["fields"].index("fee")]
        pay_op = rv["ops"][rv["fields"].index("payload")]
        fo = mir.provenance(c, du2, fee_op)
        esf = [x for x in fo if x.kind == "call" and x.callee == fee_function(F)]
        if not esf or len(esf) != len(fo):
            good2 = False
            continue
        po = {repr(x) for x in mir.provenance(c, du2, pay_op, transparent_extra=("std::result::Result::<T, E>::unwrap",))}
        ao = {repr(x) for x in mir.provenance(c, du2, esf[0].term["args"][0], transparent_extra=("std::result::Result::<T, E>::unwrap",))}
        if not (po & ao):
            good2 = False
    if good2:
        res.add([ok(rule, key2, where(c), "CompiledTx { payload: p, fee: eval_size_fees(&p, ..) }")])
    else:
        res.add([finding(rule, key2, where(c), why or "the reported fee is not eval_size_fees of the payload that is returned")])


def s_feeflow(F, res):
    pfn = e8_state.resolver_roles(F)[1]
    g = e8_state.pass_body(F)
    du = mir.DefUse(g)
    af = [(bi, t) for bi, t in mir.calls(g) if call_matches(t, "tx3_tir::reduce::apply_fees") or is_trait_call(t, c06.APPLY, "apply_fees")]
    key = "%s|fee applied = previous reported fee" % pfn
    if not af:
        raise BrokenCheck("the pass function (%s, helpers inlined) no longer calls apply_fees" % pfn)
    good = True
    why = []
    for bi, t in af:
        o = mir.provenance(g, du, t["args"][1], transparent_extra=("std::option::Option::<T>::unwrap_or", "std::option::Option::<T>::map", "std::option::Option::<T>::as_ref", "std::option::Option::<T>::map_or", "std::option::Option::<T>::unwrap_or_default"))
        les = set(e8_state.typed_locals(g, e8_state.OPT_REF_CT))
        roots_ok = all((x.kind in ("local", "arg") and (x.local in les or x.local == 1)) or x.kind == "const" for x in o)
        # the closure handed to map reads `.fee` (or the fee is projected directly)
        reads_fee = False
        clos = set()
        for bj, sj, st in mir.stmts(g):
            if st["rv"]["k"] == "agg" and "closure" in st["rv"]:
                clos.add(st["rv"]["closure"])
        bodies = [g] + [F.fns[c] for c in clos if c in F.fns]
        for b in bodies:
            for bj, sj, s in mir.stmts(b):
                rv = s["rv"]
                pl = mir.op_place(rv.get("op")) if rv["k"] in ("use", "cast") else (rv.get("pl") if rv["k"] == "ref" else None)
                if pl is not None and any(p[0] == "f" and p[1] == "fee" and p[2] == "tx3_tir::compile::CompiledTx" for p in pl["p"]):
                    reads_fee = True
        if e8_state.loop_form(F) == "value":
            # the fee comes in as a parameter: every call of the pass function in the loop function hands over 0 or the fee of
            # an evaluation the pass function returned
            lf = e8_state.loop_body(F)
            ldu = mir.DefUse(lf)
            is_param = bool(o) and all(x.kind == "arg" and x.local == 1 and x.proj for x in o)
            fed_ok = True
            for cb, ct in [(cb, ct) for cb, ct in mir.calls(lf) if call_matches(ct, pfn)]:
                ints = [a for a in ct["args"] if (mir.op_const(a) or {}).get("ty") == "u64" or (mir.op_place(a) is not None and lf["locals"][mir.op_place(a)["l"]] == "u64")]
                if len(ints) != 1:
                    fed_ok = False
                    continue
                for x in mir.provenance(lf, ldu, ints[0], transparent_extra=e8_state.AWAIT):
                    if x.kind == "const" and x.const.get("int") == 0:
                        continue
                    if x.kind == "call" and (x.callee or "").startswith(pfn) and ".fee" in x.proj:
                        continue
                    if x.kind == "call" and x.callee in ("std::option::Option::<T>::map_or", "std::option::Option::<T>::map", "std::option::Option::<T>::unwrap_or") and x.term["args"]:
                        # `rounds.best.as_ref().map_or(0, |prev| prev.fee)`: the previous evaluation kept in a state struct (every
                        # write of that field is judged with the loop exits); default 0, the closure reads `.fee`
                        stf = e8_state._state_field(lf, ldu, x.term["args"][0])
                        dflt = [mir.op_const(a_) for a_ in x.term["args"][1:] if mir.op_const(a_) is not None and "int" in mir.op_const(a_)]
                        reads = any(any(q[0] == "f" and q[1] == "fee" and str(q[2]) == "tx3_tir::compile::CompiledTx" for q in (mir.op_place(y) or {"p": []})["p"])
                                    for c_ in x.term.get("fnrefs") or () if c_ in F.fns for _, _, s2 in mir.stmts(F.fns[c_]) for y in mir.all_operands_of_rv(s2["rv"]))
                        if stf and reads and all(d_.get("int") == 0 for d_ in dflt):
                            continue
                    fed_ok = False
            if is_param and fed_ok:
                why.append("apply_fees(attempt, fees) with fees = 0 | <evaluation returned by the pass function>.fee at every call")
            else:
                good = False
                why.append("the fee parameter of the pass function is not 0 / the fee of a returned evaluation at every call, or apply_fees is not given that parameter (%r)" % o)
        elif roots_ok and reads_fee:
            why.append("apply_fees(attempt, last_eval.map(|e| e.fee).unwrap_or(0))")
        else:
            good = False
            why.append("apply_fees argument derives from %r" % o)
    if good:
        res.add([ok("S-FEEFLOW", key, where(g), "; ".join(why))])
    else:
        res.add([finding("S-FEEFLOW", key, where(g), "the fee applied to the template is not the previous round's reported fee: " + "; ".join(why))])
    # the evaluation the resolver reports and compares is the compiler's own, untouched: the resolver never builds or edits a
    # CompiledTx (fee and payload stay the pair the compiler computed together)
    CT = "tx3_tir::compile::CompiledTx"
    key1 = "tx3_resolver|the reported evaluation is the compiler's, unmodified"
    edits = []
    for f in list(F.fns.values()) + list(F.built.values()):
        if f["crate"] != "tx3_resolver" or f.get("derived"):
            continue
        for bi, si, s in mir.stmts(f):
            rv = s["rv"]
            if rv["k"] == "agg" and rv.get("adt") == CT:
                edits.append((f, s["line"], "builds a CompiledTx of its own"))
            if any(p[0] == "f" and p[2] == CT for p in s["lhs"]["p"]):
                edits.append((f, s["line"], "assigns to CompiledTx.%s" % [p[1] for p in s["lhs"]["p"] if p[0] == "f" and p[2] == CT][0]))
    somes = []
    for bi, si, s in mir.stmts(g):
        rv = s["rv"]
        if rv["k"] == "agg" and rv.get("variant") == "Some" and "CompiledTx" in g["locals"][s["lhs"]["l"]]:
            somes.append((bi, s))
        elif rv["k"] == "agg" and rv.get("variant") == "Ok" and s["lhs"]["l"] == 0 and not s["lhs"]["p"] and g["locals"][0].startswith("std::result::Result<%s," % CT):
            # value form: the pass function returns the evaluation itself
            somes.append((bi, s))
    for bi, t in mir.calls(g):
        if (t.get("callee") or "").endswith("<impl bool>::then_some") and len(t["args"]) > 1 and "CompiledTx" in g["locals"][t["dest"]["l"]]:
            # `flag.then_some(eval)`: the Some payload is the second argument
            somes.append((bi, {"rv": {"ops": [t["args"][1]]}}))
    from_compile = True
    nsome = 0
    for bi, s in somes:
        nsome += 1
        o = mir.provenance(g, du, s["rv"]["ops"][0], transparent_extra=("std::ops::Try::branch",))
        # through a helper that returns Result<CompiledTx, Error> the error side shows up among the origins (an Error
        # aggregate, a from_residual): `?` has removed it before the value is used
        o = [x for x in o if not (x.kind == "call" and "from_residual" in (x.callee or "")) and not (x.kind == "agg" and (x.rv.get("adt") or "").endswith("::Error"))]
        if not o or not all(x.kind == "call" and x.term.get("trait") == "tx3_tir::compile::Compiler" and x.term.get("method") == "compile" for x in o):
            from_compile = False
    if edits:
        f, line, what = edits[0]
        res.add([finding("S-FEEFLOW", key1, where(f, line), "%s %s: the fee it reports need no longer be the fee computed from the payload it returns" % (f["path"].split("::")[-1] if not f.get("owner") else f["owner"].split("::")[-1], what))])
    elif not nsome:
        raise BrokenCheck("the pass function returns no Some(evaluation)")
    elif not from_compile:
        res.add([finding("S-FEEFLOW", key1, where(g), "an evaluation returned by eval_pass is not the direct result of Compiler::compile")])
    else:
        res.add([ok("S-FEEFLOW", key1, where(g), "no CompiledTx aggregate or field assignment in tx3_resolver; %d Some(eval) returns are compile()'s result" % nsome)])
    reported_fee_clause(F, res)
    # body fee = template fees
    b0 = F.fns[roles.builder_of(F, "tx3_cardano", "::TransactionBody")]

    def want_b(t_, callee):
        # the builder's own small helpers (`compile_fee(tx)`), not the coercions the rule names
        return callee["crate"] == "tx3_cardano" and not callee.get("impl_trait") and not callee.get("trait_default") and len(callee["blocks"]) <= 40 and "::coercion::" not in callee["path"]
    _KEEP5.append(want_b)
    b = mir.inline_calls(F, b0, want=want_b, depth=2)
    du3 = mir.DefUse(b)
    key3 = b0["path"] + "|body fee is the template's fees expression"
    good3 = False
    for bi, si, s in mir.stmts(b):
        rv = s["rv"]
        if rv["k"] == "agg" and rv.get("adt", "").endswith("TransactionBody") and "fee" in rv.get("fields", []):
            fo = mir.provenance(b, du3, rv["ops"][rv["fields"].index("fee")])
            for x in fo:
                if x.kind == "call" and x.callee == "tx3_cardano::coercion::expr_into_number":
                    ao = mir.provenance(b, du3, x.term["args"][0])
                    if any(y.kind == "arg" and ".fees" in y.proj for y in ao):
                        good3 = True
    if good3:
        res.add([ok("S-FEEFLOW", key3, where(b), "fee: expr_into_number(&tx.fees)")])
    else:
        res.add([finding("S-FEEFLOW", key3, where(b), "the body's fee field does not come from tx.fees")])


_FEEFN = {}
CLAMPING = ("std::cmp::Ord::max", "std::cmp::Ord::min", "std::cmp::Ord::clamp", "std::cmp::max", "std::cmp::min",
            "core::num::<impl u64>::saturating_add", "core::num::<impl u64>::saturating_sub", "core::num::<impl u64>::wrapping_add",
            "core::num::<impl u64>::checked_add", "std::option::Option::<T>::unwrap_or")


def fee_function(F):
    """the function whose result Compiler::compile reports as the fee: found by role (a tx3_cardano function called in
    compile - helpers inlined - whose result reaches CompiledTx.fee), whatever it is called"""
    if id(F) in _FEEFN:
        return _FEEFN[id(F)]
    c = _compile_body(F)
    du = mir.DefUse(c)
    cands = []
    for bi, si, st in mir.stmts(c):
        rv = st["rv"]
        if rv["k"] == "agg" and rv.get("adt") == "tx3_tir::compile::CompiledTx" and "fee" in rv.get("fields", []):
            # (found through clamps as well: whether anything but the function's result enters the fee is S-FEEFLOW's rule)
            for o in mir.provenance(c, du, rv["ops"][rv["fields"].index("fee")], transparent_extra=CLAMPING):
                if o.kind == "call" and o.callee in F.fns and F.fns[o.callee]["crate"] == "tx3_cardano":
                    cands.append(o.callee)
    if len(set(cands)) != 1:
        raise BrokenCheck("the reported fee is not the result of exactly one tx3_cardano function (found %r)" % sorted(set(cands)))
    _FEEFN[id(F)] = cands[0]
    return cands[0]


def formula(F, res):
    """FORMULA: the fee function returns  len(payload) * min_fee_coefficient + min_fee_constant + margin,  margin = the
    configured extra fee or, when none is configured, the crate's default margin (a non-zero constant).  Decided on the
    canonical symbolic form of the returned value (sums / products flattened and sorted, casts and overflow checks
    transparent): association, operand order, temporaries and helper extraction do not matter; a changed operator, a dropped or
    extra term, another field or another default do."""
    from .. import symexpr
    from ..common import with_helpers
    p = fee_function(F)
    f0 = F.fns[p]
    f = with_helpers(F, p)
    du = mir.DefUse(f)
    e = symexpr.expr_of(F, f, du, {"l": 0, "p": []})
    key = "%s|fee = a*len + b + margin" % p
    w = where(f0)
    default = None
    c = F.ctfe.get("tx3_cardano::DEFAULT_EXTRA_FEES")
    if c is not None:
        for bi, si, st in mir.stmts(c):
            cc = mir.op_const(st["rv"].get("op")) if st["rv"]["k"] == "use" else None
            if cc is not None and "int" in cc:
                default = cc["int"]
    problems = []
    if isinstance(e, tuple) and e[0] == "match_opt":
        # `match extra_fees { Some(extra) => A, None => B }`: A = a*len + b + extra, B = a*len + b + default
        def parts(x):
            terms = list(x[1]) if isinstance(x, tuple) and x[0] == "+" else [x]
            size = [t for t in terms if t[0] == "*" and len(t[1]) == 2 and any(y[0] == "len" for y in t[1]) and any(y[0] == "arg" and y[2][-1:] == ("min_fee_coefficient",) for y in t[1])]
            const = [t for t in terms if t[0] == "arg" and t[2][-1:] == ("min_fee_constant",)]
            rest = [t for t in terms if t not in size + const]
            return size, const, rest
        for arm, x in (("Some(extra)", e[2]), ("None", e[3])):
            size, const, rest = parts(x)
            if len(size) != 1:
                problems.append("the `%s` arm has no single term `len(payload) * min_fee_coefficient`" % arm)
            if len(const) != 1:
                problems.append("the `%s` arm has no single term `min_fee_constant` (the protocol's constant part of the minimum fee is dropped when %s)" % (arm, "a margin is configured" if arm.startswith("Some") else "no margin is configured"))
            if arm.startswith("Some"):
                if not (len(rest) == 1 and rest[0][0] == "arg" and "Option<u64>" in rest[0][1]):
                    problems.append("the `%s` arm does not add exactly the configured margin (%s)" % (arm, ", ".join(symexpr.show(t) for t in rest) or "nothing"))
            else:
                if not (len(rest) == 1 and (rest[0][0] == "c" and rest[0][1] != 0 and (default is None or rest[0][1] == default) or rest[0][0] == "const")):
                    problems.append("the `%s` arm does not add the default margin (%s)" % (arm, ", ".join(symexpr.show(t) for t in rest) or "nothing"))
        if problems:
            res.add([finding("FORMULA", key, w, "the fee function computes %s - %s" % (symexpr.show(e), "; ".join(problems)))])
        else:
            res.add([ok("FORMULA", key, w, "canonical form: %s" % symexpr.show(e))])
        return
    if not (isinstance(e, tuple) and e[0] == "+"):
        if isinstance(e, tuple) and e[0] == "?":
            res.add([assumption("FORMULA", key, w, "the fee expression is outside the recognised fragment (%s): not decided" % e[1])])
            return
        problems.append("the fee is not a sum: %s" % symexpr.show(e))
    else:
        terms = list(e[1])
        size_term = [t for t in terms if t[0] == "*" and len(t[1]) == 2 and any(x[0] == "len" for x in t[1])
                     and any(x[0] == "arg" and x[2][-1:] == ("min_fee_coefficient",) for x in t[1])]
        const_term = [t for t in terms if t[0] == "arg" and t[2][-1:] == ("min_fee_constant",)]
        margin = [t for t in terms if t[0] == "unwrap_or" and t[1][0] == "arg" and "Option<u64>" in t[1][1] or
                  (t[0] == "arg" and t[2][-1:] == ("extra_fees",))]
        rest = [t for t in terms if t not in size_term + const_term + margin]
        if len(size_term) != 1:
            problems.append("no single term `len(payload) * min_fee_coefficient`")
        if len(const_term) != 1:
            problems.append("no single term `min_fee_constant`")
        if len(margin) != 1:
            problems.append("no single margin term")
        elif margin[0][0] == "unwrap_or":
            dv = margin[0][2]
            if dv[0] != "c" or dv[1] == 0 or (default is not None and dv[1] != default):
                problems.append("when no margin is configured the fee function adds %s instead of the default margin%s" % (symexpr.show(dv), " %d" % default if default is not None else ""))
        if rest:
            problems.append("extra terms: %s" % ", ".join(symexpr.show(t) for t in rest))
    if problems:
        res.add([finding("FORMULA", key, w, "the fee function computes %s - %s" % (symexpr.show(e), "; ".join(problems)))])
    else:
        res.add([ok("FORMULA", key, w, "canonical form: %s" % symexpr.show(e))])


def f_fielduse(F, res):
    f = F.fn(fee_function(F))
    read = set()
    for bi, si, s in mir.stmts(f):
        rv = s["rv"]
        for o in mir.all_operands_of_rv(rv):
            pl = mir.op_place(o)
            if pl is not None:
                for p in pl["p"]:
                    if p[0] == "f" and p[2] == "tx3_cardano::PParams":
                        read.add(p[1])
    for fld in ("min_fee_coefficient", "min_fee_constant"):
        key = "tx3_cardano::ops::eval_size_fees|PParams.%s" % fld
        if fld in read:
            res.add([ok("F-FIELDUSE", key, where(f), "read")])
        else:
            res.add([finding("F-FIELDUSE", key, where(f), "the fee formula ignores %s" % fld)])
    # extra fees: third argument is used, and compile passes self.config.extra_fees
    used3 = any((mir.op_place(a) or {}).get("l") == 3 for bi, t in mir.calls(f) for a in t["args"]) or any(
        (mir.op_place(o) or {}).get("l") == 3 for bi, si, s in mir.stmts(f) for o in mir.all_operands_of_rv(s["rv"]))
    c = _compile_body(F)
    du = mir.DefUse(c)
    passes = False
    for bi, t in mir.calls(c):
        if (t.get("callee") or "") == fee_function(F) and len(t["args"]) > 2:
            o = mir.provenance(c, du, t["args"][2])
            if any(x.kind == "arg" and ".extra_fees" in x.proj for x in o):
                passes = True
    key = "tx3_cardano::ops::eval_size_fees|Config.extra_fees"
    if used3 and passes:
        res.add([ok("F-FIELDUSE", key, where(f), "compile passes self.config.extra_fees and eval_size_fees adds it")])
    else:
        res.add([finding("F-FIELDUSE", key, where(f), "the configured fee margin does not reach the fee formula")])


def run(ctx):
    F = ctx.F
    res = Result("C05")
    res.rule("S-CONVERGE", "resolve_tx returns Ok only on the convergence edge; eval_pass reports convergence only after comparing with the previous evaluation")
    res.rule("S-FEEFLOW", "applied fee = previous reported fee; reported fee = eval_size_fees(returned payload); body fee = tx.fees")
    res.rule("F-FIELDUSE", "the fee formula consults coefficient, constant and margin")
    res.rule("FORMULA", "the fee function's value is len * coefficient + constant + margin (configured, else the default), as a canonical symbolic form")
    res.rule("S-KIND", "fees are substituted only by Param::apply_fees under ExpectFees")
    s_converge(F, res)
    res.rule("S-LATEST", "an exit without a confirmed fixed point returns the latest evaluation, not the one before it")
    s_latest(F, res)
    s_feeflow(F, res)
    res.rule("S-FEEVALUE", "the fee argument reaches the template's `fees` unchanged (casts and constructors only)")
    s_feevalue(F, res)
    f_fielduse(F, res)
    formula(F, res)
    c06.s_kind(F, res)
    res.obs = [o for o in res.obs if o.rule != "S-SETCONST"]
    return res
