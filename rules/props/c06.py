"""C06 -- a template closes exactly when its reported parameters and queries are supplied.

Static clauses (DESIGN section 4, C06):
  T1       every family-typed field of every variant is visited by every traversal impl (Composite, explicit
           Apply impls, Node), and is never moved unchanged into the rebuilt value
  T1c      container / blanket impls recurse with the same trait method on their elements
  T2       Node impls other than Expression's recurse with Node::apply, never directly with Visitor::reduce
  S-KIND   Param::Set is produced by apply_X only under the arm of the parameter kind X substitutes
  S-SETCONST every Param::Set built anywhere wraps a constant constructor (premise of the Param::Set rows)
  S-GUARD  safe_apply_args returns MissingTxArg for an absent reported parameter before apply_args can run;
           resolve_tx applies arguments only through it
  T1c (tuples)  an impl of a traversal method on a tuple of IR nodes recurses with the method on every component (directly, or
           with the component put into a sequence that an adaptor walks with a closure calling the method)
  T1 (same substitution)  in apply_args / apply_inputs / apply_fees a child that reaches a traversal method reaches that very method
  F-NORM   parameter / input names put into the IR by the lowering are lower-cased
"""
from .. import mir, e3_trav as e3
from ..common import table, closures_of, with_closures, call_matches, is_trait_call, CallGraph, is_derive, site_in_derive
from ..engine import Result, ok, finding, assumption, where
from ..facts import BrokenCheck

META = {
    "level": "other",
    "explanation": (
        "Static traversal-completeness analysis over MIR (rustc_private driver): for each of the 16 Composite impls "
        "(components, try_map_components, reduce_nested), the explicit Apply impls (Param, Expression, Tx, AnyTir; seven "
        "methods each), the container/blanket Apply and Node impls and the 23 Node::apply impls, every field whose type can "
        "hold an Expression must be projected from self and passed to a call, and must not reach the rebuilt Self aggregate "
        "by a pure move (identity flow). Plus CFG rules S-KIND, S-SETCONST, S-GUARD and the provenance rule F-NORM. The "
        "obligation set is finite and covers all templates at once; each obligation is a necessary condition of C06 (an "
        "unvisited field is a position where a parameter is invisible to find_params / apply_*)."),
    "trusted_base": ["rustc nightly MIR construction (opt-level 0)", "mirfacts driver", "rules/e3_trav.py taint + CFG helpers",
                     "tables/e3_rows.json (reviewed exceptions)"],
    "not_decided": ["that reduction of a closed template succeeds (C14)", "nested queries inside a query are reported only with their parent"],
    "assumptions": ["UTxO data (core::Utxo.datum/script) handed in by the store is constant data, not template"],
}

EXPR = "tx3_tir::model::v1beta0::Expression"
PARAM = "tx3_tir::model::v1beta0::Param"
APPLY = "tx3_tir::reduce::Apply"
COMPOSITE = "tx3_tir::reduce::Composite"
NODE = "tx3_tir::Node"
VISITOR = "tx3_tir::Visitor"

SPECS = [
    (COMPOSITE, {"components": "ref", "try_map_components": "val", "reduce_nested": "val"}),
    (APPLY, {"apply_args": "val", "apply_inputs": "val", "apply_fees": "val", "reduce": "val",
             "is_constant": "ref", "params": "ref", "queries": "ref"}),
    (NODE, {"apply": "val"}),
]


def tir_family(F):
    fam = e3.compute_family(F, {EXPR}, "tx3_tir::model::v1beta0::")
    fam.add("tx3_tir::encoding::AnyTir")
    return fam


def rows_for(name):
    rows = {}
    for r in table("e3_rows")[name]:
        rows[(r["fn"], r["variant"], r["field"])] = r["reason"]
    return rows


def t1(F, res, only=None, rule="T1"):
    """`only` (a set of method names) restricts the rule to those traversals, reported under `rule` (C17 uses it for the
    traversals that report which keys the IR requires)"""
    fam = tir_family(F)
    rows = rows_for("tir")
    n_impl = 0
    counts = {}
    for tr, ms in SPECS:
        for f in F.fns.values():
            if f.get("impl_trait") == tr and f.get("name") in ms and (only is None or f["name"] in only):
                st = f["impl_self"]
                if st not in F.adts:
                    continue
                n_impl += 1
                counts[tr] = counts.get(tr, 0) + 1
                res.add(e3.check_impl_method(F, f, st, fam, ms[f["name"]], rule, rows,
                                             method_sem="is_constant" if f["name"] == "is_constant" else None,
                                             family_traits=(APPLY, COMPOSITE, NODE)))
    # T1 (same method): a substitution method hands each child on to the *same* substitution.  A child that flows into another
    # method of the traversal trait only (`x.reduce()?` in the `List` arm of apply_fees) is visited, but not substituted.
    if only is None:
        SUBST = ("apply_args", "apply_inputs", "apply_fees")
        for f in F.fns.values():
            if f.get("impl_trait") != APPLY or f.get("name") not in SUBST or f["impl_self"] not in F.adts:
                continue
            fi = mir.inline_calls(F, f, want=e3._helper_policy(f["crate"]), depth=2)
            flows, _ = e3.self_field_flows(fi, f["impl_self"])
            bad = []
            for (var, fld), fl in sorted(flows.items()):
                ms = {t.get("method") for t in fl.get("terms", []) if (t.get("trait") or "") == APPLY and t.get("method")}
                if ms and f["name"] not in ms and not fl.get("closure"):
                    bad.append("%s.%s flows into %s only" % (var or f["impl_self"].split("::")[-1], fld, "/".join(sorted(ms))))
            key = "%s|children are handed to the same substitution" % f["path"]
            if bad:
                res.add([finding(rule, key, where(f), "%s::%s: %s - the child is traversed by another method, so what `%s` substitutes is left in place there (the template stays open after every reported input was supplied)" % (
                    f["impl_self"].split("::")[-1], f["name"], "; ".join(bad), f["name"]))])
            else:
                res.add([ok(rule, key, where(f), "every child that reaches a traversal method reaches %s" % f["name"])])
    res.count("traversal impl methods", n_impl)
    if only is not None:
        return n_impl
    res.floor("Composite impl methods on ADTs", counts.get(COMPOSITE, 0), 33)
    res.floor("explicit Apply impl methods on ADTs", counts.get(APPLY, 0), 28)
    res.floor("Node impl methods on ADTs", counts.get(NODE, 0), 18)
    res.floor("IR family types", len(fam), 20)


def t1c(F, res):
    """container / blanket impls"""
    n = 0
    for tr, ms in SPECS[1:]:
        for f in list(F.fns.values()):
            if f.get("impl_trait") != tr or f.get("name") not in ms:
                continue
            st = f["impl_self"]
            if st in F.adts:
                continue
            n += 1
            key = "%s" % f["path"]
            bodies = with_closures(F, f)
            m = f["name"]
            recursive = False
            via_composite = False
            direct_reduce = False
            for b in bodies:
                for bi, t in mir.calls(b):
                    if is_trait_call(t, tr, m):
                        recursive = True
                    # the method handed over as a function value: `.all(Apply::is_constant)`, `merge(parts, Apply::params)`
                    for a in t["args"]:
                        c_ = mir.op_const(a)
                        if c_ and "fn" in c_ and (c_["fn"] == "%s::%s" % (tr, m) or (c_.get("fn_resolved") or "").endswith(" as %s>::%s" % (tr, m))):
                            recursive = True
                    if is_trait_call(t, COMPOSITE):
                        via_composite = True
                    if is_trait_call(t, VISITOR, "reduce"):
                        direct_reduce = True
            # self must flow into a call (not returned unchanged)
            flows, whole = e3.self_field_flows(f, "__none__")
            w = where(f)
            if st == "T" and tr == APPLY:
                # blanket impl over Composite: goes through components / try_map_components / reduce_nested and the
                # mapper closure recurses with the same method on Expression
                need = {"apply_args": "try_map_components", "apply_inputs": "try_map_components", "apply_fees": "try_map_components",
                        "is_constant": "components", "params": "components", "queries": "components", "reduce": "reduce_nested"}[m]
                has = any(is_trait_call(t, COMPOSITE, need) for b in bodies for _, t in mir.calls(b))
                if m == "reduce":
                    # default reduce_nested must map with Expression::reduce
                    dflt = F.fns.get("tx3_tir::reduce::Composite::reduce_nested")
                    if dflt is None:
                        raise BrokenCheck("default Composite::reduce_nested not found")
                    inner = any(is_trait_call(t, APPLY, "reduce") for b in with_closures(F, dflt) for _, t in mir.calls(b))
                    thru = any(is_trait_call(t, COMPOSITE, "try_map_components") for _, t in mir.calls(dflt))
                    if has and inner and thru:
                        res.add([ok("T1c", key, w, "reduce -> reduce_nested -> try_map_components(|x| x.reduce())")])
                    else:
                        res.add([finding("T1c", key, w, "blanket reduce does not map Expression::reduce over the components")])
                    continue
                if has and recursive:
                    res.add([ok("T1c", key, w, "%s over Composite::%s" % (m, need))])
                else:
                    res.add([finding("T1c", key, w, "blanket impl<T: Composite> Apply::%s does not recurse with %s over Composite::%s" % (m, m, need))])
                continue
            if st.startswith("(") and st.endswith(")") and not whole:
                # a tuple of IR nodes (`impl Apply for (Expression, Expression)`): every component recurses with the method
                from .c08 import split_tuple
                comps = split_tuple(st[1:-1])
                tflows, _ = e3.self_field_flows(f, "tuple")
                def _via_adaptor(fl):
                    # the component is put into a sequence that an adaptor walks with a closure (or the method itself as a
                    # function value) calling the method on each element: `[&self.0, &self.1].iter().all(|x| x.is_constant())`
                    for t_ in (fl or {}).get("terms", ()):
                        for fr in t_.get("fnrefs") or ():
                            h = F.fns.get(fr)
                            if h is not None and any(is_trait_call(t2, tr, m) for b2 in with_closures(F, h) for _, t2 in mir.calls(b2)):
                                return True
                            if fr == "%s::%s" % (tr, m) or fr.endswith(" as %s>::%s" % (tr, m)):
                                return True
                    return False
                missing = [i for i in range(len(comps))
                           if not any(c.endswith("::" + m) for c in (tflows.get(("", str(i))) or {}).get("calls", ()))
                           and not (tflows.get(("", str(i))) or {}).get("closure")
                           and not _via_adaptor(tflows.get(("", str(i))))]
                if missing:
                    res.add([finding("T1c", key, w, "the impl of %s::%s on the tuple %s never calls %s on component %s: children in that position are invisible to the traversal" % (
                        tr.split("::")[-1], m, st, m, ", ".join(".%d" % i for i in missing)))])
                    continue
            if whole:
                res.add([finding("T1c", key, w, "container impl returns self unchanged (elements not visited)")])
            elif recursive:
                res.add([ok("T1c", key, w, "elements recurse with %s::%s" % (tr.split("::")[-1], m))])
            elif tr == NODE and direct_reduce:
                # reported by T2 with the precise reason; do not double count here
                res.add([ok("T1c", key, w, "elements are handed to the visitor (see T2 for the recursion rule)")])
            else:
                res.add([finding("T1c", key, w, "container impl of %s::%s on %s never calls %s on its elements" % (tr.split("::")[-1], m, st, m))])
    res.count("container impl methods", n)
    res.floor("container/blanket impl methods", n, 7 * 4 + 5)


def t2(F, res):
    n = 0
    for f in F.fns.values():
        if f.get("impl_trait") != NODE or f.get("name") != "apply":
            continue
        n += 1
        st = f["impl_self"]
        bodies = with_closures(F, f)
        direct = [(b, t) for b in bodies for _, t in mir.calls(b) if is_trait_call(t, VISITOR, "reduce")]
        key = f["path"]
        w = where(f)
        if st == EXPR:
            # the one place that hands a node to the visitor: every path to return passes Visitor::reduce, whose
            # argument is the rebuilt value
            cfg = mir.CFG(f)
            rb = [bi for bi, t in mir.calls(f) if is_trait_call(t, VISITOR, "reduce")]
            exits = cfg.exits()
            # error exits (`?`) legitimately skip the visitor; require: reduce's result is what is returned
            dests = [f["blocks"][bi]["t"]["dest"]["l"] for bi in rb]
            if rb and all(d == 0 for d in dests):
                res.add([ok("T2", key, w, "Expression::apply rebuilds children first, then returns visitor.reduce(rebuilt)")])
            else:
                res.add([finding("T2", key, w, "Expression::apply does not return the visitor's result for the rebuilt node")])
            continue
        if direct:
            res.add([finding("T2", key, w, "Node impl for %s hands its children directly to Visitor::reduce instead of Node::apply: "
                             "compiler ops nested below them are never visited" % st)])
        else:
            res.add([ok("T2", key, w, "children recurse through Node::apply only")])
    res.count("Node impls", n)
    res.floor("Node impls", n, 23)


NONCONST_VARIANTS = ("EvalParam", "EvalBuiltIn", "EvalCompiler", "EvalCoerce", "AdHocDirective")


def _returns_constant_ctor(F, path):
    """a workspace function every return value of which is an `Expression::<V>(..)` aggregate of a constant constructor V
    (the role of arg_value_into_expr, whatever it is called)"""
    g = F.fns.get(path)
    if g is None or not g["locals"] or g["locals"][0] != EXPR:
        return False
    defs = []
    for bi, si, st in mir.stmts(g):
        if st["lhs"]["l"] == 0 and not st["lhs"]["p"]:
            defs.append(st["rv"])
    for bi, t in mir.calls(g):
        if t["dest"]["l"] == 0 and not t["dest"]["p"]:
            return False
    if not defs:
        return False
    return all(rv["k"] == "agg" and rv.get("adt") == EXPR and rv.get("variant") not in NONCONST_VARIANTS for rv in defs)


def _tir_helpers(t, callee):
    return callee["crate"] == "tx3_tir" and not callee.get("impl_trait") and not callee.get("trait_default") and len(callee["blocks"]) <= 150


_SETB = {}


def _set_builders(F):
    """plain tx3_tir functions whose body builds a Param::Set (constructor helpers)"""
    if id(F) not in _SETB:
        out = set()
        for p, g in F.fns.items():
            if g["crate"] == "tx3_tir" and not g.get("impl_trait") and not g.get("derived") and \
                    any(s["rv"]["k"] == "agg" and s["rv"].get("adt") == PARAM and s["rv"].get("variant") == "Set" for _, _, s in mir.stmts(g)):
                out.add(p)
        _SETB[id(F)] = out
    return _SETB[id(F)]


def s_kind(F, res):
    kinds = {"apply_args": "ExpectValue", "apply_inputs": "ExpectInput", "apply_fees": "ExpectFees"}
    adt = F.adt(PARAM)
    discr = {v["name"]: v["discr"] for v in adt["variants"]}
    for m, var in kinds.items():
        # helper functions that build the substituted value (`Param::Set(..)`) are inlined, wherever in the crate they live
        f = mir.inline_calls(F, F.fn("<%s as %s>::%s" % (PARAM, APPLY, m)), want=_tir_helpers, depth=2)
        arms = e3.variant_arms(f)
        key = "%s|Set under %s" % (f["path"], var)
        w = where(f)
        if not arms or arms[0] != PARAM:
            res.add([finding("S-KIND", key, w, "no match on self found in Param::%s" % m)])
            continue
        _, tmap, other = arms
        cfg = mir.CFG(f)
        target = tmap.get(discr[var])
        shared = target is None or list(tmap.values()).count(target) > 1 or target == other
        sets = [(bi, s) for bi, si, s in mir.stmts(f) if s["rv"]["k"] == "agg" and s["rv"].get("adt") == PARAM and s["rv"]["variant"] == "Set"]
        # a constructor function of Param::Set handed over as a function value (`opt.map_or(unchanged, Self::set_from_arg)`)
        # builds the Set where it is handed over
        builders = _set_builders(F)
        for bi, t in mir.calls(f):
            refs = set(t.get("fnrefs") or ())
            for a in t["args"]:
                c_ = mir.op_const(a)
                if c_ and "fn" in c_:
                    refs.add(c_.get("fn_resolved") or c_["fn"])
            if refs & builders:
                sets.append((bi, {"line": t["line"], "rv": {"k": "fnref"}}))
        if not sets:
            res.add([finding("S-KIND", key, w, "Param::%s never produces Param::Set: %s parameters are never substituted" % (m, var))])
            continue
        bad = [s["line"] for bi, s in sets if shared or not cfg.dominates(target, bi)]
        if bad:
            res.add([finding("S-KIND", key, w, "Param::Set is built outside the `%s` arm in Param::%s" % (var, m))])
        else:
            res.add([ok("S-KIND", key, w, "every Param::Set aggregate is dominated by the `%s` arm" % var)])
        # S-INDEP: inside that arm the substitution depends on nothing but the presence of the value in the argument map:
        # every branch that decides whether the Set is built tests the result of the lookup (`args.get(name)` is Some) - a
        # condition on anything else (the state of the query, other parameters) makes the stage depend on what other stages
        # have already done, i.e. on the order of application
        key2 = "%s|substitution depends only on the presence of the value" % f["path"]
        du = mir.DefUse(f)
        offenders = []
        for bi, s_ in sets:
            if shared or not cfg.dominates(target, bi):
                continue
            region = cfg.reach_from(target)
            for sb in sorted(region):
                blk = f["blocks"][sb]
                t = blk["t"]
                if t["k"] != "switch" or blk["cleanup"] or not cfg.dominates(target, sb):
                    continue
                succ = mir.block_succs(blk)
                reach_set = [x for x in succ if bi == x or bi in cfg.reach_from(x)]
                if not reach_set or len(reach_set) == len(set(succ)):
                    continue   # does not decide whether the Set is built
                pl = mir.op_place(t["discr"])
                src = mir.provenance(f, du, {"l": pl["l"], "p": []}) if pl is not None else []
                # the scrutinee: discriminant of the lookup result (or of its cloned / as_ref'd copy), or contains_key
                okk = False
                for d in du.defs.get(pl["l"], []) if pl is not None else []:
                    if d[0] != "call" and d[3]["rv"]["k"] == "discr" and d[3]["rv"].get("adt", "").endswith("ControlFlow"):
                        okk = True   # `?`: an error of a nested call is propagated, not a condition on the substitution
                    elif d[0] != "call" and d[3]["rv"]["k"] == "discr":
                        o2 = mir.provenance(f, du, {"l": d[3]["rv"]["pl"]["l"], "p": []}, transparent_extra=("std::option::Option::<&T>::cloned", "std::option::Option::<T>::as_ref", "std::option::Option::<&T>::copied"))
                        if o2 and all(x.kind == "call" and x.callee.split("::")[-1] in ("get", "remove", "get_key_value") for x in o2):
                            okk = True
                        if o2 and all(x.kind == "arg" and x.local == 1 for x in o2):
                            okk = True   # the match on self itself
                    elif d[0] == "call" and (d[3].get("callee") or "").split("::")[-1] in ("contains_key", "is_some", "is_none"):
                        okk = True
                if not okk:
                    offenders.append(t.get("line"))
        if offenders:
            res.add([finding("S-INDEP", key2, where(f, offenders[0]), "in Param::%s whether the value is substituted also depends on a condition other than its presence in the argument map (line %s): applying this stage before or after the others gives different results" % (m, offenders[0]))])
        else:
            res.add([ok("S-INDEP", key2, w, "the only branches between the `%s` arm and Param::Set test the lookup result" % var)])
    # S-SETCONST: all Param::Set aggregates in the workspace wrap constants (or rebuild an existing Set)
    n = 0
    for f in F.fns.values():
        if is_derive(f):
            continue
        du = None
        for bi, si, s in mir.stmts(f):
            rv = s["rv"]
            if rv["k"] == "agg" and rv.get("adt") == PARAM and rv["variant"] == "Set" and not site_in_derive(s["exp"]):
                n += 1
                du = du or mir.DefUse(f)
                origins = mir.provenance(f, du, rv["ops"][0])
                key = "%s|Param::Set operand" % f["path"]
                good = True
                why = []
                for o in origins:
                    if o.kind == "call" and _returns_constant_ctor(F, o.callee):
                        why.append("%s(..): every value it returns is a constant Expression constructor" % o.callee.split("::")[-1])
                    elif o.kind == "call" and o.term is not None and (o.term.get("trait") in (NODE, APPLY)):
                        why.append("rebuild of an existing Set through %s" % o.callee.split("::")[-1])
                    elif o.kind == "agg" and o.rv.get("adt") == EXPR and o.rv["variant"] not in NONCONST_VARIANTS:
                        why.append("Expression::%s literal" % o.rv["variant"])
                    else:
                        good = False
                        why.append(repr(o))
                if good:
                    res.add([ok("S-SETCONST", key, where(f, s["line"]), "; ".join(sorted(set(why))))])
                else:
                    res.add([finding("S-SETCONST", key, where(f, s["line"]), "Param::Set built from a value that is not a constant constructor: " + "; ".join(why))])
    res.count("Param::Set aggregates", n)
    res.floor("Param::Set aggregates", n, 3)


def s_guard(F, res):
    """On resolve_tx's body with the resolver crate's own helper functions inlined (the pass function excluded; Ok/Err returns of
    helpers kept apart): the template's reported parameters are computed (find_params), a membership test of the argument map
    is made for them, Error::MissingTxArg is built on a path that does not continue to apply_args, apply_args is dominated by
    all of that, and the pass function runs only after apply_args.  No other apply_args call exists in the resolver."""
    from .. import e8_state
    lf, pfn = e8_state.resolver_roles(F)
    f = e8_state.loop_body(F)
    cfg = mir.CFG(f)
    w = where(f)
    key = lf + "|missing reported parameter is refused before arguments are applied"
    fp = [bi for bi, t in mir.calls(f) if call_matches(t, "tx3_tir::reduce::find_params")]
    aa = [bi for bi, t in mir.calls(f) if call_matches(t, "tx3_tir::reduce::apply_args") or is_trait_call(t, APPLY, "apply_args")]
    passc = [bi for bi, t in mir.calls(f) if call_matches(t, pfn)]
    # closures created in the (inlined) body: `params.iter().find(|(k, _)| !args.contains_key(k))`
    clos = {}
    for bi, si, st in mir.stmts(f):
        if st["rv"]["k"] == "agg" and "closure" in st["rv"] and st["rv"]["closure"] in F.fns:
            clos.setdefault(st["rv"]["closure"], bi)
    MEMBER = ("contains_key", "contains", "get", "get_key_value")

    def is_member(t):
        n = (t.get("callee") or "").split("::")[-1]
        return n in MEMBER and ("Map" in (t.get("callee") or "") or "Map" in " ".join(t.get("gargs") or []) or "Map" in (t.get("resolved") or ""))
    ck = [bi for bi, t in mir.calls(f) if is_member(t)]
    derived = []
    du0 = mir.DefUse(f)
    for bi, t in mir.calls(f):
        if is_member(t):
            # the map that is tested must be the argument map itself (a parameter / captured reference all the way up), not a
            # copy derived from it (`args.iter().map(..lowercase..).collect()`): a key can then be "present" in the copy and
            # absent from the map that apply_args receives
            for o in mir.provenance(f, du0, t["args"][0], transparent_extra=("std::ops::Deref::deref",)):
                if o.kind == "call":
                    derived.append((t["line"], o.callee.split("::")[-1]))
    for c, cbi in clos.items():
        g = F.fns[c]
        if any(is_member(t) for _, t in mir.calls(g)):
            ck.append(cbi)
            dg = mir.DefUse(g)
            for _, t in mir.calls(g):
                if is_member(t):
                    for o in mir.provenance(g, dg, t["args"][0], transparent_extra=("std::ops::Deref::deref",)):
                        if o.kind == "call":
                            derived.append((t["line"], o.callee.split("::")[-1]))
                        elif o.kind == "arg" and o.local == 1 and o.proj and o.proj[0][1:].isdigit():
                            # captured variable: what the owner captured
                            for bj, sj, st in mir.stmts(f):
                                if st["rv"]["k"] == "agg" and st["rv"].get("closure") == c:
                                    idx = int(o.proj[0][1:])
                                    if idx < len(st["rv"]["ops"]):
                                        for o2 in mir.provenance(f, du0, st["rv"]["ops"][idx], transparent_extra=("std::ops::Deref::deref",)):
                                            if o2.kind == "call":
                                                derived.append((t["line"], o2.callee.split("::")[-1]))
    missing = [bi for bi, si, st in mir.stmts(f) if st["rv"]["k"] == "agg" and st["rv"].get("adt") == "tx3_resolver::Error" and st["rv"]["variant"] == "MissingTxArg"]
    # (a closure may build the error through a helper of the crate: `|(name, ty)| Err(missing_arg(name, ty))`)
    missing_in_closure = [cbi for c, cbi in clos.items() if any(st["rv"]["k"] == "agg" and st["rv"].get("variant") == "MissingTxArg"
                          for _, _, st in mir.stmts(mir.inline_calls(F, F.fns[c], want=e8_state.same_crate_policy("tx3_resolver"), depth=2)))]
    problems = []
    if not aa:
        raise BrokenCheck("resolve_tx (helpers inlined) no longer calls apply_args: anchor changed")
    if not passc:
        raise BrokenCheck("resolve_tx no longer calls its pass function")
    if not fp:
        problems.append("find_params is not called before the arguments are applied")
    if not ck:
        problems.append("no membership test of the argument map for the reported parameters")
    if not missing and not missing_in_closure:
        problems.append("Error::MissingTxArg is never constructed")
    if derived:
        problems.append("the membership test (line %s) is made on a map produced by `%s(..)`, not on the argument map that apply_args receives: a reported parameter can pass the test and still be absent from the applied arguments" % derived[0])
    if not problems:
        for a in aa:
            if not any(cfg.dominates(x, a) for x in fp):
                problems.append("apply_args is not dominated by find_params")
            if not any(a in cfg.reach_from(x) and any(x in cfg.reach_from(y) for y in fp) for x in ck):
                problems.append("no membership test lies between find_params and apply_args")
        for mb in missing:
            if set(aa) & cfg.reach_from(mb):
                problems.append("the MissingTxArg path continues to apply_args")
            if not any(cfg.dominates(x, mb) for x in ck):
                problems.append("MissingTxArg is not the outcome of a membership test")
        # apply_args must not dominate the refusal the other way round: the refusal comes first
        for mb in missing:
            if any(cfg.dominates(a, mb) for a in aa):
                problems.append("MissingTxArg is decided only after apply_args has run")
        # the refusal is conditional: from the membership test both the refusal and apply_args are reachable
        for x in ck:
            r = cfg.reach_from(x)
            if missing and not (set(missing) & r):
                continue
            if not (set(aa) & r):
                problems.append("apply_args is unreachable after the membership test")
        du = mir.DefUse(f)
        # the name reported comes from the reported-parameter collection, not from a constant
        for bi, si, st in mir.stmts(f):
            rv = st["rv"]
            if rv["k"] == "agg" and rv.get("variant") == "MissingTxArg" and "key" in (rv.get("fields") or []):
                o = mir.provenance(f, du, rv["ops"][rv["fields"].index("key")])
                if o and all(x.kind == "const" for x in o):
                    problems.append("MissingTxArg names a constant instead of the missing parameter")
    problems = sorted(set(problems))
    if problems:
        res.add([finding("S-GUARD", key, w, "; ".join(problems))])
    else:
        res.add([ok("S-GUARD", key, w, "find_params -> membership test of the argument map -> Err(MissingTxArg) on a path that never reaches apply_args; apply_args dominated by both (helpers inlined: %s)" % ", ".join(x.split("::")[-1] for x in f.get("inlined", [])))])
    # every apply_args call of the resolver sits in that guarded prefix, and the pass function runs only after it
    cg = CallGraph(F)
    reach = cg.reachable([lf])
    inl = set(f.get("inlined", [])) | {lf, lf + "::{closure#0}"}
    direct = []
    for p in reach:
        if not p.startswith("tx3_resolver::") or p in inl:
            continue
        g = F.fns[p]
        for bi, t in mir.calls(g):
            if call_matches(t, "tx3_tir::reduce::apply_args") or is_trait_call(t, APPLY, "apply_args"):
                direct.append(p)
    key2 = lf + "|arguments are applied only behind the guard"
    if direct:
        res.add([finding("S-GUARD", key2, where(f), "apply_args is also called outside the guarded prefix of resolve_tx, in: " + ", ".join(sorted(set(direct))))])
    elif all(any(cfg.dominates(a, e) for a in aa) for e in passc):
        res.add([ok("S-GUARD", key2, where(f), "the guarded apply_args dominates every call of the pass function; no other apply_args call in the resolver")])
    else:
        res.add([finding("S-GUARD", key2, where(f), "the pass function is reachable without the guarded apply_args")])


def f_norm(F, res):
    """names placed into Param::ExpectValue / ExpectInput by tx3-lang and tx3-tir constructors are lower-cased"""
    n = 0
    for f in F.fns.values():
        if is_derive(f) or not (f["crate"] in ("tx3_lang", "tx3_tir")):
            continue
        if not any(s["rv"]["k"] == "agg" and s["rv"].get("adt") == PARAM and s["rv"]["variant"] in ("ExpectValue", "ExpectInput") for _, _, s in mir.stmts(f)):
            continue
        # a name computed by a helper of the crate (`fn script_param_name(..) -> String`) is followed into the helper
        f = mir.inline_calls(F, f, want=e3._helper_policy(f["crate"]), depth=2)
        du = None
        for bi, si, s in mir.stmts(f):
            rv = s["rv"]
            if rv["k"] != "agg" or rv.get("adt") != PARAM or rv["variant"] not in ("ExpectValue", "ExpectInput") or site_in_derive(s["exp"]):
                continue
            if f["blocks"][bi].get("inl"):
                continue   # counted where the helper itself is visited
            du = du or mir.DefUse(f)
            origins = mir.provenance(f, du, rv["ops"][0], stop_at_calls=lambda t: "to_lowercase" in mir.callee_of(t))
            # rebuilds of an existing Param (apply_*, Node::apply, reduce) keep the name: skip identity rebuilds
            if all(o.kind == "arg" and o.local == 1 for o in origins):
                continue
            n += 1
            key = "%s|%s name" % (f["path"], rv["variant"])
            good = True
            why = []
            for o in origins:
                if o.kind == "call" and "to_lowercase" in o.callee:
                    why.append("to_lowercase()")
                elif o.kind == "const" and "str" in o.const and o.const["str"] == o.const["str"].lower():
                    why.append("lower-case literal %r" % o.const["str"])
                elif o.kind == "call" and ("fmt::format" in o.callee or "format" in o.callee.split("::")[-1]):
                    # format!(..): every dynamic piece must be lower-cased and every literal piece lower-case
                    lits = [c["str"] for _, c in mir.fn_consts(f) if "str" in c]
                    lowered = any("to_lowercase" in mir.callee_of(t) for _, t in mir.calls(f))
                    if lowered and all(x == x.lower() for x in lits):
                        why.append("format!() of lower-cased pieces")
                    else:
                        good = False
                        why.append("format!() with a piece that is not lower-cased")
                else:
                    good = False
                    why.append(repr(o))
            if good:
                res.add([ok("F-NORM", key, where(f, s["line"]), "; ".join(sorted(set(why))))])
            else:
                res.add([finding("F-NORM", key, where(f, s["line"]), "parameter name reaches the IR without lower-casing: " + "; ".join(why))])
    res.count("Param name constructions", n)
    res.floor("Param name constructions", n, 4)


def run(ctx):
    F = ctx.F
    res = Result("C06")
    res.rule("T1", "every family-typed field of every variant of the implementing type is projected from self and passed to a call; by-value rebuilders never move it unchanged into the rebuilt Self value")
    res.rule("T1c", "container and blanket impls recurse with the same trait method on their elements")
    res.rule("T2", "Node impls other than Expression's never call Visitor::reduce directly; Expression's returns visitor.reduce(rebuilt)")
    res.rule("S-KIND", "Param::apply_X builds Param::Set only under the arm of the parameter kind it substitutes")
    res.rule("S-INDEP", "inside its arm, Param::apply_X substitutes whenever the value is present: no other condition decides it")
    res.rule("S-SETCONST", "every Param::Set aggregate wraps a constant constructor or rebuilds an existing Set")
    res.rule("S-GUARD", "safe_apply_args: MissingTxArg for each absent reported parameter before apply_args; resolve_tx applies args only through it")
    res.rule("F-NORM", "names put into Param::ExpectValue/ExpectInput are lower-cased")
    t1(F, res)
    t1c(F, res)
    t2(F, res)
    s_kind(F, res)
    s_guard(F, res)
    f_norm(F, res)
    return res
