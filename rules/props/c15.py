"""C15 -- multi-asset values obey the algebra that balance computations assume.

Static clause claimed (the one law-breaking mechanism that is structural):
  I-NORMAL  equality on CanonicalAssets is the derived, structural PartialEq over a hash map, so "equality is semantic" holds
            iff every constructed value is in normal form (no zero-amount entry): every place that builds a CanonicalAssets
            (only possible inside assets.rs: the field is private) must start from an empty map, or be dominated by
            `retain(!= 0)` on the map, or map an existing value entry-wise with a zero-preserving operation (negation), or
            guard the single entry it inserts with a zero test
  I-PRIVATE the map cannot be built or mutated from outside the module (field private, Deref without DerefMut): checked from
            the ADT/impl facts; compile-fail witnesses in /verif/witness (thorough tier)
  I-CLASS   from_asset sends each (policy present?, name present?) combination to the constructor of its own asset class
            (when that reading reports: re-read over absent / empty / non-empty with the constructors inlined, `_class3`)
  C-ORDER   contains_total / is_empty_or_negative touch amounts only through comparisons, so their verdict for one entry
            depends only on presence and on the order type of (amount, other amount, 0): the decision procedure is extracted
            from MIR and tabulated over all order types (rules/ordering.py), then compared with the property's statement
            (component-wise >= on non-negative amounts, zero entries immaterial)
  I-POINTWISE  + and - merge the right operand's entries with that very operator and operand order, unary - negates every
            amount (in-place merge loop, shared helper taking the operator as a closure, or a - b = a + (-b))
  I-ACCESSOR  AssetClass::policy() / name() return, variant by variant, the field the class holds (E16; or-patterns per variant)
  KIND        sums / negations of asset values in the reducer never yield the absent operand None (shared with C01)
  (equality)  a hand-written PartialEq must not walk the two hash maps side by side (iteration order differs per map)
A shape outside the recognised ones is listed as "not decided", never reported.
Not decided: associativity / commutativity as identities over arbitrary maps (entry-wise + on i128, modulo the overflow that is
C02's finding), the round trip through Vec<AssetExpr>.
"""
from .. import mir
from ..common import is_derive, site_in_derive, with_closures
from ..engine import Result, ok, finding, assumption, where
from ..facts import BrokenCheck

META = {
    "level": "other",
    "explanation": (
        "Constructor-invariant rule over MIR: with a derived PartialEq, semantic equality of multi-asset values is equivalent to "
        "every constructed value being zero-free. All aggregates of CanonicalAssets are enumerated (the tuple field is private, so "
        "they all live in assets.rs) and each must establish the normal form structurally. Visibility facts show nobody else can "
        "build or mutate the map. This covers every value any caller can obtain; the algebraic laws as such are value-level and "
        "are not decided."),
    "trusted_base": ["rustc MIR, driver", "HashMap::retain / entry semantics"],
    "not_decided": ["the group laws as algebraic identities over arbitrary maps (they reduce to entry-wise i128 arithmetic, whose overflow is C02)", "round trip through Vec<AssetExpr>", "predicates / operators written in a shape other than the recognised ones (reported as assumptions)"],
}

CA = "tx3_tir::model::assets::CanonicalAssets"


def _in_assets_module(f):
    """model/assets.rs or one of its private submodules"""
    return f["file"].endswith("model/assets.rs") or "/model/assets/" in f["file"]


def _impl_of(F, trait, name):
    """the method `name` of CanonicalAssets' impl of `trait`, wherever in the module tree the impl block sits"""
    for g in F.fns.values():
        if g.get("impl_trait") == trait and g.get("impl_self") == CA and g.get("name") == name and not g.get("derived"):
            return g
    return None


def _asset_helpers(t, callee):
    return callee["crate"] == "tx3_tir" and _in_assets_module(callee) and not callee.get("impl_trait") and len(callee["blocks"]) <= 100


def i_normal(F, res):
    n = 0
    for f0 in F.fns.values():
        if f0["crate"] != "tx3_tir" or is_derive(f0):
            continue
        if not any(s["rv"]["k"] == "agg" and s["rv"].get("adt") == CA for _, _, s in mir.stmts(f0)):
            continue
        # the module's own helpers (`prune_zeroes(map)`) inlined: a retain inside them dominates the construction
        f = mir.inline_calls(F, f0, want=_asset_helpers, depth=2)
        du = None
        cfg = None
        for bi, si, s in mir.stmts(f):
            rv = s["rv"]
            if rv["k"] != "agg" or rv.get("adt") != CA or site_in_derive(s["exp"]) or f["blocks"][bi].get("inl"):
                continue
            n += 1
            du = du or mir.DefUse(f)
            cfg = cfg or mir.CFG(f)
            key = "%s|CanonicalAssets(..)" % f["path"]
            w = where(f, s["line"])
            origins = mir.provenance(f, du, rv["ops"][0])
            by = None
            # (1) empty map
            if all(o.kind == "call" and o.callee.endswith("HashMap::<K, V>::new") for o in origins):
                # ... and still empty: the map is never borrowed mutably between its creation and the construction
                locs = set()
                for o in origins:
                    locs.add(o.term["dest"]["l"])
                changed = True
                while changed:
                    changed = False
                    for bj, sj, s2 in mir.stmts(f):
                        if s2["rv"]["k"] == "use" and not s2["lhs"]["p"]:
                            pl2 = mir.op_place(s2["rv"]["op"])
                            if pl2 is not None and not pl2["p"] and pl2["l"] in locs and s2["lhs"]["l"] not in locs:
                                locs.add(s2["lhs"]["l"])
                                changed = True
                mutated = [s2["line"] for bj, sj, s2 in mir.stmts(f) if s2["rv"]["k"] in ("ref", "rawptr") and s2["rv"].get("mut") and s2["rv"]["pl"]["l"] in locs]
                if not mutated:
                    by = "built from HashMap::new() and never borrowed mutably before the construction"
            # (2) dominated by retain on the same map
            if by is None:
                for bj, t in _calls(f):
                    if (t.get("callee") or "").endswith("::retain") and cfg.dominates(bj, bi):
                        ro = {repr(o) for o in mir.provenance(f, du, t["args"][0], transparent_extra=("std::ops::DerefMut::deref_mut",))}
                        if ro & {repr(o) for o in origins}:
                            # the closure keeps non-zero values only
                            by = "dominated by `retain(|_, v| v != 0)` on the map"
                            break
            # (3) entry-wise negation of an existing value (zero-preserving)
            if by is None:
                if any(o.kind == "arg" and o.local == 1 for o in origins) and f.get("impl_trait") == "std::ops::Neg":
                    by = "entry-wise negation of an existing (normal-form) value"
                elif f.get("impl_trait") == "std::ops::Neg":
                    # ... written as a chain: `Self(self.0.into_iter().map(|(k, v)| (k, -v)).collect())` - the map stage only negates
                    chain = mir.provenance(f, du, rv["ops"][0], transparent_extra=("std::iter::Iterator::map", "std::iter::Iterator::collect", "std::iter::IntoIterator::into_iter",
                                                                                   "std::collections::HashMap::<K, V, S, A>::into_iter", "std::iter::FromIterator::from_iter"))
                    stages = [t2 for _, t2 in _calls(f) if (t2.get("callee") or "") == "std::iter::Iterator::map"]
                    only_neg = bool(stages)
                    for t2 in stages:
                        for c in t2.get("fnrefs") or ():
                            cb = F.fns.get(c)
                            if cb is None:
                                only_neg = False
                                continue
                            if any(st["rv"]["k"] in ("binop", "checked") and st["rv"].get("op") not in ("Eq", "Ne", "Lt", "Le", "Gt", "Ge") for _, _, st in mir.stmts(cb)) or any((t3.get("callee") or "") != "std::ops::Neg::neg" for _, t3 in mir.calls(cb)):
                                only_neg = False
                    others = [t2 for _, t2 in _calls(f) if (t2.get("callee") or "").split("::")[-1] not in ("map", "collect", "into_iter", "from_iter")]
                    if chain and all(o.kind == "arg" and o.local == 1 for o in chain) and only_neg and not others:
                        by = "entry-wise negation of an existing (normal-form) value (iterator chain whose map stage only negates)"
            # (4) the inserted amount is tested against zero on the way
            if by is None:
                if _zero_guarded(f, cfg, bi):
                    by = "the single entry is inserted only when its amount is non-zero"
            # (5) one construction fed by a helper's two exits: the empty map on the zero side, the single entry on the
            # other (`Self(single_entry(amount, class))` with the zero test inside the helper)
            if by is None and len(origins) > 1 and all(o.kind in ("call", "agg") for o in origins):
                news = [o for o in origins if o.kind == "call" and o.callee.endswith("HashMap::<K, V>::new")]
                rest = [o for o in origins if o not in news]
                nl = {o.term["dest"]["l"] for o in news}
                touched = [s2 for bj, sj, s2 in mir.stmts(f) if s2["rv"]["k"] in ("ref", "rawptr") and s2["rv"].get("mut") and s2["rv"]["pl"]["l"] in nl]
                if news and rest and not touched and all(o.bb is not None and _zero_guarded(f, cfg, o.bb) for o in rest):
                    by = "fed by two exits of an inlined helper: HashMap::new() on one, an entry inserted only under the zero test on the other"
            if by:
                res.add([ok("I-NORMAL", key, w, by)])
            else:
                res.add([finding("I-NORMAL", key, w, "%s builds a value that may hold a zero-amount entry (no retain, no zero test): with the derived PartialEq it compares unequal to the same value built another way" % f["path"].split("::")[-1])])
    res.count("CanonicalAssets constructions", n)
    res.floor("CanonicalAssets constructions", n, 3)
    # equality is the derived one
    imp = [i for i in F.impls if i.get("self") == CA and i.get("trait") == "std::cmp::PartialEq"]
    key = CA + "|equality"
    if imp and imp[0]["derived"]:
        res.add([ok("I-NORMAL", key, "crates/tx3-tir/src/model/assets.rs", "PartialEq is derived (structural): the normal-form rule above is what makes it semantic")])
    elif imp:
        # hand-written equality: it must not depend on the iteration order of the two hash maps (each has its own random
        # hasher): walking both side by side (`a.iter().eq(b.iter())`, `zip`, collecting into Vecs) compares "same content in the
        # same order", and a + b == b + a stops holding for values built independently
        from .. import e6_hash as e6
        eqf = [f_ for f_ in F.fns.values() if f_.get("impl_trait") == "std::cmp::PartialEq" and f_.get("impl_self") == CA and f_.get("name") in ("eq", "ne") and not is_derive(f_)]
        ordered = []
        for f_ in eqf:
            fi = mir.inline_calls(F, f_, want=_asset_helpers, depth=2)
            for b_ in with_closures(F, fi):
                for bi, t in mir.calls(b_):
                    h = e6.is_hash_iter(t)
                    if h and not site_in_derive(t.get("exp", "")):
                        kind, why = e6.classify(b_, bi)
                        if kind != "neutral":
                            ordered.append((b_, t["line"], why))
                    if (t.get("callee") or "") in ("std::iter::Iterator::eq", "std::iter::Iterator::zip", "std::iter::Iterator::cmp", "std::iter::Iterator::partial_cmp", "std::iter::Iterator::ne", "std::iter::Iterator::eq_by"):
                        ordered.append((b_, t["line"], "`%s` walks two iterations side by side" % t["callee"].split("::")[-1]))
        if ordered:
            b_, line, why = ordered[0]
            res.add([finding("I-NORMAL", key, where(b_, line), "the hand-written equality of CanonicalAssets depends on the iteration order of the underlying hash maps (%s): two values with the same entries built independently compare unequal, so commutativity, associativity and the round trip fail as seen through `==`" % why)])
        else:
            res.add([assumption("I-NORMAL", key, "crates/tx3-tir/src/model/assets.rs", "PartialEq is hand-written (no order-dependent walk over the maps found): whether it ignores zero entries is value-level and not decided")])
    else:
        res.add([finding("I-NORMAL", key, "crates/tx3-tir/src/model/assets.rs", "CanonicalAssets has no PartialEq")])


def _calls(f):
    return list(mir.calls(f))


def _zero_guarded(f, cfg, agg_bb):
    """is the aggregate's block control-dependent on a comparison with the literal 0 (`if amount == 0 { return empty }`)?"""
    from ..discharge import _const_int
    du = mir.DefUse(f)
    for bi, b in enumerate(f["blocks"]):
        if b["cleanup"] or bi not in cfg.reach:
            continue
        for s in b["s"]:
            rv = s["rv"]
            if rv["k"] == "binop" and rv["op"] in ("Eq", "Ne") and (_const_int(f, du, rv["b"]) == 0 or _const_int(f, du, rv["a"]) == 0):
                t = b["t"]
                if t["k"] != "switch":
                    continue
                succ = mir.succs_of(t)
                doms = [x for x in succ if cfg.dominates(x, agg_bb)]
                if doms and len(set(succ)) > 1:
                    return True
    return False


def i_private(F, res):
    a = F.adt(CA)
    fd = a["variants"][0]["fields"][0]
    key = CA + "|map is private"
    w = "%s:%s" % (a["file"].replace("/repo/", ""), a["line"])
    if "Public" in fd["vis"]:
        res.add([finding("I-PRIVATE", key, w, "the asset map is a public field: any crate can build or mutate an un-normalised value")])
    else:
        res.add([ok("I-PRIVATE", key, w, "tuple field visibility: %s" % fd["vis"])])
    dm = [i for i in F.impls if i.get("self") == CA and i.get("trait") in ("std::ops::DerefMut", "std::convert::AsMut", "std::borrow::BorrowMut")]
    key2 = CA + "|no mutable access to the map"
    if dm:
        res.add([finding("I-PRIVATE", key2, w, "CanonicalAssets hands out mutable access to its map (%s)" % dm[0]["trait"])])
    else:
        res.add([ok("I-PRIVATE", key2, w, "Deref only (no DerefMut / AsMut / BorrowMut impl)")])
    # no aggregate outside the defining module
    outside = [f["path"] for f in F.fns.values() if not is_derive(f) and not _in_assets_module(f)
               for bi, si, s in mir.stmts(f) if s["rv"]["k"] == "agg" and s["rv"].get("adt") == CA]
    key3 = CA + "|constructed only in assets.rs"
    if outside:
        res.add([finding("I-PRIVATE", key3, w, "constructed outside its module: %s" % outside[:3])])
    else:
        res.add([ok("I-PRIVATE", key3, w, "every aggregate lives in model/assets.rs")])


def _param_of_place(f, du, pl, nparams):
    """which parameter's *own* Option a discriminant / payload read looks at: follows tuple fields and plain copies back to an
    argument local; returns (param, direct) where direct=False means a call result stands in between (e.g. Option::filter)"""
    local = pl["l"]
    proj = [q for q in pl["p"] if q[0] != "d"]
    idx = None
    if proj and proj[0][0] == "f" and str(proj[0][1]).isdigit():
        idx = int(proj[0][1])
    seen = set()
    direct = True
    while local not in seen:
        seen.add(local)
        if 1 <= local <= nparams and idx is None:
            return local, direct
        defs = du.defs.get(local, [])
        if len(defs) != 1:
            return None, direct
        d = defs[0]
        if d[0] == "call":
            direct = False
            t = d[3]
            if not t["args"]:
                return None, direct
            a = mir.op_place(t["args"][0])
            if a is None:
                return None, direct
            local = a["l"]
            continue
        rv = d[3]["rv"]
        if rv["k"] == "agg" and "tuple" in rv and idx is not None:
            a = mir.op_place(rv["ops"][idx])
            if a is None:
                return None, direct
            local, idx = a["l"], None
        elif rv["k"] in ("use", "cast"):
            a = mir.op_place(rv["op"])
            if a is None or [q for q in a["p"] if q[0] != "d"]:
                return None, direct
            local = a["l"]
        elif rv["k"] == "ref":
            a = rv["pl"]
            if [q for q in a["p"] if q[0] != "d"]:
                return None, direct
            local = a["l"]
        else:
            return None, direct
    return None, direct


def _class3(F):
    """Three-valued reading of from_asset with every constructor of the module inlined: each of (policy, name) is absent,
    present-and-empty or present-and-non-empty; `unwrap_or(&[])` / `unwrap_or_default()` turn absent into empty, `is_empty()`
    splits on emptiness, a discriminant read splits on presence.  The class every one of the nine combinations reaches must be
    Defined iff the policy is non-empty, else Named iff the name is non-empty, else Naked (what the three constructors of the
    pinned tree compute together), and the payloads must come from their own parameter.  Returns (decided, problems): anything
    the evaluation does not model leaves the question undecided."""
    def want(t, callee):
        return _asset_helpers(t, callee) and callee.get("name") != "from_class_and_amount"
    _KEEP.append(want)
    f = mir.inline_calls(F, F.fn(CA + "::from_asset"), want=want, depth=6)
    ALL = frozenset("AEN")
    names = {1: "policy", 2: "name"}
    records = []
    undecided = []

    def ev_place(env, pl):
        v = env.get(pl["l"])
        for q in pl["p"]:
            if v is None:
                return None
            if q[0] == "d":
                continue
            if q[0] == "dc":
                if v[0] == "opt":
                    v = ("some", v[1])
                else:
                    return None
            elif q[0] == "f":
                idx = str(q[1])
                if v[0] == "tuple" and idx.isdigit() and int(idx) < len(v[1]):
                    v = v[1][int(idx)]
                elif v[0] in ("some", "opt") and idx == "0":
                    v = ("sl", "payload", v[1])
                else:
                    return None
            else:
                return None
        return v

    def ev_op(env, op):
        pl = mir.op_place(op)
        if pl is not None:
            return ev_place(env, pl)
        c = op.get("c") if op else None
        if c is not None and c.get("ty", "").replace(" ", "") in ("&[u8;0]", "[u8;0]"):
            return ("empty",)
        return None

    def refine(S, b, truth):
        """narrow the states of the two parameters by `b == truth`; None = infeasible, False = not modelled"""
        if b is None:
            return False
        if b[0] == "not":
            return refine(S, b[1], not truth)
        S = list(S)
        if b[0] == "isempty":
            sl = b[1]
            if sl is None:
                return False
            if sl[0] == "empty":
                return tuple(S) if truth else None
            if sl[0] != "sl":
                return False
            prm = sl[2]
            if sl[1] == "payload":
                keep = {"E"} if truth else {"N"}
            else:
                keep = {"A", "E"} if truth else {"N"}
            S[prm - 1] = S[prm - 1] & frozenset(keep)
        elif b[0] == "present":
            S[b[1] - 1] = S[b[1] - 1] & frozenset({"E", "N"} if truth else {"A"})
        else:
            return False
        return None if not S[0] or not S[1] else tuple(S)

    steps = [0]
    stack = [(0, (ALL, ALL), {1: ("opt", 1), 2: ("opt", 2)})]
    while stack:
        bi, S, env = stack.pop()
        steps[0] += 1
        if steps[0] > 4000:
            undecided.append("path budget exhausted")
            break
        b = f["blocks"][bi]
        if b["cleanup"]:
            continue
        env = dict(env)
        for s in b["s"]:
            if s["lhs"]["p"]:
                continue
            rv = s["rv"]
            k = rv["k"]
            v = None
            if k == "use":
                v = ev_op(env, rv["op"])
            elif k == "cast":
                v = ("empty",) if rv.get("from", "").replace(" ", "") == "&[u8;0]" else ev_op(env, rv["op"])
            elif k == "ref":
                v = ev_place(env, rv["pl"])
            elif k == "discr":
                o = ev_place(env, rv["pl"])
                v = ("present", o[1]) if o is not None and o[0] == "opt" else None
            elif k == "unop" and rv.get("op") == "Not":
                o = ev_op(env, rv["a"])
                v = ("not", o) if o is not None else None
            elif k == "agg":
                if rv.get("adt") == "tx3_tir::model::assets::AssetClass":
                    v = ("cls", rv.get("variant"), [ev_op(env, o) for o in rv["ops"]], s["line"])
                elif "tuple" in rv:
                    v = ("tuple", [ev_op(env, o) for o in rv["ops"]])
                elif "adt" not in rv and "closure" not in rv and not rv["ops"]:
                    v = ("empty",)
            env[s["lhs"]["l"]] = v
        t = b["t"]
        if t["k"] == "call":
            c = t.get("callee") or ""
            last = c.split("::")[-1]
            args = [ev_op(env, a) for a in t["args"]]
            v = None
            if c.startswith("std::option::Option") and last in ("unwrap_or", "unwrap_or_default") and args and args[0] is not None and args[0][0] == "opt":
                if last == "unwrap_or_default" or (len(args) > 1 and args[1] == ("empty",)):
                    v = ("sl", "poe", args[0][1])
            elif c.startswith("std::option::Option") and last in ("is_some", "is_none") and args and args[0] is not None and args[0][0] == "opt":
                v = ("present", args[0][1])
                if last == "is_none":
                    v = ("not", v)
            elif last == "is_empty" and "slice" in c and args:
                v = ("isempty", args[0])
            elif last in ("to_vec", "to_owned", "into", "from") and args and args[0] is not None and args[0][0] in ("sl", "empty"):
                v = ("vec", args[0])
            elif c == CA + "::from_class_and_amount":
                cl = args[0] if args else None
                if cl is None or cl[0] != "cls":
                    undecided.append("the class handed to from_class_and_amount at line %s is not built on the path" % t["line"])
                else:
                    records.append((S, cl))
                continue        # the rest of the path only hands the value back
            if t.get("dest") is not None and not t["dest"]["p"]:
                env[t["dest"]["l"]] = v
            if t.get("t") is not None:
                stack.append((t["t"], S, env))
        elif t["k"] == "switch":
            d = ev_op(env, t["discr"])
            if d is None:
                undecided.append("a branch at line %s is taken on something other than the presence or emptiness of policy / name" % t["line"])
                continue
            vals = {v for v, _ in t["targets"]}
            arms = [(v, tb) for v, tb in t["targets"]]
            for v in (0, 1):
                if v not in vals:
                    arms.append((v, t["otherwise"]))
            for v, tb in arms:
                if v not in (0, 1):
                    undecided.append("a switch at line %s has more than two values" % t["line"])
                    continue
                S2 = refine(S, d, v == 1)
                if S2 is False:
                    undecided.append("a branch at line %s is not modelled" % t["line"])
                elif S2 is not None:
                    stack.append((tb, S2, env))
        elif t["k"] == "return":
            undecided.append("a path returns without from_class_and_amount")
        else:
            for n in mir.block_succs(b):
                if not f["blocks"][n]["cleanup"]:
                    stack.append((n, S, env))
    if undecided:
        return False, undecided, f
    problems = []
    covered = set()

    def src_ok(v, prm, st):
        """does the byte vector `v` carry parameter prm's bytes when that parameter is in state st?"""
        if v is None or v[0] != "vec":
            return False
        sl = v[1]
        if sl[0] == "empty":
            return st in ("A", "E")
        if sl[0] == "sl" and sl[2] == prm:
            return sl[1] == "poe" or st != "A"
        return False
    for S, cl in records:
        for p_ in sorted(S[0]):
            for n_ in sorted(S[1]):
                covered.add((p_, n_))
                exp = "Defined" if p_ == "N" else "Named" if n_ == "N" else "Naked"
                word = {"A": "absent", "E": "present and empty", "N": "present and non-empty"}
                if cl[1] != exp:
                    problems.append((cl[3], "policy %s, name %s is classed %s (line %s) where the constructors together give %s" % (word[p_], word[n_], cl[1], cl[3], exp)))
                elif exp == "Defined" and not (src_ok(cl[2][0], 1, p_) and src_ok(cl[2][1], 2, n_)):
                    problems.append((cl[3], "Defined(..) at line %s does not receive (policy, name) in that order" % cl[3]))
                elif exp == "Named" and not src_ok(cl[2][0], 2, n_):
                    problems.append((cl[3], "Named(..) at line %s does not receive the name" % cl[3]))
    missing = [(p_, n_) for p_ in "AEN" for n_ in "AEN" if (p_, n_) not in covered]
    if missing:
        return False, ["combination %s reaches no class" % (missing[0],)], f
    return True, problems, f


def i_class(F, res):
    """from_asset(policy, name, amount) must send each of the four presence combinations to the constructor of its own
    class - lovelace only when *both* are absent - and must test the presence of the caller's policy / name themselves (an
    empty byte string is a policy / name of length 0, not an absent one)."""
    want = {"from_naked_amount": {1: "None", 2: "None"}, "from_named_asset": {1: "None", 2: "Some"}, "from_defined_asset": {1: "Some"}}

    def want_cls(t, callee):
        # helpers of the module that choose the class themselves (`AssetClass::from_parts(policy, name)`); the three class
        # constructors and the amount constructor stay calls
        return _asset_helpers(t, callee) and callee.get("name") not in want and callee.get("name") != "from_class_and_amount"
    _KEEP.append(want_cls)
    f = mir.inline_calls(F, F.fn(CA + "::from_asset"), want=want_cls, depth=2)
    du = mir.DefUse(f)
    BY_VARIANT = {"Naked": "from_naked_amount", "Named": "from_named_asset", "Defined": "from_defined_asset"}
    names = {1: "policy", 2: "name"}
    reached = {}
    indirect = []
    seen = set()
    st = [(0, (None, None))]
    while st:
        bi, state = st.pop()
        if (bi, state) in seen:
            continue
        seen.add((bi, state))
        b = f["blocks"][bi]
        if b["cleanup"]:
            continue
        dmap = {}
        for s in b["s"]:
            if s["rv"]["k"] == "discr":
                prm, direct = _param_of_place(f, du, s["rv"]["pl"], 2)
                if prm is not None:
                    dmap[s["lhs"]["l"]] = prm
                    if not direct:
                        indirect.append((s["line"], prm))
        for s in b["s"]:
            if s["rv"]["k"] == "agg" and s["rv"].get("adt") == "tx3_tir::model::assets::AssetClass" and s["rv"].get("variant") in BY_VARIANT and b.get("inl"):
                # the class is built in place by an inlined helper
                reached.setdefault(BY_VARIANT[s["rv"]["variant"]], set()).add((state, s["line"]))
        t = b["t"]
        if t["k"] == "call":
            c = (t.get("callee") or "").split("::")[-1]
            if c in want and (t.get("callee") or "").startswith(CA):
                reached.setdefault(c, set()).add((state, t["line"]))
            if t.get("t") is not None:
                st.append((t["t"], state))
        elif t["k"] == "switch":
            pl = mir.op_place(t["discr"])
            prm = dmap.get(pl["l"]) if pl is not None else None
            if prm is not None:
                for v, tb in t["targets"]:
                    ns = list(state)
                    ns[prm - 1] = "None" if v == 0 else "Some"
                    st.append((tb, tuple(ns)))
                have = {v for v, _ in t["targets"]}
                for v in (0, 1):
                    if v not in have:
                        ns = list(state)
                        ns[prm - 1] = "None" if v == 0 else "Some"
                        st.append((t["otherwise"], tuple(ns)))
            else:
                for n in mir.block_succs(b):
                    st.append((n, state))
        else:
            for n in mir.block_succs(b):
                st.append((n, state))
    if not reached:
        raise BrokenCheck("from_asset no longer calls the class constructors")
    key = f["path"] + "|each presence combination goes to its own class"
    bad = []
    for c, states in sorted(reached.items()):
        for state, line in sorted(states, key=lambda x: str(x)):
            for prm, val in want[c].items():
                got = state[prm - 1]
                if got != val:
                    bad.append((line, "%s(..) is reached with %s = %s" % (c, names[prm], got or "untested (present or absent)")))
    if indirect:
        bad.append((indirect[0][0], "the presence test is not on the caller's own `%s` (a call such as Option::filter stands in between: e.g. an empty byte string is turned into an absent one)" % names[indirect[0][1]]))
    by3 = None
    if bad:
        # the presence reading does not fit this shape: read it over (absent, empty, non-empty) with every constructor inlined
        decided, problems, f3 = _class3(F)
        if decided and not problems:
            bad = []
            by3 = "decided over (absent, empty, non-empty) with the constructors inlined: Defined <- policy non-empty; Named <- name non-empty otherwise; Naked <- neither; payloads from their own parameter"
        elif decided:
            bad = [(l_, m_) for l_, m_ in problems]
    if by3:
        res.add([ok("I-CLASS", key, where(f), by3)])
    elif bad:
        res.add([finding("I-CLASS", key, where(f, bad[0][0]), "; ".join(sorted({b2 for _, b2 in bad})) + ": two different asset classes are merged by the constructor, so equal-looking values built through different constructors differ and the expression round trip changes the value")])
    else:
        res.add([ok("I-CLASS", key, where(f), "naked <- (None, None); named <- (None, Some); defined <- (Some, _); tests are on the parameters themselves")])
    # payload order: defined(policy, name): arg0 from policy's payload, arg1 from name's payload
    key2 = f["path"] + "|payloads are passed in (policy, name) order"
    swapped = False
    for bi, t in mir.calls(f):
        c = (t.get("callee") or "")
        if c == CA + "::from_defined_asset":
            for ai, prm in ((0, 1), (1, 2)):
                for o in mir.provenance(f, du, t["args"][ai]):
                    if o.kind in ("local", "arg", "agg"):
                        # find which parameter the payload belongs to
                        pass
                pl = mir.op_place(t["args"][ai])
                # walk back to the `as Some.0` read
                cur = pl
                hops = 0
                while cur is not None and hops < 6:
                    hops += 1
                    defs = du.defs.get(cur["l"], [])
                    if len(defs) != 1 or defs[0][0] == "call":
                        break
                    rv = defs[0][3]["rv"]
                    src = rv.get("pl") if rv["k"] == "ref" else mir.op_place(rv.get("op")) if rv["k"] in ("use", "cast") else None
                    if src is None:
                        break
                    if any(q[0] in ("dc", "f") for q in src["p"]):
                        got, _ = _param_of_place(f, du, {"l": src["l"], "p": [q for q in src["p"] if not (q[0] == "dc" or (q[0] == "f" and len(q) > 3 and q[3] == "Some"))][:1]}, 2)
                        if got is not None and got != prm:
                            swapped = True
                        break
                    cur = src
    if swapped:
        res.add([finding("I-CLASS", key2, where(f), "from_defined_asset receives the name where the policy belongs (or vice versa)")])
    else:
        res.add([ok("I-CLASS", key2, where(f), "policy payload -> first argument, name payload -> second")])


# ------------------------------------------------------------------------------------------------
# C-ORDER: `contains` is the component-wise >= order on non-negative amounts (decided over order types)

def _spec_contains_total(sc):
    """what the property states for one entry `o` of the value to be contained, `s` = the containing value's amount of that
    class (absent = 0): zero entries are immaterial; otherwise contained iff s >= o.  Negative amounts are outside the stated
    domain (None = not specified)."""
    r = sc["rank"]
    zero = r[("const", 0)]
    o = r[("iter",)]
    if o < zero:
        return None
    if sc["present"]:
        sv = r[("get",)]
        if sv < zero:
            return None
    else:
        sv = zero
    if o == zero:
        return "continue"
    return "continue" if sv >= o else False


def _spec_nonpositive(sc):
    """is_empty_or_negative: false as soon as one amount is positive"""
    r = sc["rank"]
    return False if r[("iter",)] > r[("const", 0)] else "continue"


def _spec_all_zero(sc):
    r = sc["rank"]
    return "continue" if r[("iter",)] == r[("const", 0)] else False


ORDER_SPECS = [
    # (function, uses a lookup in the other operand, spec, result when every entry passed, what the property says)
    ("tx3_tir::model::assets::CanonicalAssets::contains_total", True, _spec_contains_total, True,
     "`contains` is exactly the component-wise >= order on non-negative amounts; zero entries are immaterial"),
    ("tx3_tir::model::assets::CanonicalAssets::is_empty_or_negative", False, _spec_nonpositive, True,
     "a value is `empty or negative` iff no amount is positive (the selection's stop condition)"),
]


_INTS = ("i128", "u128", "i64", "u64", "i32", "u32", "isize", "usize", "i16", "u16", "i8", "u8")


def c_order(F, res, rule="C-ORDER", specs=ORDER_SPECS):
    from .. import ordering
    for path, uses_get, spec, all_pass, text in specs:
        f = F.fns.get(path)
        key = "%s|entry-wise decision table" % path
        if f is None:
            res.add([assumption(rule, key, "crates/tx3-tir/src/model/assets.rs", "%s not found under this name: its decision table is not decided" % path.split("::")[-1])])
            continue
        w = where(f)
        # the order is component-wise: no amount of one class is ever added to an amount of another.  `sum()` / `product()`
        # over the amounts (in the predicate, a helper of the module or a closure) is an unchecked aggregate across classes -
        # it overflows on values whose every entry is in range, and whatever is decided from it is not decided per entry
        fi = mir.inline_calls(F, f, want=_asset_helpers, depth=3)
        agg = []
        for g in with_closures(F, fi):
            for bi, t in mir.calls(g):
                c = t.get("callee") or ""
                if c in ("std::iter::Iterator::sum", "std::iter::Iterator::product") and any(a in _INTS for a in (t.get("gargs") or [])):
                    agg.append((g, t["line"], c.split("::")[-1]))
        key_a = "%s|no aggregate across classes" % path
        if agg:
            g, l_, nm = agg[0]
            res.add([finding(rule, key_a, where(g, l_), "%s decides from `%s()` over the amounts of all classes: an unchecked aggregate across classes (overflow on two entries that are each in range) stands where the property states an entry-by-entry comparison" % (path.split("::")[-1], nm))])
        else:
            res.add([ok(rule, key_a, w, "no sum() / product() over amounts in the predicate, its helpers or closures")])
        try:
            ep = ordering.predicate(F, f)
            lits, rows = ep.table(uses_get=uses_get)
            ex = ep.exhausted_result()
        except ordering.Shape as e:
            res.add([assumption(rule, key, w, "not of the entry-wise comparison shape (%s): decision table not decided" % e)])
            continue
        bad = []
        checked = 0
        for sc, v in rows:
            want = spec(sc)
            if want is None:
                continue
            checked += 1
            if v != want:
                bad.append("%s: the code says %s, the property says %s" % (ordering.describe(sc, lits), v, want))
        if ex is not None and ex != all_pass:
            bad.append("when every entry passes the result is %s instead of %s" % (ex, all_pass))
        # a verdict reached before any entry is looked at holds for every content of the iterated map, the empty one included:
        # it has to be the vacuous verdict unless the test that leads to it looks at the iterated map
        undecided = []
        for v, params in ep.prefix_returns():
            if v == all_pass:
                continue
            if ep.iter_arg in params:
                undecided.append("an early return guarded by a test of the iterated operand")
            else:
                bad.append("the result is %s before any entry is looked at, decided by a test that does not look at the iterated operand: with nothing to compare the property says %s" % (v, all_pass))
        if bad:
            res.add([finding(rule, key, w, "%s - %s" % (text, "; ".join(bad[:3])))])
        elif undecided:
            res.add([assumption(rule, key, w, "%s: not decided" % undecided[0])])
        else:
            res.add([ok(rule, key, w, "%d order types of (amount, other amount, 0) inside the stated domain agree with: %s" % (checked, text))])


# ------------------------------------------------------------------------------------------------
# I-POINTWISE: + / - / unary - act entry by entry with that very operator

def i_pointwise(F, res):
    """Add and Sub merge the right operand's entries into the left operand's map by `entry op= value` with op = + resp. -
    (left operand first for -), Neg replaces every amount by its negation.  Recognised shapes: the in-place merge loop (also
    through a shared helper taking the operator as a closure) and `a - b = a + (-b)` by delegation.  Another shape is not
    decided (assumption), never reported."""
    OPS = {"std::ops::Add": ("add", ("Add", "AddWithOverflow"), "+"), "std::ops::Sub": ("sub", ("Sub", "SubWithOverflow"), "-")}
    for tr, (meth, binops, sym) in OPS.items():
        f0 = _impl_of(F, tr, meth)
        key = "%s|%s is entry-wise %s" % (CA, meth, sym)
        if f0 is None:
            res.add([finding("I-POINTWISE", key, "crates/tx3-tir/src/model/assets.rs", "CanonicalAssets does not implement %s" % tr)])
            continue
        w = where(f0)

        def want(t, callee):
            return callee["crate"] == "tx3_tir" and not callee.get("impl_trait") and len(callee["blocks"]) <= 120
        _KEEP.append(want)
        f = mir.inline_calls(F, f0, want=want, depth=2)
        du = mir.DefUse(f)
        # delegation: Sub = Add(self, Neg(other))
        calls = [(bi, t) for bi, t in mir.calls(f)]
        deleg = [t for bi, t in calls if (t.get("resolved") or "").startswith("<%s as std::ops::" % CA)]
        # closures created here whose body was not already inlined at its call site
        inl = {b.get("inl") for b in f["blocks"]}
        bodies = [f] + [F.fns[st["rv"]["closure"]] for _, _, st in mir.stmts(f) if st["rv"]["k"] == "agg" and st["rv"].get("closure") in F.fns and st["rv"]["closure"] not in inl]
        ar = []
        for b in bodies:
            for bi, si, st in mir.stmts(b):
                rv = st["rv"]
                if rv["k"] == "binop" and rv.get("ty") == "i128" and rv["op"] in ("Add", "Sub", "Mul", "Div", "Rem", "AddWithOverflow", "SubWithOverflow", "MulWithOverflow", "BitXor", "BitAnd", "BitOr", "Shl", "Shr"):
                    ar.append((b, st))
                elif rv["k"] == "unop" and rv.get("op") == "Neg":
                    ar.append((b, st))
            for bi, t in mir.calls(b):
                n = (t.get("callee") or "").split("::")[-1]
                if n.startswith(("checked_", "wrapping_", "saturating_", "overflowing_")) and "i128" in (t.get("callee") or ""):
                    ar.append((b, {"rv": {"k": "callop", "op": n, "a": t["args"][0], "b": t["args"][1] if len(t["args"]) > 1 else None}, "line": t["line"]}))
        if deleg and not ar:
            names = sorted({(t.get("resolved") or "").split("::")[-1] for t in deleg})
            if meth == "sub" and names == ["add", "neg"]:
                # a - b = a + (-b): the negated operand must be the right one
                negt = [t for t in deleg if (t.get("resolved") or "").endswith("::neg")][0]
                src = {o.local for o in mir.provenance(f, du, negt["args"][0]) if o.kind == "arg"}
                if src == {2}:
                    res.add([ok("I-POINTWISE", key, w, "a - b is computed as a + (-b)")])
                else:
                    res.add([finding("I-POINTWISE", key, w, "subtraction negates the wrong operand")])
            else:
                res.add([assumption("I-POINTWISE", key, w, "delegates to %s: not decided" % ", ".join(names))])
            continue
        if len(ar) != 1:
            if not ar:
                res.add([assumption("I-POINTWISE", key, w, "no amount arithmetic found in the recognised shapes: not decided")])
            else:
                res.add([finding("I-POINTWISE", key, w, "%s combines amounts with %d arithmetic operations (%s) where one entry-wise `%s` is expected" % (
                    meth, len(ar), ", ".join(sorted({st["rv"].get("op", "?") for _, st in ar})), sym))])
            continue
        b, st = ar[0]
        rv = st["rv"]
        op = rv.get("op")
        good_op = op in binops or (rv["k"] == "callop" and op in ("checked_" + meth, "overflowing_" + meth))
        if not good_op:
            res.add([finding("I-POINTWISE", key, where(f0, st["line"]), "%s combines the amounts with `%s` instead of `%s`" % (meth, op, sym))])
            continue
        # operand roles: left = the accumulated entry (a `&mut i128` obtained from the left operand's map / the closure's first
        # parameter), right = the right operand's amount
        db = mir.DefUse(b)

        def role(o):
            if o is None:
                return "?"
            pl = mir.op_place(o)
            if pl is None:
                return "const"
            org = mir.provenance(b, db, o)
            if any(x.kind == "call" and (x.callee.split("::")[-1] in ("or_default", "or_insert", "or_insert_with", "entry", "get_mut")) for x in org):
                return "entry"
            if b is not f and any(x.kind == "arg" and x.local == 2 for x in org):
                return "entry"     # closure |acc, v|: first parameter
            if b is not f and any(x.kind == "arg" and x.local == 3 for x in org):
                return "value"
            if any(x.kind == "call" and x.term.get("method") in ("next",) for x in org):
                return "value"
            return "?"
        ra, rb = role(rv["a"]), role(rv.get("b"))
        if (ra, rb) == ("entry", "value") or (meth == "add" and (ra, rb) == ("value", "entry")):
            res.add([ok("I-POINTWISE", key, where(f0, st["line"]), "entry %s= value of the right operand" % sym)])
        elif "?" in (ra, rb):
            res.add([assumption("I-POINTWISE", key, where(f0, st["line"]), "operands of the amount arithmetic not recognised (%s, %s): not decided" % (ra, rb))])
        else:
            res.add([finding("I-POINTWISE", key, where(f0, st["line"]), "%s computes `%s %s %s`: the operands are swapped (a - b becomes b - a)" % (meth, ra, sym, rb))])
    # Neg: every amount is replaced by its negation, nothing else is computed
    f0 = _impl_of(F, "std::ops::Neg", "neg")
    key = "%s|neg negates every amount" % CA
    if f0 is None:
        res.add([finding("I-POINTWISE", key, "crates/tx3-tir/src/model/assets.rs", "CanonicalAssets does not implement Neg")])
        return
    def want_n(t, callee):
        return callee["crate"] == "tx3_tir" and not callee.get("impl_trait") and len(callee["blocks"]) <= 120
    _KEEP.append(want_n)
    # the module's helpers inlined (`Self(amounts::negate_all(self.0))`), with the closures they create
    fi = mir.inline_calls(F, f0, want=want_n, depth=2)
    bodies = with_closures(F, fi)
    seen_b = {b["path"] for b in bodies}
    bodies += [c for c in F.fns.values() if c.get("owner") == f0["path"] and c["path"] not in seen_b]
    negs, others = [], []
    for b in bodies:
        for bi, si, st in mir.stmts(b):
            rv = st["rv"]
            if rv["k"] == "unop" and rv.get("op") == "Neg":
                negs.append(st)
            elif rv["k"] == "binop" and rv.get("ty") == "i128" and rv["op"] not in ("Eq", "Ne", "Lt", "Le", "Gt", "Ge"):
                others.append(st)
        for bi, t in mir.calls(b):
            n = (t.get("callee") or "").split("::")[-1]
            if n in ("checked_neg", "wrapping_neg", "overflowing_neg"):
                negs.append({"line": t["line"]})
            elif n in ("abs", "unsigned_abs", "signum") and "i128" in (t.get("callee") or ""):
                others.append({"line": t["line"], "rv": {"op": n}})
    if others:
        res.add([finding("I-POINTWISE", key, where(f0, others[0]["line"]), "neg computes something other than the negation of each amount (%s)" % others[0].get("rv", {}).get("op"))])
    elif len(negs) == 1:
        res.add([ok("I-POINTWISE", key, where(f0, negs[0]["line"]), "each amount v is replaced by -v")])
    elif not negs:
        res.add([finding("I-POINTWISE", key, where(f0), "neg never negates an amount: -a = a")])
    else:
        res.add([assumption("I-POINTWISE", key, where(f0), "%d negations: shape not recognised, not decided" % len(negs))])


_KEEP = []


ACCESSOR_SPEC = {
    # accessor -> {variant: index of the payload field it hands out, or None}
    "policy": {"Naked": None, "Named": None, "Defined": "0"},
    "name": {"Naked": None, "Named": "0", "Defined": "1"},
}


def i_accessor(F, res):
    """I-ACCESSOR: the two read accessors of an asset class - the only way the rest of the workspace (the conversion of a value
    back into IR asset expressions in particular) learns the policy and the name - return, variant by variant, what the class
    holds: `policy()` is `Some(field 0)` for Defined and None otherwise, `name()` is `Some(field 0)` for Named, `Some(field 1)`
    for Defined and None for Naked.  Decided by following the match on self under each variant (E16)."""
    AC = "tx3_tir::model::assets::AssetClass"
    adt = F.adts.get(AC)
    if adt is None or {v["name"] for v in adt["variants"]} != {"Naked", "Named", "Defined"}:
        res.add([assumption("I-ACCESSOR", AC + "|accessors", "crates/tx3-tir/src/model/assets.rs", "AssetClass no longer has the variants Naked / Named / Defined: not decided")])
        return
    vbn = {v["name"]: v["discr"] for v in adt["variants"]}
    for acc, spec in ACCESSOR_SPEC.items():
        f = F.fns.get("%s::%s" % (AC, acc))
        key = "%s::%s|per-variant result" % (AC, acc)
        if f is None:
            res.add([assumption("I-ACCESSOR", key, "crates/tx3-tir/src/model/assets.rs", "accessor not found under this name: not decided")])
            continue
        du = mir.DefUse(f)
        bad = []
        for vname, want in spec.items():
            reach = mir.reach_under_variants(f, {1: vname}, AC, vbn, F=F)
            got = set()
            for bi, si, st in mir.stmts(f):
                rv = st["rv"]
                if bi in reach and st["lhs"]["l"] == 0 and not st["lhs"]["p"] and rv["k"] == "agg" and rv.get("adt", "").endswith("::Option"):
                    if rv["variant"] == "None":
                        got.add(None)
                    else:
                        idx = "?"
                        for o in mir.provenance(f, du, rv["ops"][0], transparent_extra=("std::ops::Deref::deref", "std::vec::Vec::<T, A>::as_slice", "std::convert::AsRef::as_ref", "std::borrow::Borrow::borrow")):
                            if o.kind == "arg" and o.local == 1:
                                # an arm shared by an or-pattern binds the same name under each variant: only the binding of
                                # the variant in hand counts
                                casts = [p_[4:] for p_ in o.proj if p_.startswith(" as ")]
                                if casts and casts[0] != vname:
                                    continue
                                nums = [p_[1:] for p_ in o.proj if p_[:1] == "." and p_[1:].isdigit()]
                                idx = nums[-1] if nums else "?"
                        got.add(idx)
            if not got:
                bad = None
                break
            if got != {want}:
                bad.append("%s: returns %s where the class holds %s" % (vname, sorted("None" if g is None else "field " + g for g in got), "nothing of the kind" if want is None else "field " + want))
        if bad is None:
            res.add([assumption("I-ACCESSOR", key, where(f), "the accessor is not a match on self with Some(..) / None arms: not decided")])
        elif bad:
            res.add([finding("I-ACCESSOR", key, where(f), "AssetClass::%s() - %s: a class loses (or swaps) its %s when a value is turned back into asset expressions" % (acc, "; ".join(bad), acc))])
        else:
            res.add([ok("I-ACCESSOR", key, where(f), "Naked / Named / Defined -> " + ", ".join("%s" % ("None" if spec[v] is None else "field " + spec[v]) for v in ("Naked", "Named", "Defined")))])


def order_home(F, res):
    """C-HOME: the entry-wise order on asset values is decided in one place.  Outside model/assets.rs no function of the
    workspace walks the entries of a CanonicalAssets *and* compares two amounts with each other (a comparison of two non-literal
    i128 operands in that function or in the closures it hands to the iterator; sign tests against a literal are fine): a containment / spare test re-implemented at a call site is not covered by C-ORDER, and
    the obvious re-implementations get the absent-entry case wrong (the difference of two values has no entry for a class that
    cancels exactly).  Walking the entries to render or convert them is fine."""
    n = 0
    bad = []
    for p, f in sorted(F.fns.items()):
        if not f["crate"].startswith("tx3") or f.get("derived") or _in_assets_module(f) or f["def_kind"] == "Closure":
            continue
        sites = []
        for b in with_closures(F, f):
            for bi, t in mir.calls(b):
                c = t.get("resolved") or t.get("callee") or ""
                last = c.split("::")[-1]
                if c == "<%s as std::ops::Deref>::deref" % CA:
                    # the map itself, borrowed through Deref: an iteration over it follows in this body
                    if any((t2.get("callee") or "").split("::")[-1] in ("iter", "values", "keys", "into_iter") and "HashMap" in (t2.get("callee") or "") + " ".join(t2.get("gargs") or []) for _, t2 in mir.calls(b)):
                        sites.append((b, t))
                    continue
                if last not in ("iter", "into_iter", "values", "iter_mut", "keys") or not t["args"]:
                    continue
                pl = mir.op_place(t["args"][0])
                ty = b["locals"][pl["l"]] if pl is not None else ""
                if CA in ty or c.startswith(CA + "::"):
                    sites.append((b, t))
        if not sites:
            continue
        n += 1
        cmps = []
        for b in with_closures(F, f):
            for bi, si, st in mir.stmts(b):
                rv = st["rv"]
                if rv["k"] == "binop" and rv["op"] in ("Lt", "Le", "Gt", "Ge", "Eq", "Ne"):
                    tys = set()
                    for o in (rv["a"], rv["b"]):
                        pl = mir.op_place(o)
                        c = mir.op_const(o)
                        tys.add(b["locals"][pl["l"]] if pl is not None and not pl["p"] else (c or {}).get("ty", ""))
                    # a comparison of two amounts (a sign test against a literal says nothing about another value)
                    if ("i128" in tys or rv.get("ty") == "i128") and mir.op_const(rv["a"]) is None and mir.op_const(rv["b"]) is None:
                        cmps.append(st["line"])
            for bi, t in mir.calls(b):
                c = t.get("callee") or ""
                if c.split("::")[-1] in ("lt", "le", "gt", "ge", "eq", "ne") and ("PartialOrd" in c or "PartialEq" in c) and "i128" in " ".join(t.get("gargs") or []) \
                        and all(mir.op_const(a) is None for a in t["args"]):
                    cmps.append(t["line"])
        if cmps:
            bad.append((f, sites[0][1]["line"], cmps[0]))
    key = "workspace|entry-wise comparisons of asset values live in model/assets.rs"
    if bad:
        f, l1, l2 = bad[0]
        res.add([finding("C-HOME", "%s|walks the entries of an asset value and compares amounts" % f["path"], where(f, l1),
                         "%s iterates a CanonicalAssets and compares the amounts itself (line %s) instead of using the order predicates of the asset module: the test is outside what C-ORDER decides, and a class missing from one side (an exactly cancelled one) is easily treated as unconstrained" % (f["path"].split("::")[-1], l2))])
    else:
        res.add([ok("C-HOME", key, "crates/tx3-tir/src/model/assets.rs", "%d function(s) outside the module walk the entries, none compares amounts" % n)])


def run(ctx):
    F = ctx.F
    res = Result("C15")
    res.rule("I-NORMAL", "every construction of CanonicalAssets establishes the zero-free normal form")
    res.rule("I-PRIVATE", "nobody outside assets.rs can build or mutate the map")
    res.rule("I-CLASS", "from_asset sends each (policy present?, name present?) combination to the constructor of its own asset class")
    res.rule("C-ORDER", "contains_total / is_empty_or_negative decide each entry exactly as the property states, over every order type of the amounts involved")
    res.rule("I-POINTWISE", "+, - and unary - act on the amounts entry by entry with that very operator and operand order")
    i_normal(F, res)
    i_private(F, res)
    i_class(F, res)
    c_order(F, res)
    i_pointwise(F, res)
    res.rule("I-ACCESSOR", "AssetClass::policy() / name() return, variant by variant, what the class holds")
    i_accessor(F, res)
    res.rule("C-HOME", "outside the asset module nobody walks the entries of an asset value to compare amounts")
    order_home(F, res)
    if ctx.tier == "thorough":
        from ..common import run_witnesses
        passed, failed, tail = run_witnesses()
        key = "witness crate|compile-fail witnesses and twins"
        if failed == 0 and passed >= 8:
            res.add([ok("I-PRIVATE", key, "witness/src/lib.rs", "%d doc-tests: constructing / reading / mutating the map from outside fails to compile (E0603, E0616, E0596); twins compile" % passed)])
        else:
            res.add([finding("I-PRIVATE", key, "witness/src/lib.rs", "a compile-fail witness no longer fails (or a twin no longer compiles): %s" % tail[-400:])])
    res.add([assumption("DESER", CA, "crates/tx3-tir/src/model/assets.rs", "the derived Deserialize is a second constructor: a decoded UTxO may carry zero entries (values decoded from the wire are not re-normalised)")])
    # x - y = x + (-y) through the reducer needs sums and negations of asset values to stay asset values (`None` is the absent
    # operand: `None - y` is `y`): rule shared with C01
    from . import c01
    res.rule("KIND", "asset arithmetic of the reducer never yields the absent operand None")
    c01.arith_kind(F, res)
    return res
