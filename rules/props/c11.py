"""C11 -- the TIR wire format round-trips and rejects garbage gracefully.

Static clauses:
  WIRE     for every type reachable from v1beta0::Tx (and the argument/UTxO model types): Serialize and Deserialize are both
           derived (not hand-written); the names the writer emits (serialize_field / *_variant constants) equal the names the
           reader accepts (the __FieldVisitor::visit_str comparisons) and cover every field / variant of the type (no skip,
           no one-sided rename): decode . encode is then the identity on structure
  IDENT    Utxo's hand-written Hash and PartialEq read the same field set
  GATE     from_bytes decodes only versions >= MIN_SUPPORTED_VERSION and TirVersion::try_from has an error arm for unknown text
  DEPTH    the recursion limit the CBOR reader is created with is a literal constant (not a function of the payload) small
           enough for the stack: nesting bombs are rejected with an error instead of overflowing the stack
  SCRATCH  an explicit scratch buffer handed to the CBOR reader holds the longest field / variant name of the WIRE tables
           (ciborium rejects names that do not fit; the library default of 4096 bytes does)
  PANIC    no undischarged panic site in the workspace closure of from_bytes / to_bytes / TirVersion::try_from
  HANDCODE (conversions)  a `#[serde(from / into / try_from = ..)]` conversion on the wire path must re-wrap the representation:
           one that calls workspace constructors, merges, filters, reorders or computes on one side of the codec only is a
           finding (dropping zero amounts, excluded by C15's normal form, is accepted)
  WIRE (skips)  a field the generated writer may skip (skip_serializing_if) is defaulted by the generated reader of the same type
Not decided: panics / aborts inside ciborium or serde on hostile bytes (dependency code); the stack actually needed per level
of nesting (runtime quantity; DEPTH decides that the configured bound is a small constant).
"""
import re

from .. import mir, e3_trav as e3
from ..common import keyed_collapses, CallGraph, table, call_matches, is_derive, with_closures
from ..engine import Result, ok, finding, assumption, where
from ..facts import BrokenCheck
from . import c12

META = {
    "level": "other",
    "explanation": (
        "Writer/reader table equality for every IR type, read from the MIR of the serde-derived impls (constants passed to "
        "serialize_field / serialize_*_variant versus constants compared in the generated __FieldVisitor::visit_str), checked "
        "against the ADT definitions; derive-only rule; agreement of Utxo's hand-written Hash/PartialEq; version-gate arm "
        "rule on from_bytes/TirVersion::try_from; panic inventory over the workspace part of the codec. Structural identity of "
        "decode(encode(t)) follows for every IR value at once."),
    "trusted_base": ["rustc MIR, driver", "serde's derive semantics (a field written under name n is read back from key n)", "ciborium is self-describing (maps keyed by field name)"],
    "not_decided": ["panics/aborts inside ciborium/serde on arbitrary bytes; recursion depth on nesting bombs", "container iteration order of hash maps (C18)"],
}

ROOT_TYPES = ["tx3_tir::model::v1beta0::Tx", "tx3_tir::reduce::ArgValue", "tx3_tir::encoding::AnyTir"]


def wire_family(F):
    fam = set(ROOT_TYPES)
    changed = True
    while changed:
        changed = False
        for p in list(fam):
            a = F.adts.get(p)
            if a is None:
                continue
            for v in a["variants"]:
                for fd in v["fields"]:
                    for m in e3.IDENT_RE.findall(fd["ty"]):
                        if m in F.adts and m.startswith("tx3_tir::") and m not in fam and "::_::" not in m and "<impl" not in m:
                            fam.add(m)
                            changed = True
    return fam


def serde_fns(F, ty):
    ser = None
    de_visit = []
    for p, f in F.fns.items():
        if f["crate"] != "tx3_tir":
            continue
        if p.endswith("Serialize for %s>::serialize" % ty):
            ser = f
        if ("Deserialize<'de> for %s>::deserialize::" % ty) in p and p.endswith("::visit_str"):
            de_visit.append(f)
    return ser, de_visit


def wire(F, res):
    fam = wire_family(F)
    res.count("wire types", len(fam))
    res.floor("wire types", len(fam), 24)
    impls = {}
    for i in F.impls:
        tr = i.get("trait", "")
        if tr.endswith("_serde::Serialize") or tr.endswith("_serde::Deserialize") or tr in ("serde::Serialize", "serde::Deserialize"):
            impls.setdefault(i["self"], {})["S" if tr.endswith("Serialize") else "D"] = i
    for ty in sorted(fam):
        a = F.adt(ty)
        w = "%s:%s" % (a["file"].replace("/repo/", ""), a["line"])
        short = ty.split("::")[-1]
        key = "%s|derived both ways" % ty
        im = impls.get(ty, {})
        if "S" not in im or "D" not in im:
            res.add([finding("WIRE", key, w, "%s lacks a Serialize or Deserialize impl although it is part of the IR" % short)])
            continue
        if not (im["S"]["derived"] and im["D"]["derived"]):
            res.add([finding("WIRE", key, w, "%s has a hand-written Serialize/Deserialize impl: writer and reader tables cannot be compared" % short)])
            continue
        res.add([ok("WIRE", key, w, "both impls are #[derive]d")])
        ser, visits = serde_fns(F, ty)
        positional = (not a["is_enum"]) and all(fd["name"].isdigit() for fd in a["variants"][0]["fields"])
        if positional:
            res.add([ok("WIRE", "%s|writer = reader = definition" % ty, w, "tuple/newtype struct: positional encoding, no names to compare")])
            continue
        if ser is None or not visits:
            raise BrokenCheck("derived serde functions of %s not found in the facts" % ty)
        wvars, wfields = set(), set()
        for bi, t in mir.calls(ser):
            c = t.get("callee") or ""
            strs = [mir.op_const(x)["str"] for x in t["args"] if mir.op_const(x) and "str" in mir.op_const(x)]
            if re.search(r"serialize_(newtype|unit|tuple|struct)_variant$", c):
                if len(strs) >= 2:
                    wvars.add(strs[1])
            elif c.endswith("::serialize_field"):
                if strs:
                    wfields.add(strs[0])
        reader = set()
        for v in visits:
            for bi, t in mir.calls(v):
                if (t.get("callee") or "") == "std::cmp::PartialEq::eq" or (t.get("callee") or "").endswith("PartialEq for str>::eq"):
                    for x in t["args"]:
                        cc = mir.op_const(x)
                        if cc and "str" in cc:
                            reader.add(cc["str"])
        writer = wvars | wfields
        WIRE_NAMES.update(writer)
        if a["is_enum"]:
            names = {v["name"] for v in a["variants"]}
            fnames = {fd["name"] for v in a["variants"] for fd in v["fields"] if not fd["name"].isdigit()}
            want = names | fnames
        else:
            want = {fd["name"] for fd in a["variants"][0]["fields"] if not fd["name"].isdigit()}
        key2 = "%s|writer = reader = definition" % ty
        problems = []
        if writer != reader:
            problems.append("writer emits %s but reader accepts %s" % (sorted(writer - reader), sorted(reader - writer)))
        missing = want - writer
        if missing:
            problems.append("fields/variants never written (skipped or renamed): %s" % sorted(missing))
        extra = writer - want
        if extra:
            problems.append("wire names that are not fields/variants of the type (renamed): %s" % sorted(extra))
        if problems:
            res.add([finding("WIRE", key2, w, "%s: %s" % (short, "; ".join(problems)))])
        else:
            res.add([ok("WIRE", key2, w, "%d names: %s" % (len(writer), ",".join(sorted(writer))[:120]))])


_KEEP = []


def wire_skip(F, res):
    """WIRE (skips): a field the generated *writer* may leave out (`#[serde(skip_serializing_if = ..)]`: a `skip_field("name")`
    call in the generated serialize) is a field the generated *reader* can do without (`#[serde(default)]`: no
    `missing_field("name")` in the generated deserialize of the same type).  Otherwise the encoder produces bytes - an
    ad-hoc directive with an empty `data` map, say - that from_bytes rejects with "missing field"."""
    skip, miss = {}, {}
    n = 0
    for p, f in F.fns.items():
        if f["crate"] != "tx3_tir" or not is_derive(f):
            continue
        m = re.search(r"(Serialize|Deserialize<'de>) for ([^>]+(?:<[^>]*>)?)>", p)
        if not m:
            continue
        du = None
        for bi, t in mir.calls(f):
            c = t.get("callee") or ""
            if not (c.endswith("::skip_field") or c.endswith("missing_field")):
                continue
            n += 1
            du = du or mir.DefUse(f)
            names = {mir.promoted_str(F, o.const) for a in t["args"] for o in mir.provenance(f, du, a) if o.kind == "const"}
            names.discard(None)
            (skip if c.endswith("skip_field") else miss).setdefault(m.group(2), set()).update(names)
    res.count("required-field checks in generated readers", n)
    bad = []
    for ty, names in sorted(skip.items()):
        both = sorted(names & miss.get(ty, set()))
        if both:
            bad.append((ty, both))
    key = "tx3_tir wire types|a field the writer may skip is optional for the reader"
    if bad:
        ty, both = bad[0]
        a = F.adts.get(ty)
        w = "%s:%s" % (a["file"].replace("/repo/", ""), a["line"]) if a else "crates/tx3-tir/src/model/v1beta0.rs"
        res.add([finding("WIRE", key, w, "%s: the generated writer can leave out `%s` (skip_serializing_if) but the generated reader requires it (no `default`): a value for which the skip condition holds encodes to bytes that from_bytes rejects with a missing-field error" % (
            "; ".join("%s.%s" % (t_.split("::")[-1], "/".join(b_)) for t_, b_ in bad[:3]), bad[0][1][0]))])
    else:
        res.add([ok("WIRE", key, "crates/tx3-tir/src/model", "%d type(s) with skippable fields, each of them defaulted by the reader" % len(skip) if skip else "the generated writers skip no field")])


def ident(F, res):
    UT = "tx3_tir::model::core::Utxo"
    # (with the crate's own helpers inlined: both may read the identity through a private `fn identity(&self) -> &UtxoRef`)
    def _h(t, callee):
        return callee["crate"] == "tx3_tir" and not callee.get("impl_trait") and len(callee["blocks"]) <= 60
    _KEEP.append(_h)
    h = mir.inline_calls(F, F.fn("<%s as std::hash::Hash>::hash" % UT), want=_h, depth=2)
    e = mir.inline_calls(F, F.fn("<%s as std::cmp::PartialEq>::eq" % UT), want=_h, depth=2)

    def fields(f):
        out = set()
        for bi, si, s in mir.stmts(f):
            rv = s["rv"]
            pls = []
            if rv["k"] in ("ref", "rawptr"):
                pls.append(rv["pl"])
            elif rv["k"] in ("use", "cast"):
                pl = mir.op_place(rv["op"])
                if pl is not None:
                    pls.append(pl)
            for pl in pls:
                for p in pl["p"]:
                    if p[0] == "f" and p[2] == UT:
                        out.add(p[1])
        return out
    fh, fe = fields(h), fields(e)
    key = UT + "|Hash and PartialEq agree"
    if fh == fe and fh:
        res.add([ok("IDENT", key, where(h), "both read exactly {%s}" % ",".join(sorted(fh)))])
    else:
        res.add([finding("IDENT", key, where(h), "Hash reads %s but PartialEq reads %s: equal UTxOs may hash differently (or vice versa)" % (sorted(fh), sorted(fe)))])




def gate(F, res):
    """For every value of TirVersion: does from_bytes (helpers of the encoding module inlined) reach a decoding call when it is
    given that version?  Decided per variant by following only the edges that value selects at every `match version` /
    `version == V` / `version != V` test (finite case analysis over the enum)."""
    TV = "tx3_tir::encoding::TirVersion"
    f0 = F.fn("tx3_tir::encoding::from_bytes")

    def want(t, callee):
        return callee["crate"] == "tx3_tir" and not callee.get("impl_trait") and "::encoding::" in callee["path"] and len(callee["blocks"]) <= 200
    _KEEP.append(want)
    f = mir.inline_calls(F, f0, want=want, depth=2)
    adt = F.adt(TV)
    w = where(f0)
    vparams = [i for i in range(1, f0["argc"] + 1) if f0["locals"][i] == TV]
    if len(vparams) != 1:
        raise BrokenCheck("from_bytes no longer takes one TirVersion")
    vp = vparams[0]
    dec = [bi for bi, t in mir.calls(f) if "from_reader" in (t.get("callee") or "") or "ciborium::de" in (t.get("callee") or "")
           or (t.get("callee") or "").endswith("::deserialize")]
    if not dec:
        raise BrokenCheck("from_bytes (helpers inlined) contains no decoding call")
    # MIN_SUPPORTED_VERSION
    minv = None
    for pth, c in F.ctfe.items():
        if c["crate"] == "tx3_tir" and "encoding" in pth and c["locals"] and c["locals"][0] == TV:
            for bi, si, s in mir.stmts(c):
                if s["rv"]["k"] == "agg" and s["rv"].get("adt") == TV:
                    minv = s["rv"]["variant"]
    if minv is None:
        raise BrokenCheck("no TirVersion constant (MIN_SUPPORTED_VERSION) found in tx3_tir::encoding")
    discr = {v["name"]: v["discr"] for v in adt["variants"]}
    for v in adt["variants"]:
        reach = mir.reach_under_variant(f, vp, TV, v["name"], v["discr"], discr, F=F)
        decodes = any(d in reach for d in dec)
        key = "tx3_tir::encoding::from_bytes|version %s" % v["name"]
        if v["discr"] < discr[minv]:
            if decodes:
                res.add([finding("GATE", key, w, "retired version %s (< MIN_SUPPORTED_VERSION %s) is still decoded" % (v["name"], minv))])
            else:
                res.add([ok("GATE", key, w, "retired version is refused")])
        else:
            if decodes:
                res.add([ok("GATE", key, w, "supported version is decoded")])
            else:
                res.add([finding("GATE", key, w, "supported version %s is refused" % v["name"])])
    def _g(t, callee):
        return callee["crate"] == "tx3_tir" and not callee.get("impl_trait") and len(callee["blocks"]) <= 80
    _KEEP.append(_g)
    g = mir.inline_calls(F, F.fn("<tx3_tir::encoding::TirVersion as std::convert::TryFrom<&str>>::try_from"), want=_g, depth=2)
    # the error may also be built by a closure handed to `ok_or_else` / `map_err`
    gb = [g] + [F.fns[st["rv"]["closure"]] for _, _, st in mir.stmts(g) if st["rv"]["k"] == "agg" and st["rv"].get("closure") in F.fns]
    errs = [bi for g_ in gb for bi, si, s in mir.stmts(g_) if s["rv"]["k"] == "agg" and s["rv"].get("adt") == "tx3_tir::encoding::Error" and s["rv"]["variant"] == "UnknownTirVersion"]
    key = g["path"] + "|unknown text is an error"
    if errs:
        res.add([ok("GATE", key, where(g), "fallback arm builds Error::UnknownTirVersion")])
    else:
        res.add([finding("GATE", key, where(g), "TirVersion::try_from has no error arm for unknown version strings")])


def handcode(F, res):
    """Writer/reader agreement is argued from serde's derive.  Any hand-written function inside the call-graph closure of the
    derived Serialize/Deserialize impls (a `#[serde(with = ..)]` module, a `serialize_with`/`deserialize_with` helper, a
    custom Visitor) takes that part of the wire format out of the argument: reader and writer are then two independent pieces
    of code (and e.g. ciborium's `deserialize_bytes` only hands over byte strings that fit its 4096-byte scratch buffer)."""
    roots = [p for p, f in F.fns.items() if f["crate"] == "tx3_tir" and re.search(r"(Serialize|Deserialize<'de>) for .*>::(serialize|deserialize)$", p) and is_derive(f)]
    res.count("derived codec entry points", len(roots))
    res.floor("derived codec entry points", len(roots), 40)
    gen = [f for f in F.fns.values() if f["crate"] == "tx3_tir" and is_derive(f) and "_serde::" in f["path"]]
    res.count("serde-generated functions", len(gen))
    res.floor("serde-generated functions", len(gen), 200)
    bad = {}
    side_of = {}    # hand-written function -> {("reader" | "writer", wire type)}
    # (a) a derive-generated function calls (or names) a hand-written workspace function directly
    for f in gen:
        for bi, t in mir.calls(f):
            for r in [t.get("resolved"), t.get("callee")] + list(t.get("fnrefs") or []):
                g = F.fns.get(r) if r else None
                if g is not None and g["crate"].startswith("tx3") and not is_derive(g):
                    bad.setdefault(r, "called from the generated %s" % f["path"].split("::")[-1])
                    m = re.search(r"(Serialize|Deserialize<'de>) for ([^>]+(?:<[^>]*>)?)>", f["path"])
                    if m:
                        side_of.setdefault(r, set()).add(("writer" if m.group(1) == "Serialize" else "reader", m.group(2)))
    # (b) hand-written impls of serde's traits in the crate that defines the wire types
    for i in F.impls:
        tr = i.get("trait") or ""
        if i.get("crate") == "tx3_tir" and re.search(r"(^|::)_?serde::|^serde::", tr) and not i.get("derived"):
            bad.setdefault("impl %s for %s" % (tr.split("::")[-1], i.get("self")), "hand-written impl of a serde trait")
    # (c) a hand-written Visitor that accepts integers must accept every width the writer can emit: ciborium's deserialize_any
    # hands a positive integer above u64::MAX to visit_u128, a negative one below i64::MIN to visit_i128, the rest to
    # visit_u64 / visit_i64 (serde's defaults for the 128-bit methods are errors)
    vis = {}
    for p, f in F.fns.items():
        if f["crate"] == "tx3_tir" and not is_derive(f) and (f.get("impl_trait") or "").endswith("de::Visitor") and (f.get("name") or "").startswith("visit_"):
            vis.setdefault(f.get("impl_self"), {})[f["name"]] = f
    wide_writer = any((t.get("method") in ("serialize_i128", "serialize_u128")) for g in F.fns.values() if g["crate"] == "tx3_tir" and not is_derive(g) for _, t in mir.calls(g))
    for selfty, ms in sorted(vis.items()):
        ints = {m for m in ms if re.fullmatch(r"visit_[iu](8|16|32|64|128)", m)}
        if not ints:
            continue
        any_f = next(iter(ms.values()))
        keyv = "%s|integer visitor accepts every width" % selfty
        need = {"visit_i64", "visit_u64"} | ({"visit_i128", "visit_u128"} if (wide_writer or "visit_i128" in ints or "visit_u128" in ints) else set())
        missing = sorted(need - ints)
        if missing:
            res.add([finding("HANDCODE", keyv, where(any_f), "the hand-written visitor %s accepts %s but not %s: the CBOR reader hands integers of that range to the missing method, whose default is an error - a value the writer emits no longer decodes" % (
                selfty.split("::")[-1], ", ".join(sorted(ints)), ", ".join(missing)))])
        else:
            res.add([ok("HANDCODE", keyv, where(any_f), "visit_i64 / u64 / i128 / u128 all implemented")])
    key = "tx3_tir wire types|codec is derive-generated only"
    if not bad:
        res.add([ok("HANDCODE", key, "crates/tx3-tir/src/model", "%d serde-generated functions call no hand-written workspace function; no hand-written impl of a serde trait in tx3_tir" % len(gen))])
        return
    # hand-written codec code exists.  What is known to be wrong is reported; the rest is an explicit assumption (the
    # derive-based agreement argument does not cover it, but nothing shows it to be wrong).
    LIMITED = {"deserialize_bytes": "byte string", "deserialize_str": "text string"}
    for b, why in sorted(bad.items()):
        g = F.fns.get(b)
        hits = []
        if g is not None:
            for h in with_closures(F, g):
                for bi, t in mir.calls(h):
                    if (t.get("method") in LIMITED) and "Deserializer" in (t.get("trait") or ""):
                        hits.append((t["line"], t["method"]))
        drops = []
        if g is not None:
            for h in with_closures(F, g):
                drops += keyed_collapses(F, h)
        # a conversion the generated reader (writer) of a type passes the value through - `#[serde(from = ..)]`, `into = ..`,
        # `try_from = ..` - leaves the derive argument intact only if it re-wraps the representation as it is.  One that
        # rebuilds the value through other workspace code, merges, filters or computes, on one side only, makes the reader
        # return something else than the writer was given for every value that code changes.
        conv = None
        if g is not None and (g.get("impl_trait") or "").startswith(("std::convert::From", "std::convert::TryFrom", "std::convert::Into")) and side_of.get(b):
            conv = _conversion_work(F, g)
        if conv:
            sides = {sd for sd, _ in side_of[b]}
            wty = sorted(w_ for _, w_ in side_of[b])[0]
            other = "writer" if "reader" in sides else "reader"
            mirrored = any(other in {sd for sd, _ in side_of.get(b2, ())} and any(w2 == wty for _, w2 in side_of.get(b2, ())) for b2 in bad if b2 != b)
            if not mirrored:
                whats = []
                for _, wh in conv:
                    if wh not in whats:
                        whats.append(wh)
                res.add([finding("HANDCODE", "%s|one-sided conversion on the wire path" % b, where(g, conv[0][0]),
                                 "the generated %s of %s passes the value through a hand-written conversion that %s, while the %s handles the stored representation as it is: for every value that conversion changes, decoding does not give back what was encoded" % (
                                     "/".join(sorted(sides)), wty.split("::")[-1], ", ".join(whats[:4]), other))])
                continue
        elif conv is not None:
            res.add([ok("HANDCODE", "%s|conversion on the wire path re-wraps the representation" % b, where(g), "no call of workspace code, no merging / filtering adaptor, no arithmetic")])
            continue
        if drops:
            res.add([finding("HANDCODE", "%s|writer re-keys the elements" % b, where(g, drops[0][0]),
                             "hand-written writer on the wire path (%s) collects what it writes into a keyed container under the %s: elements are silently left out of the encoding" % (why, drops[0][1]))])
        elif hits:
            res.add([finding("HANDCODE", "%s|%s" % (b, hits[0][1]), where(g, hits[0][0]),
                             "hand-written reader on the wire path (%s) asks the format for `%s`: ciborium (the only TIR format) hands a %s to the visitor from its fixed 4096-byte scratch buffer and *rejects* longer ones, while the writer has no such limit - values above 4096 bytes encode but no longer decode" % (why, hits[0][1], LIMITED[hits[0][1]]))])
        else:
            res.add([assumption("HANDCODE", "%s|hand-written codec code" % b, where(g) if g else "crates/tx3-tir/src", "hand-written code on the wire path (%s): writer/reader agreement for it is not covered by the derive argument (not decided)" % why)])


_MERGING = ("fold", "try_fold", "reduce", "sum", "product", "filter", "filter_map", "retain", "take", "skip", "take_while", "skip_while", "map_while",
            "step_by", "dedup", "dedup_by_key", "sort", "sort_by", "sort_by_key", "sort_unstable", "truncate", "zip", "chain", "rev", "remove", "entry")


def _conversion_work(F, g):
    """[(line, what)] for everything in a From/TryFrom/Into conversion (closures included) that is more than re-wrapping:
    calls of non-derived workspace functions, merging / filtering / reordering adaptors, arithmetic on the payload"""
    out = []
    for h in with_closures(F, g):
        for bi, t in mir.calls(h):
            if site_from_expansion(t):
                continue
            names = [t.get("resolved"), t.get("callee")] + list(t.get("fnrefs") or [])
            for r in names:
                c = F.fns.get(r) if r else None
                if c is not None and c["crate"].startswith("tx3") and not is_derive(c) and c.get("owner") != g["path"] and not (c.get("owner") or "").startswith(g["path"]) and c["path"] != g["path"]:
                    out.append((t["line"], "rebuilds it through `%s`" % c["path"].split("::")[-1]))
            last = (t.get("callee") or "").split("::")[-1]
            cal = t.get("callee") or ""
            if last == "retain" and _keeps_nonzero(F, t):
                # drops what the normal form of the value (C15, I-NORMAL) excludes anyway: the identity on every value the
                # constructors can build
                continue
            if last in _MERGING and (cal.startswith("std::") or cal.startswith("core::") or cal.startswith("alloc::")):
                out.append((t["line"], "sends it through `%s`" % last))
            if (t.get("trait") or "").startswith("std::ops::") and (t.get("method") in ("add", "sub", "neg", "mul", "add_assign", "sub_assign")):
                out.append((t["line"], "computes on it (`%s`)" % t.get("method")))
        for bi, si, st in mir.stmts(h):
            rv = st["rv"]
            if rv["k"] in ("binop", "checked") and rv.get("op") in ("Add", "Sub", "Mul", "Div", "Rem", "AddWithOverflow", "SubWithOverflow", "MulWithOverflow") and not site_from_expansion(st):
                out.append((st["line"], "computes on it (`%s`)" % rv["op"]))
            if rv["k"] == "unop" and rv.get("op") == "Neg":
                out.append((st["line"], "computes on it (negation)"))
    return out


def _keeps_nonzero(F, t):
    """`retain(|_, v| *v != 0)`: the closure is a single comparison of a value with the literal 0 and nothing else"""
    cl = [F.fns[c] for c in t.get("fnrefs") or () if c in F.fns]
    if not cl:
        return False
    for c in cl:
        if any(True for _ in mir.calls(c)):
            return False
        cmps = [st["rv"] for _, _, st in mir.stmts(c) if st["rv"]["k"] == "binop"]
        if len(cmps) != 1 or cmps[0]["op"] != "Ne":
            return False
        if not any((mir.op_const(x) or {}).get("int") == 0 for x in (cmps[0]["a"], cmps[0]["b"])):
            return False
    return True


def site_from_expansion(x):
    return bool(x.get("exp")) and "derive" in str(x.get("exp"))


WIRE_NAMES = set()   # every field / variant name the derived writers emit (filled by wire())


def scratch_buffer(F, res, cg, roots):
    """SCRATCH: ciborium reads map keys and enum variant names into its scratch buffer and rejects any that do not fit.  When
    the decoder is handed an explicit buffer (`from_reader_with_buffer`, `Deserializer::from_reader(.., &mut buf)`), its size -
    read from the array type - must hold the longest name the derived writers emit (from the WIRE tables); the library default
    (4096) does.  Otherwise a valid encoding that contains the long name no longer decodes."""
    longest = max(WIRE_NAMES, key=len) if WIRE_NAMES else ""
    n = 0
    for p in sorted(cg.reachable(roots)):
        f = F.fns[p]
        if not f["crate"].startswith("tx3"):
            continue
        du = None
        for bi, t in mir.calls(f):
            c = t.get("callee") or ""
            if not ((c.startswith("ciborium::") and "with_buffer" in c) or c.startswith("ciborium::de::Deserializer") and c.endswith("from_reader")):
                continue
            if len(t["args"]) < 2:
                continue
            du = du or mir.DefUse(f)
            n += 1
            size = None
            for o in mir.provenance(f, du, t["args"][-1], transparent_extra=("std::ops::DerefMut::deref_mut", "core::array::<impl std::ops::IndexMut<I> for [T; N]>::index_mut")):
                ty = f["locals"][o.local] if o.kind in ("local", "arg") and o.local is not None else ""
                m = re.search(r"\[u8; (\d+)\]", ty)
                if m:
                    size = int(m.group(1)) if size is None else min(size, int(m.group(1)))
            if size is None:
                for ty in f["locals"]:
                    m = re.fullmatch(r"\[u8; (\d+)\]", ty)
                    if m:
                        size = int(m.group(1)) if size is None else min(size, int(m.group(1)))
            key = "%s|scratch buffer of the decoder" % p
            if size is None:
                res.add([assumption("SCRATCH", key, where(f, t["line"]), "the decoder is given an explicit scratch buffer whose size could not be read: not decided")])
            elif size >= len(longest):
                res.add([ok("SCRATCH", key, where(f, t["line"]), "%d bytes hold the longest wire name (%s, %d bytes)" % (size, longest, len(longest)))])
            else:
                res.add([finding("SCRATCH", key, where(f, t["line"]), "the decoder's scratch buffer has %d bytes but the writers emit the name `%s` (%d bytes): ciborium rejects names that do not fit, so a valid encoding containing it no longer decodes" % (size, longest, len(longest)))])
    if n == 0:
        res.add([ok("SCRATCH", "tx3 decoding closure|library default scratch buffer", "crates/tx3-tir/src/encoding.rs", "no explicit scratch buffer: ciborium::from_reader's 4096 bytes hold the longest wire name (%s)" % longest)])


def depth_limit(F, res, cg, roots):
    """DEPTH: decoding keeps the library's bounded recursion.  `ciborium::from_reader` stops at 256 levels and reports an error;
    a `from_reader_with_recursion_limit` whose limit is not a small literal (e.g. the input length) never fires, so a nesting
    bomb overflows the stack and aborts the process instead of returning Err.  Same for serde_json's
    `disable_recursion_limit`."""
    reach = cg.reachable(roots)
    n = 0
    bad = False
    for p in sorted(reach):
        f = F.fns[p]
        if not f["crate"].startswith("tx3"):
            continue
        for bi, t in mir.calls(f):
            c = t.get("callee") or ""
            if "with_recursion_limit" in c and len(t["args"]) > 1:
                n += 1
                lim = None
                for o in mir.provenance(f, mir.DefUse(f), t["args"][1]):
                    if o.kind == "const" and "int" in o.const:
                        lim = o.const["int"] if lim is None else max(lim, o.const["int"])
                    else:
                        lim = "computed"
                        break
                key = "%s|recursion limit of the decoder" % p
                if isinstance(lim, int) and lim <= 1024:
                    res.add([ok("DEPTH", key, where(f, t["line"]), "literal recursion limit %d" % lim)])
                else:
                    bad = True
                    res.add([finding("DEPTH", key, where(f, t["line"]), "the decoder's recursion limit is %s: it cannot stop a nesting bomb before the stack overflows (abort instead of Err)" % lim)])
            elif "disable_recursion_limit" in c:
                n += 1
                bad = True
                res.add([finding("DEPTH", "%s|recursion limit of the decoder" % p, where(f, t["line"]), "the JSON decoder's recursion limit is disabled: deeply nested input overflows the stack")])
    if not bad and n == 0:
        res.add([ok("DEPTH", "tx3 decoding closure|library default recursion limits", "crates/tx3-tir/src/encoding.rs", "no call overrides the decoders' built-in recursion limits")])


def run(ctx):
    F = ctx.F
    res = Result("C11")
    res.rule("WIRE", "serde writer names = reader names = definition, both impls derived, for every IR type")
    res.rule("IDENT", "Utxo's Hash and PartialEq read the same fields")
    res.rule("GATE", "only versions >= MIN_SUPPORTED_VERSION are decoded; unknown version text is an error")
    res.rule("PANIC", "no undischarged panic site in the workspace part of the codec")
    res.rule("DEPTH", "the decoders' bounded recursion is not overridden by a computed or disabled limit")
    res.rule("HANDCODE", "no hand-written function inside the closure of the derived Serialize/Deserialize impls")
    wire(F, res)
    wire_skip(F, res)
    handcode(F, res)
    ident(F, res)
    gate(F, res)
    cg = CallGraph(F)
    rows = table("e1_rows")["C11"]
    roots = ["tx3_tir::encoding::from_bytes", "tx3_tir::encoding::to_bytes"] + [p for p in ("tx3_tir::encoding::decode_root",) if p in F.fns] + [
             "<tx3_tir::encoding::TirVersion as std::convert::TryFrom<&str>>::try_from"]
    c12.panic_obligations(F, res, roots, rows, cg=cg)
    depth_limit(F, res, cg, roots)
    res.rule("SCRATCH", "an explicit scratch buffer of the decoder holds the longest field / variant name of the wire tables")
    scratch_buffer(F, res, cg, roots)
    res.add([assumption("DEP", "ciborium/serde", "crates/tx3-tir/src/encoding.rs", "ciborium::from_reader returns Err (never panics/aborts) on arbitrary, truncated or deeply nested bytes: dependency behaviour, not decided here")])
    return res
