"""C19 -- diagnostics point inside the text they are attached to.

Static clauses:
  F-COORD    every construction of parsing::Error pairs a source text with a span in the same coordinate system:
             (whole input, absolute offsets) or (one line, line-relative); never (one line, absolute)
  F-SPANCTOR Span::new is called only by the two conversions from pest (From<pest::Span>, From<InputLocation>) and its
             arguments are the pest offsets themselves (no arithmetic on the way): start <= end and char boundaries are pest's;
             no Span struct literal elsewhere and no assignment to Span.start / Span.end anywhere (spans are immutable once made)
  F-SAMEID   at every Error::not_in_scope(name, node) call, `name` is the `.value` of the node passed as location
  F-COPYSPAN every analysis diagnostic copies the span of the node it concerns (`ast.span().clone()` / `.span.clone()`)
  (forms)    F-COORD judges a private constructor helper (`Error::new(message, src, span)`) per call site; `Span::as_str()` (the
             construct's own text) is a source kind that never agrees with absolute offsets
Not decided: character-boundary alignment (pest's guarantee), rendering.
"""
from .. import mir
from ..common import CallGraph, call_matches, is_derive, site_in_derive, with_closures
from ..engine import Result, ok, finding, assumption, where
from ..facts import BrokenCheck

META = {
    "level": "other",
    "explanation": (
        "Provenance rules over MIR: each parsing::Error aggregate's `src` and `span` operands are labelled with the coordinate "
        "system of their source (pest Error::line() = one line; Error.location / pest::Span offsets = absolute in the whole "
        "input; pest::Span::get_input / the parser input = whole input) and must agree; Span::new's callers and argument "
        "provenance are restricted to the two pest conversions; not-in-scope diagnostics must take name and location from the "
        "same identifier; analysis diagnostics must copy the node's span. Holds for every erroneous source at once."),
    "trusted_base": ["rustc MIR, driver", "pest spans satisfy start <= end <= len on char boundaries"],
    "not_decided": ["character-boundary alignment and rendering (pest / miette)"],
}

PERR = "tx3_lang::parsing::Error"
SPAN = "tx3_lang::ast::Span"


def classify_src(o):
    if o.kind == "call":
        c = o.callee
        if c.endswith("pest::error::Error::<R>::line") or c.endswith("Error::<R>::line"):
            return "line"
        if c.endswith("pest::Span::<'i>::get_input") or c.endswith("Span::<'i>::get_input"):
            return "full"
        if c.endswith("Position::<'i>::line_of"):
            return "line"
        if c.endswith("pest::Span::<'i>::as_str") or c.endswith("Span::<'i>::as_str") or c.endswith("Pair::<'i, R>::as_str"):
            return "fragment"     # the text of the construct alone
    if o.kind == "arg":
        return "param:%d" % o.local
    return None


def classify_span(f, du, o):
    """coordinate system of a Span-typed value"""
    if o.kind == "arg":
        # projection of a pest error's `.location`
        if any(p == ".location" for p in o.proj):
            return "absolute"
        if any(p == ".line_col" for p in o.proj):
            return "linecol"
        return "param:%d" % o.local
    if o.kind == "call":
        c = o.callee
        if c.endswith("Pair::<'i, R>::as_span"):
            return "absolute"
    if o.kind == "local" or o.kind == "call":
        return None
    return None


def f_coord(F, res):
    n = 0
    for f in F.fns.values():
        if f["crate"] != "tx3_lang" or is_derive(f):
            continue
        du = None
        for bi, si, s in mir.stmts(f):
            rv = s["rv"]
            if rv["k"] != "agg" or rv.get("adt") != PERR or site_in_derive(s["exp"]):
                continue
            n += 1
            du = du or mir.DefUse(f)
            fields = rv["fields"]
            src_o = mir.provenance(f, du, rv["ops"][fields.index("src")])
            span_o = mir.provenance(f, du, rv["ops"][fields.index("span")], transparent_extra=())
            sk = {classify_src(o) for o in src_o}
            pk = {classify_span(f, du, o) for o in span_o}
            key = "%s|parsing::Error{src,span}" % f["path"]
            w = where(f, s["line"])
            # both are parameters of a constructor helper (`Error::new(message, src, span)`): each call site is a diagnostic of its
            # own and is judged on its own pair
            if sk and pk and all(k and k.startswith("param:") for k in sk | pk) and len(sk) == 1 and len(pk) == 1 and f["def_kind"] != "Closure":
                sites = _call_sites(F, f)
                if sites:
                    for g, t in sites:
                        ks = _site_kinds(F, g, t, int(next(iter(sk))[6:]), "src")
                        kp = _site_kinds(F, g, t, int(next(iter(pk))[6:]), "span")
                        key_s = "%s|parsing::Error{src,span} built through %s" % (g.get("owner") or g["path"], f["path"].split("::")[-1])
                        w_s = where(g, t["line"])
                        if None in ks or None in kp or not ks or not kp:
                            res.add([finding("F-COORD", key_s, w_s, "cannot establish the coordinate systems of src (%s) and span (%s)" % (sorted(map(str, ks)), sorted(map(str, kp))))])
                        elif (ks == {"full"} and kp == {"absolute"}) or (ks == {"line"} and kp == {"linerel"}):
                            res.add([ok("F-COORD", key_s, w_s, "src = %s, span = %s" % ("/".join(ks), "/".join(kp)))])
                        else:
                            res.add([finding("F-COORD", key_s, w_s, "the diagnostic carries %s as source text but a span in %s coordinates: the label can lie outside the text" % (
                                "/".join(sorted(ks)).replace("line", "a single line").replace("full", "the whole input").replace("fragment", "the text of the construct alone"), "/".join(sorted(kp))))])
                    continue
            # parameters: resolve through callers when the constructor takes the text as an argument
            sk2, pk2 = set(), set()
            for k in sk:
                if k and k.startswith("param:"):
                    sk2 |= _caller_kinds(F, f, int(k[6:]), "src")
                else:
                    sk2.add(k)
            for k in pk:
                if k and k.startswith("param:"):
                    pk2 |= _caller_kinds(F, f, int(k[6:]), "span")
                else:
                    pk2.add(k)
            if None in sk2 or None in pk2 or not sk2 or not pk2:
                res.add([finding("F-COORD", key, w, "cannot establish the coordinate systems of src (%r) and span (%r)" % (src_o, span_o))])
            elif sk2 == {"full"} and pk2 == {"absolute"}:
                res.add([ok("F-COORD", key, w, "src = whole input, span = absolute offsets")])
            elif sk2 == {"line"} and pk2 == {"linerel"}:
                res.add([ok("F-COORD", key, w, "src = one line, span = line-relative")])
            else:
                res.add([finding("F-COORD", key, w, "the diagnostic carries %s as source text but a span in %s coordinates: the label can lie outside the text" % (
                    "/".join(sorted(sk2)).replace("line", "a single line").replace("full", "the whole input").replace("fragment", "the text of the construct alone"), "/".join(sorted(pk2))))])
    res.count("parsing::Error constructions", n)
    res.floor("parsing::Error constructions", n, 1)


def _call_sites(F, f):
    out = []
    for g in F.fns.values():
        if g["crate"] != "tx3_lang" or is_derive(g):
            continue
        for bi, t in mir.calls(g):
            if (t.get("resolved") or t.get("callee")) == f["path"]:
                out.append((g, t))
    return out


def _site_kinds(F, g, t, argn, what):
    """kinds of argument `argn` at one call site (parameters of the caller resolved further up)"""
    if len(t["args"]) < argn:
        return {None}
    du = mir.DefUse(g)
    out = set()
    for o in mir.provenance(g, du, t["args"][argn - 1]):
        k = classify_src(o) if what == "src" else classify_span(g, du, o)
        if k and k.startswith("param:"):
            if what == "src" and g["path"] == "tx3_lang::parsing::parse_string" and o.local == 1:
                out.add("full")
            elif g["def_kind"] != "Closure":
                out |= _caller_kinds(F, g, int(k[6:]), what, 1)
            else:
                out.add(None)
        else:
            out.add(k)
    return out or {None}


def _caller_kinds(F, f, argn, what, depth=0):
    """kinds of the actual argument at the call sites of f (through up to three levels of constructors / helpers)"""
    out = set()
    for g in F.fns.values():
        if g["crate"] != "tx3_lang" or is_derive(g):
            continue
        du = None
        for bi, t in mir.calls(g):
            if (t.get("resolved") or t.get("callee")) != f["path"]:
                continue
            if len(t["args"]) < argn:
                continue
            du = du or mir.DefUse(g)
            for o in mir.provenance(g, du, t["args"][argn - 1]):
                if what == "src":
                    k = classify_src(o)
                    if k and k.startswith("param:") and g["def_kind"] == "Closure" and o.local == 1 and o.proj:
                        # a captured variable of a closure: look at what the owner captured
                        owner = F.fns.get(g.get("owner", ""))
                        k = None
                        if owner is not None:
                            du_o = mir.DefUse(owner)
                            for bj, sj, s2 in mir.stmts(owner):
                                rv2 = s2["rv"]
                                if rv2["k"] == "agg" and rv2.get("closure") == g["path"]:
                                    idx = int(o.proj[0][1:]) if o.proj[0][1:].isdigit() else None
                                    if idx is not None and idx < len(rv2["ops"]):
                                        for oo in mir.provenance(owner, du_o, rv2["ops"][idx]):
                                            kk = classify_src(oo)
                                            if kk and kk.startswith("param:") and owner["path"] == "tx3_lang::parsing::parse_string" and oo.local == 1:
                                                kk = "full"   # the parser's own input
                                            k = kk
                    elif k and k.startswith("param:") and g["path"] == "tx3_lang::parsing::parse_string" and o.local == 1:
                        k = "full"   # the parser's own input
                    elif k and k.startswith("param:") and g["def_kind"] != "Closure" and depth < 3:
                        out |= _caller_kinds(F, g, int(k[6:]), what, depth + 1)
                        continue
                    out.add(k)
                else:
                    k = classify_span(g, du, o)
                    if k and k.startswith("param:") and g["def_kind"] != "Closure" and depth < 3:
                        out |= _caller_kinds(F, g, int(k[6:]), what, depth + 1)
                        continue
                    out.add(k)
    return out or {None}


def f_spanctor(F, res):
    allowed = {
        "tx3_lang::parsing::<impl std::convert::From<pest::error::InputLocation> for tx3_lang::ast::Span>::from",
        "tx3_lang::parsing::<impl std::convert::From<pest::Span<'_>> for tx3_lang::ast::Span>::from",
    }
    n = 0
    for f in F.fns.values():
        if f["crate"] not in ("tx3_lang", "tx3c") or is_derive(f):
            continue
        du = None
        for bi, t in mir.calls(f):
            if (t.get("callee") or "") != "tx3_lang::ast::Span::new":
                continue
            n += 1
            key = "%s|Span::new" % f["path"]
            w = where(f, t["line"])
            if f["path"] not in allowed:
                res.add([finding("F-SPANCTOR", key, w, "Span::new is called outside the two conversions from pest: offsets of unknown origin")])
                continue
            du = du or mir.DefUse(f)
            good = True
            why = []
            for a in t["args"]:
                for o in mir.provenance(f, du, a):
                    if o.kind == "call" and (o.callee.endswith("pest::Span::<'i>::start") or o.callee.endswith("pest::Span::<'i>::end")):
                        why.append(o.callee.split("::")[-1] + "()")
                    elif o.kind == "arg" and o.local == 1:
                        why.append("InputLocation payload")
                    else:
                        good = False
                        why.append(repr(o))
            if good:
                res.add([ok("F-SPANCTOR", key, w, "arguments are " + ", ".join(sorted(set(why))))])
            else:
                res.add([finding("F-SPANCTOR", key, w, "Span::new arguments are not the pest offsets themselves: " + ", ".join(why))])
    # struct-literal constructions of Span other than Span::new / DUMMY
    for f in F.fns.values():
        if f["crate"] != "tx3_lang" or is_derive(f):
            continue
        for bi, si, s in mir.stmts(f):
            rv = s["rv"]
            if rv["k"] == "agg" and rv.get("adt") == SPAN and not site_in_derive(s["exp"]) and f["path"] != "tx3_lang::ast::Span::new":
                res.add([finding("F-SPANCTOR", "%s|Span literal" % f["path"], where(f, s["line"]), "Span built by a struct literal outside Span::new")])
    res.count("Span::new call sites", n)
    res.floor("Span::new call sites", n, 3)
    # spans are never edited after the conversion from pest: no assignment to Span.start / Span.end anywhere (byte offsets
    # shifted by arithmetic need not fall on a character boundary of the text they index)
    edits = 0
    for f in list(F.fns.values()) + list(F.built.values()):
        if f["crate"] not in ("tx3_lang", "tx3c") or is_derive(f):
            continue
        for bi, si, s in mir.stmts(f):
            if f["blocks"][bi]["cleanup"] or site_in_derive(s["exp"]):
                continue
            fl = [q[1] for q in s["lhs"]["p"] if q[0] == "f" and q[2] == SPAN]
            if fl:
                edits += 1
                res.add([finding("F-SPANCTOR", "%s|Span.%s assigned" % (f["path"], fl[0]), where(f, s["line"]), "`%s` of a Span is overwritten after the conversion from pest: the new offset is not pest's and need not lie on a character boundary of the source (or inside it)" % fl[0])])
    if not edits:
        res.add([ok("F-SPANCTOR", "tx3_lang|Span fields are never assigned", "crates/tx3-lang/src", "no assignment to Span.start / Span.end outside Span::new")])


def f_sameid(F, res):
    n = 0
    for f in F.fns.values():
        if f["crate"] != "tx3_lang" or is_derive(f):
            continue
        du = None
        for b in [f]:
            for bi, t in mir.calls(b):
                if not (t.get("callee") or "").endswith("analyzing::Error::not_in_scope"):
                    continue
                n += 1
                du = du or mir.DefUse(b)
                name_o = mir.provenance(b, du, t["args"][0])
                node_o = mir.provenance(b, du, t["args"][1])
                key = "%s|not_in_scope(name, node)" % b["path"]
                w = where(b, t["line"])

                def root(o):
                    return (o.kind, o.local, tuple(p for p in o.proj))
                good = False
                for no in name_o:
                    if not no.proj or no.proj[-1] != ".value":
                        continue
                    base = (no.kind, no.local, tuple(no.proj[:-1]))
                    if any(root(x) == base for x in node_o):
                        good = True
                if good:
                    res.add([ok("F-SAMEID", key, w, "name is `.value` of the identifier passed as location")])
                else:
                    res.add([finding("F-SAMEID", key, w, "the reported name (%r) and the located node (%r) are different identifiers" % (name_o, node_o))])
    res.count("not_in_scope call sites", n)
    res.floor("not_in_scope call sites", n, 1)


def f_copyspan(F, res):
    n = 0
    DIAGS = ("NotInScopeError", "InvalidSymbolError", "InvalidTargetTypeError", "OptionalOutputError", "MetadataSizeLimitError", "MetadataInvalidKeyTypeError")
    for f in F.fns.values():
        if f["crate"] != "tx3_lang" or is_derive(f):
            continue
        du = None
        for bi, si, s in mir.stmts(f):
            rv = s["rv"]
            if rv["k"] != "agg" or not rv.get("adt", "").startswith("tx3_lang::analyzing::") or rv["adt"].split("::")[-1] not in DIAGS or site_in_derive(s["exp"]):
                continue
            n += 1
            du = du or mir.DefUse(f)
            # a span that is a parameter of a helper (`fn ensure_within_limit(.., span: &Span)`) is what the callers pass
            from ..common import outer_origins
            o = [x for _, x in outer_origins(F, f, rv["ops"][rv["fields"].index("span")], depth=2)]
            key = "%s|%s.span" % (f["path"], rv["adt"].split("::")[-1])
            w = where(f, s["line"])
            def _good(oo):
                return bool(oo) and all((x.kind == "call" and x.callee.endswith("::span")) or (x.kind == "arg" and x.proj and x.proj[-1] == ".span") or
                                        (x.kind == "call" and x.term is not None and x.term.get("trait") == "tx3_lang::parsing::AstNode" and x.term.get("method") == "span") for x in oo)
            good = _good(o)
            if not good:
                # the span comes back from a helper of the crate (`let (size, span) = measure(value)?;`): read this function with
                # that helper inlined
                helpers = {x.callee for x in o if x.kind == "call" and x.callee in F.fns and F.fns[x.callee]["crate"] == "tx3_lang" and not F.fns[x.callee].get("impl_trait")}
                if helpers:
                    def want_h(t_, callee, helpers=helpers):
                        return callee["path"] in helpers
                    _KEEP19.append(want_h)
                    fi = mir.inline_calls(F, f, want=want_h, depth=1)
                    o2 = [x for _, x in outer_origins(F, fi, rv["ops"][rv["fields"].index("span")], depth=2)]
                    # the helper's `None` / `Err` return joins the `?` in flow-insensitive provenance, but its payload is read
                    # on the Continue / Some side only
                    o2 = [x for x in o2 if not (x.kind == "agg" and x.rv.get("variant") in ("None", "Err") and any(p_ in (" as Continue", " as Some", " as Ok") for p_ in x.proj))]
                    if _good(o2):
                        good, o = True, o2
            if good:
                res.add([ok("F-COPYSPAN", key, w, "span is a clone of the node's own span")])
            else:
                res.add([finding("F-COPYSPAN", key, w, "diagnostic span does not come from the node it concerns: %r" % o)])
    res.count("analysis diagnostic constructions", n)
    res.floor("analysis diagnostic constructions", n, 4)


_KEEP19 = []


def f_frozen(F, res):
    """F-FROZEN: once built, a parse diagnostic's source text and span are not edited.  The span was computed against the text
    the diagnostic carries; any later change of either (`src.truncate(..)`, a reassigned `span`, a `&mut` handed to a string
    method) can leave the span pointing outside the text or into the middle of a character.  In tx3-lang no statement assigns
    to a field of parsing::Error, and no `&mut` of its `src` / `span` field is taken, outside the aggregate that constructs
    the error."""
    PERR = "tx3_lang::parsing::Error"
    n = 0
    bad = []
    for p, f in sorted(F.fns.items()):
        if f["crate"] != "tx3_lang" or f.get("derived"):
            continue
        for bi, si, st in mir.stmts(f):
            if f["blocks"][bi]["cleanup"]:
                continue
            flds = [q for q in st["lhs"]["p"] if q[0] == "f" and q[2] == PERR]
            if flds:
                bad.append((f, st["line"], "assigns to `%s`" % flds[0][1]))
            rv = st["rv"]
            if rv["k"] in ("ref", "rawptr") and rv.get("mut"):
                flds = [q for q in rv["pl"]["p"] if q[0] == "f" and q[2] == PERR]
                if flds:
                    bad.append((f, st["line"], "takes `&mut %s`" % flds[0][1]))
            if rv["k"] == "agg" and rv.get("adt") == PERR:
                n += 1
    key = "tx3_lang::parsing::Error|source text and span are not edited after construction"
    if bad:
        f, line, what = bad[0]
        res.add([finding("F-FROZEN", "%s|edits a parse diagnostic" % f["path"], where(f, line), "%s %s of an already built parse diagnostic: its span was computed against the original text and may now point outside of it (or into the middle of a character)" % (f["path"].split("::")[-1], what))])
    else:
        res.add([ok("F-FROZEN", key, "crates/tx3-lang/src/parsing.rs", "%d construction(s); no later assignment or `&mut` of a field" % n)])
    res.floor("parse diagnostic constructions", n, 1)


def run(ctx):
    F = ctx.F
    res = Result("C19")
    res.rule("F-COORD", "parse diagnostics pair source text and span in one coordinate system")
    res.rule("F-SPANCTOR", "Span::new only in the pest conversions, with the pest offsets as arguments")
    res.rule("F-SAMEID", "not_in_scope reports the name of the very identifier it locates")
    res.rule("F-COPYSPAN", "analysis diagnostics copy the span of their node")
    f_coord(F, res)
    f_spanctor(F, res)
    f_sameid(F, res)
    f_copyspan(F, res)
    res.rule("F-FROZEN", "a parse diagnostic's source text and span are not edited after it was built")
    f_frozen(F, res)
    res.add([assumption("PEST", "pest spans", "crates/tx3-lang/src/parsing.rs", "pest::Span / InputLocation offsets satisfy start <= end <= input length on char boundaries (so `end - start` in From<Span> for SourceSpan cannot underflow)")])
    return res
