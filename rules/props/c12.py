"""C12 -- the front end is total: any source text yields an AST or a diagnostic.

Static clauses:
  PANIC   every construct that can panic (K1 panic!/todo!/unreachable!, K2 unwrap/expect, K3 overflow/bounds/div asserts,
          K4 panicking library calls) in the workspace closure of parse_string and analyze is discharged by
            D-GRAMMAR  the abstract interpretation of the parse functions against tx3.pest (dead arm / child exists /
                       Pratt shape),
            D-TEXT     what the grammar guarantees about the matched text (literal prefix/suffix, finite literal set),
            structural guards (constant divisor, bounded counter, length test, Some-assignment, is_some test), or
            a reviewed row in tables/e1_rows.json;
          anything else is a finding.
  LOOP    every natural loop in that closure is iterator-driven or bounded by a literal
  G-REPARSE  pest is a PEG engine without memoisation: where the grammar can attempt a nesting rule X inside a
          repetition/option/alternative that continues after X, and the continuation (or a later alternative) starts with X
          again, X is parsed twice at the same position and nesting depth d costs 2^d - "fails to terminate" for every
          practical purpose well inside the property's depth bound of 64.  Such sites are found on the grammar AST (left
          corners, nullability, reachability) and reported.
  G-RETYPE  the memo-less typing recursion (`target_type`) is entered at most once per child on a path (no 2^depth typing time)
Not decided: termination of recursion / stack depth in general; panics inside pest itself beyond the Pratt shape rule.
"""
import re

from .. import mir, e1_panic as e1, e2_grammar as e2, discharge, premises
from ..common import CallGraph, table, is_derive, site_in_derive
from ..engine import Result, ok, finding, assumption, where
from ..facts import BrokenCheck

META = {
    "level": "other",
    "explanation": (
        "Reachable panic-site inventory over the call-graph closure of parsing::parse_string and analyzing::analyze "
        "(resolved callees, fn items passed as values, closures, CHA for generic trait calls), with every site either "
        "discharged by a structural argument or reported. The parse functions are abstractly interpreted against the child "
        "languages of tx3.pest (NFA per rule from pest_meta's AST): an `unreachable!` arm is discharged only if no rule the "
        "grammar can deliver reaches it, a `next().unwrap()` only if the remaining child language cannot be empty, the Pratt "
        "parser call only if every incoming rule's children have prefix* primary postfix* (infix ...)* shape; literal "
        "conversions are discharged only by what the rule's own expression guarantees about its text. This covers every "
        "input string at once; a test only sees the strings it feeds."),
    "trusted_base": ["rustc MIR, mirfacts driver", "pest_meta grammar AST (gramfacts)", "regular over-approximation of PEG child sequences (sound for both questions asked)",
                     "tables/e1_rows.json reviewed rows", "pest's generated parser and Pairs API semantics"],
    "not_decided": ["termination of recursion and stack depth (the property bounds nesting at 64)", "panics inside pest beyond the PrattParser shape rule"],
}

ROOTS = ["tx3_lang::parsing::parse_string", "tx3_lang::analyzing::analyze"]

INT_SAFE_DIGITS = {"i8": 2, "u8": 2, "i16": 4, "u16": 4, "i32": 9, "u32": 9, "i64": 18, "u64": 19, "i128": 38, "u128": 38, "usize": 19, "isize": 18}


class TextCtx:
    """rule sets of the pairs whose text a function looks at (as_str / as_span call sites)"""

    def __init__(self, F, it, G):
        self.F = F
        self.it = it
        self.G = G
        self.T = e2.TextFacts(G)

    def rules_for(self, fn):
        """rules of the pair(s) whose text is read in fn: param 1's rule set, else every rule reaching an as_str here"""
        p = self.it.params.get(fn["path"], {})
        out = set()
        for v in p.values():
            if v[0] == e2.PAIR:
                out |= set(v[1])
        return out


def text_discharge(tc, fn, du, cfg, site, as_str_rules):
    """G4: literal conversions and text slicing"""
    T = tc.T
    rules = as_str_rules.get((fn["path"], site.bb))
    if rules is None:
        # nearest dominating as_str/as_span call in this function
        best = None
        for (p, bb), rs in as_str_rules.items():
            if p == fn["path"] and cfg.dominates(bb, site.bb):
                if best is None or cfg.dominates(best[0], bb):
                    best = (bb, rs)
        rules = best[1] if best else None
    if not rules and any(fn["locals"][i] in ("&str", "&'static str") or fn["locals"][i].startswith("&") and fn["locals"][i].endswith("str")
                         for i in range(1, fn.get("argc", 0) + 1)):
        # a helper that is handed the text (`fn primitive_from_keyword(keyword: &str)`): the text is what every caller reads
        # from a pair with as_str()
        from ..common import callers_index
        acc = set()
        sites_ = callers_index(tc.F).get(fn["path"], [])
        okk = bool(sites_)
        for caller, ct in sites_:
            cdu = mir.DefUse(caller)
            found = False
            for a in ct["args"]:
                for o in mir.provenance(caller, cdu, a):
                    if o.kind == "call" and o.callee.endswith("::as_str") and (caller["path"], o.bb) in as_str_rules:
                        acc |= set(as_str_rules[(caller["path"], o.bb)])
                        found = True
            okk = okk and found
        rules = acc if okk else None
    if not rules:
        return None
    facts = [T.facts(r) for r in sorted(rules)]
    names = ",".join(sorted(rules))
    t = site.term
    if site.kind == "K1":
        # `_ => unreachable!()` of a match on the text: finite literal set must be covered by the compared constants
        consts = set()
        for bi, t2 in mir.calls(fn):
            cal = t2.get("callee") or ""
            if cal == "std::cmp::PartialEq::eq" or cal.endswith("PartialEq for str>::eq"):
                for a in t2["args"]:
                    c = mir.op_const(a)
                    if c and "str" in c:
                        consts.add(c["str"])
        if all(f["finite"] is not None and f["finite"] <= consts for f in facts) and consts:
            return "text of `%s` is one of %s, all compared in this match" % (names, sorted(set().union(*[f["finite"] for f in facts])))
        return None
    if site.kind == "K2" and site.detail == "parse":
        # what is parsed, and into which type
        src = [o for o in mir.provenance(fn, du, t["args"][0]) if o.kind == "call"]
        if not src:
            return None
        g = src[0].term.get("gargs") or []
        target = g[0] if g else ""
        if target == "bool":
            if all(f["finite"] is not None and f["finite"] <= {"true", "false"} for f in facts):
                return "text of `%s` is exactly `true` or `false`" % names
        return None
    if site.kind == "K2" and site.detail == "split_once":
        src = [o for o in mir.provenance(fn, du, t["args"][0]) if o.kind == "call"]
        if src and len(src[0].term["args"]) > 1:
            c = mir.op_const(src[0].term["args"][1])
            if c and "str" in c and all(c["str"] in f["contains"] for f in facts):
                return "every match of `%s` contains the literal %r" % (names, c["str"])
        return None
    if site.kind == "K4" and "Index<I> for str" in site.what:
        rng = mir.provenance(fn, du, t["args"][1])
        if len(rng) != 1 or rng[0].kind != "agg":
            return None
        rv = rng[0].rv
        adt = rv.get("adt", "")
        start = discharge._const_int(fn, du, rv["ops"][0]) if rv["ops"] else None
        if start is None:
            return None
        if adt.endswith("ops::RangeFrom"):
            if all(len(f["prefix"]) >= start and f["prefix"][:start].isascii() for f in facts):
                return "`%s` always starts with the ASCII literal %r (>= %d bytes)" % (names, facts[0]["prefix"], start)
            return None
        if adt.endswith("ops::Range"):
            # end must be len - k
            epl = mir.op_place(rv["ops"][1])
            k = None
            if epl is not None:
                for d in du.defs.get(epl["l"], []):
                    if d[0] == "stmt":
                        r2 = d[3]["rv"]
                        if r2["k"] == "use":
                            pl2 = mir.op_place(r2["op"])
                            # checked sub result tuple .0
                            if pl2 is not None:
                                for d2 in du.defs.get(pl2["l"], []):
                                    if d2[0] == "stmt" and d2[3]["rv"]["k"] == "binop" and d2[3]["rv"]["op"].startswith("Sub"):
                                        k = discharge._const_int(fn, du, d2[3]["rv"]["b"])
                        elif r2["k"] == "binop" and r2["op"].startswith("Sub"):
                            k = discharge._const_int(fn, du, r2["b"])
            if k is None:
                return None
            if all(len(f["prefix"]) >= start and f["prefix"].isascii() and len(f["suffix"]) >= k and f["suffix"].isascii()
                   and f["min_len"] >= start + k for f in facts):
                return "`%s` is at least %d bytes, starts with %r and ends with %r" % (names, facts[0]["min_len"], facts[0]["prefix"], facts[0]["suffix"])
        return None
    if site.kind == "K3" and site.what == "Overflow":
        b = fn["blocks"][site.bb]
        subs = [s for s in b["s"] if s["rv"]["k"] == "binop" and s["rv"]["op"].startswith("Sub")]
        if subs:
            k = discharge._const_int(fn, du, subs[-1]["rv"]["b"])
            a = [o for o in mir.provenance(fn, du, subs[-1]["rv"]["a"]) if o.kind == "call" and o.callee.endswith("::len")]
            if k is not None and a and all(f["min_len"] >= k for f in facts):
                return "len() of the text of `%s` is at least %d" % (names, facts[0]["min_len"])
    return None


def collect_as_str(F, it):
    """(fn path, bb) -> rules of the receiver for Pair::as_str / as_span call sites, recomputed from the interpreter's
    reached states: we re-run a light pass using the parameter rule sets (receiver is the parameter or a narrowed copy)"""
    out = {}
    for path in it.analysed_fns:
        f = F.fns.get(path)
        if f is None:
            continue
        prm = it.params.get(path, {})
        rules = set()
        for v in prm.values():
            if v[0] == e2.PAIR:
                rules |= set(v[1])
        for bi, t in mir.calls(f):
            c = t.get("callee") or ""
            if c in ("pest::iterators::Pair::<'i, R>::as_str", "pest::iterators::Pair::<'i, R>::as_span"):
                rs = it.text_sites.get((path, bi)) or rules
                if rs:
                    out[(path, bi)] = set(rs)
    return out


_INL = {}
_INL_WANT = {}


def _inlined_for_discharge(F, f):
    k = (id(F), f["path"], f.get("stage"))
    if k not in _INL:
        crate = f["crate"]
        if crate not in _INL_WANT:
            def want(t, callee, crate=crate):
                return callee["crate"] == crate and not callee.get("impl_trait") and not callee.get("trait_default") and len(callee["blocks"]) <= 80
            _INL_WANT[crate] = want
        try:
            _INL[k] = mir.inline_calls(F, f, want=_INL_WANT[crate], depth=1)
        except Exception:
            _INL[k] = None
    return _INL[k]


def panic_obligations(F, res, roots, prop_rows, cg=None, grammar=None, crates=None, rule="PANIC", skip_fn=None, extra=()):
    """shared by C12/C13/C14/C16/C11: inventory + discharge; returns sites"""
    cg = cg or CallGraph(F)
    discharge.CURRENT_F = F
    reach, n_fns, sites = e1.inventory(F, cg, roots, crates=crates)
    G, it = grammar if grammar else (None, None)
    rows = {r["key"]: r["reason"] for r in prop_rows}
    row_prems = {r["key"]: r.get("premises") for r in prop_rows if r.get("premises")}
    prem_cache = {}
    used_rows = set()
    tc = TextCtx(F, it, G) if it else None
    as_str_rules = collect_as_str(F, it) if it else {}
    cache = {}
    n_sites = 0
    all_keys = {s_.key() for s_ in sites}
    for s in sites:
        f = s.fn
        p = f["path"]
        if skip_fn and skip_fn(f):
            continue
        n_sites += 1
        if p not in cache:
            cache[p] = (mir.DefUse(f), mir.CFG(f))
        du, cfg = cache[p]
        key = s.key()
        w = where(f, s.line)
        by = None
        # D-GRAMMAR
        if it is not None:
            if s.kind == "K1" and p in it.reached and p in it.analysed_fns and s.bb not in it.reached[p]:
                by = "D-GRAMMAR: no rule the grammar can deliver here reaches this arm"
            elif s.kind == "K2" and (p, s.bb) in it.unwrap:
                u = it.unwrap[(p, s.bb)]
                if not u["maybe_none"]:
                    by = "D-GRAMMAR: the remaining child language cannot be empty (next is one of %s)" % ",".join(sorted(u["rules"]))
            elif s.kind == "K4" and "PrattParserMap" in s.what and (p, s.bb) in it.pratt:
                per = it.pratt[(p, s.bb)]
                bad = {r: x for r, x in per.items() if not x[0]}
                for r, x in sorted(bad.items()):
                    callers = sorted(it.feeders.get((p, 1), {}).get(r, ()))
                    res.add([finding(rule, key + "|children of `%s`" % r, w,
                                     "pairs of rule `%s` (handed over by %s) are not prefix* primary postfix* (infix ..)* shaped: %s -> PrattParser::parse panics"
                                     % (r, ", ".join(callers) or "?", x[1]))])
                if per:
                    res.add([ok(rule, key, w, "D-GRAMMAR: Pratt shape holds for the children of %s" % ",".join(sorted(r for r in per if per[r][0])))])
                    continue
        if by is None and tc is not None:
            by = text_discharge(tc, f, du, cfg, s, as_str_rules)
            if by:
                by = "D-TEXT: " + by
        if by is None:
            by = discharge.try_all(f, du, cfg, s)
        if by is None and s.kind in ("K2", "K3", "K4"):
            # a guard that was moved into a helper of the crate (`expect_arg_count(..)?` before `args[0]`): retry on the body
            # with the crate's helpers inlined (the site keeps its block number; Ok / Err returns of helpers are kept apart)
            fi = _inlined_for_discharge(F, f)
            if fi is not None and fi.get("inlined"):
                by = discharge.try_all(fi, mir.DefUse(fi), mir.CFG(fi), s)
                if by:
                    by += " (guard in an inlined helper)"
        if by is None and s.kind in ("K2", "K3", "K4"):
            # ... or the other way round: the site was moved into a helper and the guard stayed in the caller(s)
            by = discharge.try_in_callers(F, f, s)
        if by is None:
            for ex in extra:
                by = ex(s)
                if by:
                    break
        row_broken = None
        if by is None and key not in rows:
            # the same site described differently (how the unwrapped value is produced changed form): a row for this function,
            # kind and operation whose own key matches no site any more
            pref = "|".join(key.split("|")[:3])
            alt = [k for k in rows if k.startswith(pref + "|") and k not in all_keys]
            if len(alt) == 1:
                rows[key] = rows[alt[0]]
                if alt[0] in row_prems:
                    row_prems[key] = row_prems[alt[0]]
            else:
                # the site moved to another function of the same crate (a helper split out of it): a premise-free row of
                # the same kind / operation / detail whose own site is gone
                import re as _re
                m0 = _re.search(r"\btx3[a-z_]*", key)
                sg = "|".join(key.split("|")[1:]).split("|#")[0]
                alt2 = [k for k in rows if k not in all_keys and k not in row_prems and "|".join(k.split("|")[1:]).split("|#")[0] == sg
                        and m0 and _re.search(r"\btx3[a-z_]*", k) and _re.search(r"\btx3[a-z_]*", k).group(0) == m0.group(0)]
                if alt2:
                    rows[key] = rows[alt2[0]] + " (row of a site that moved here)"
                else:
                    # ... or a row *with* premises whose function no longer exists (renamed): the same row speaks for the
                    # site, its premises re-checked for the function the site is in now
                    alt3 = [k for k in rows if k not in all_keys and k in row_prems and k.split("|")[0] not in F.fns
                            and "|".join(k.split("|")[1:]).split("|#")[0] == sg
                            and m0 and _re.search(r"\btx3[a-z_]*", k) and _re.search(r"\btx3[a-z_]*", k).group(0) == m0.group(0)]
                    if len(alt3) == 1:
                        old = alt3[0].split("|")[0]

                        def _ren(v):
                            if isinstance(v, str):
                                return p if v == old else v
                            if isinstance(v, list):
                                return [_ren(x) for x in v]
                            if isinstance(v, dict):
                                return {a: _ren(b) for a, b in v.items()}
                            return v
                        rows[key] = rows[alt3[0]] + " (row of a site whose function was renamed from %s)" % old.split("::")[-1]
                        row_prems[key] = _ren(row_prems[alt3[0]])
        if by is None and key in rows:
            used_rows.add(key)
            if key in row_prems:
                if key not in prem_cache:
                    prem_cache[key] = premises.check_all(F, row_prems[key])
                good, why = prem_cache[key]
                if good:
                    by = "D-TABLE: " + rows[key] + " [premises re-checked: " + why + "]"
                else:
                    row_broken = why
            else:
                by = "D-TABLE: " + rows[key]
        if by:
            res.add([ok(rule, key, w, by)])
        else:
            what = {"K1": "`%s!` is reachable" % s.what, "K2": "`%s` on a value from `%s` that can be None/Err" % (s.what, s.detail or "?"),
                    "K3": "`%s` check can fail (debug builds panic; release builds wrap)" % s.what,
                    "K4": "`%s` can panic on its argument" % s.what.split("::<")[0][-70:]}[s.kind]
            path = cg.path_to(roots, p)
            if row_broken:
                what += " - the reviewed row that discharged this site no longer holds: " + row_broken + " -"
            res.add([finding(rule, key, w, "%s in %s (reached via %s)" % (what, p, " -> ".join(x.split("::")[-1] if not x.startswith("<") else x.split(" as ")[0][1:].split("::")[-1] + "::" + x.split("::")[-1] for x in (path or [p])[-4:])))])
    res.count("functions in closure", n_fns)
    res.count("panic sites", n_sites)
    stale = [k for k in rows if k not in used_rows]
    if stale:
        res.note("table rows not needed on this tree (site gone or discharged otherwise): %d" % len(stale))
    return reach, sites


def _copy_root(f, du, l, depth=0):
    ds = du.defs.get(l, [])
    if depth < 6 and len(ds) == 1 and ds[0][0] == "stmt" and ds[0][3]["rv"]["k"] == "use":
        pl = mir.op_place(ds[0][3]["rv"]["op"])
        if pl is not None and not pl["p"]:
            return _copy_root(f, du, pl["l"], depth + 1)
    return l


def _counter_root(f, du, l, body):
    """is local l (a copy of) a counter that is incremented by a literal inside the loop body?"""
    root = _copy_root(f, du, l)
    for d in du.defs.get(root, []):
        if d[0] != "stmt" or d[1] not in body:
            continue
        r = d[3]["rv"]
        if r["k"] == "use":
            pl = mir.op_place(r["op"])
            if pl is not None and pl["p"]:
                for d2 in du.defs.get(pl["l"], []):
                    if d2[0] == "stmt" and d2[3]["rv"]["k"] == "binop" and d2[3]["rv"]["op"] in ("AddWithOverflow", "Add"):
                        a2 = mir.op_place(d2[3]["rv"]["a"])
                        if a2 is not None and _copy_root(f, du, a2["l"]) == root and discharge._const_int(f, du, d2[3]["rv"]["b"]) == 1:
                            return True
        if r["k"] == "binop" and r["op"] == "Add":
            a2 = mir.op_place(r["a"])
            if a2 is not None and _copy_root(f, du, a2["l"]) == root and discharge._const_int(f, du, r["b"]) == 1:
                return True
    return False


LOOP_ROWS = {}


def loop_obligations(F, res, reach, crates=("tx3_lang",), rule="LOOP", rows=None):
    LOOP_ROWS.clear()
    for r in (rows or []):
        LOOP_ROWS[r["key"]] = r["reason"]
    n = 0
    from ..common import row_lookup
    present = set()
    for p in reach:
        f = F.built.get(p, F.fns[p])
        if f["crate"] in crates and not is_derive(f) and mir.CFG(f).loops():
            present.add("%s|loop" % p)
    look = row_lookup(LOOP_ROWS, present)
    for p in sorted(reach):
        f = F.built.get(p, F.fns[p])
        if f["crate"] not in crates or is_derive(f):
            continue
        cfg = mir.CFG(f)
        loops = cfg.loops()
        if not loops:
            continue
        du = mir.DefUse(f)
        for h, body in sorted(loops.items()):
            if any(site_in_derive(f["blocks"][b]["t"].get("exp", "")) for b in body):
                continue
            n += 1
            key = "%s|loop" % p
            # the loop's own blocks (inner loops have their own obligation) and its exit tests: a test counts as the loop's
            # driver only if it decides an edge that leaves the loop and is evaluated in every iteration
            own = set(body)
            for h2, b2 in loops.items():
                if h2 != h and h2 in body and b2 < body:
                    own -= b2
            latches = [u for u in body if h in cfg.succ[u]]
            awaits = any(f["blocks"][b]["t"]["k"] == "yield" for b in body)
            it_next = False
            bounded = False
            for u in sorted(body):
                blk = f["blocks"][u]
                t = blk["t"]
                if t["k"] != "switch" or not any(v not in body and not f["blocks"][v]["cleanup"] for v in cfg.succ[u]):
                    continue
                if not all(cfg.dominates(u, l) for l in latches):
                    # the test is skipped on some iterations (a `break` inside a branch): it does not bound the loop
                    continue
                dpl = mir.op_place(t["discr"])
                if dpl is None:
                    continue
                for d in du.defs.get(dpl["l"], []):
                    if d[0] == "call":
                        continue
                    rv = d[3]["rv"]
                    if rv["k"] == "discr":
                        # `match iter.next()`: the scrutinee is the result of Iterator::next called in this loop's own blocks
                        for o in mir.provenance(f, du, {"l": rv["pl"]["l"], "p": []}):
                            if o.kind == "call" and o.term.get("trait") in ("std::iter::Iterator", "std::iter::DoubleEndedIterator") \
                                    and o.term.get("method") in ("next", "next_back") and o.bb in own:
                                it_next = True
                    elif rv["k"] == "binop" and rv["op"] in ("Lt", "Le", "Gt", "Ge"):
                        if discharge._const_int(f, du, rv["b"]) is not None or discharge._const_int(f, du, rv["a"]) is not None:
                            bounded = True
                        else:
                            # counter (only ever `+= 1` inside the loop) compared with a loop-invariant value
                            for side, other in (("a", "b"), ("b", "a")):
                                pa, po = mir.op_place(rv[side]), mir.op_place(rv[other])
                                if pa is None or po is None:
                                    continue
                                cnt = _counter_root(f, du, pa["l"], body)
                                inv = all(d2[1] not in body for d2 in du.defs.get(_copy_root(f, du, po["l"]), []))
                                if cnt and inv:
                                    bounded = True
            polls = any(f["blocks"][b]["t"]["k"] == "call" and (f["blocks"][b]["t"].get("callee") or "") == "std::future::Future::poll" for b in body)
            inner_await = awaits and not any(
                f["blocks"][b]["t"]["k"] == "call" and "desugar:Await" not in f["blocks"][b]["t"].get("exp", "") for b in body)
            w = where(f, f["blocks"][h]["t"].get("line"))
            if it_next:
                res.add([ok(rule, key, w, "iterator-driven loop")])
            elif inner_await:
                res.add([ok(rule, key, w, "await point: poll/yield loop of an awaited future (progress is the awaited future's: store = trusted interface)")])
            elif key in LOOP_ROWS:
                res.add([ok(rule, key, w, "D-TABLE: " + LOOP_ROWS[key])])
            elif bounded:
                res.add([ok(rule, key, w, "loop guarded by a comparison against a literal bound")])
            elif look(key):
                res.add([ok(rule, key, w, "D-TABLE: %s (row relocated from %s)" % look(key))])
            else:
                res.add([finding(rule, key, w, "loop is neither iterator-driven nor bounded by a literal: termination not evident")])
    res.count("natural loops", n)


def _roots(F, g, du, op):
    """(argument local, first-level field) pairs an operand derives from, crossing calls"""
    from .. import e9_attrib as e9
    out = set()
    for a in range(1, g.get("argc", 0) + 1):
        flds, _, _ = e9.deep_sources(F, g, du, op, self_local=a)
        for x in flds:
            out.add((a, x))
    return out


def _track_and_analyze(F, g):
    """[(kind, roots, line)] for Scope::track_* calls (value arguments) and Analyzable::analyze calls (receiver) in g"""
    du = mir.DefUse(g)
    out = []
    for bi, t in mir.calls(g):
        c = t.get("callee") or ""
        if re.search(r"Scope>::track_\w+$", c) and len(t["args"]) >= 2:
            r = set()
            for a in t["args"][1:]:
                r |= _roots(F, g, du, a)
            out.append(("track", r, t["line"], bi, c.split("::")[-1]))
        elif t.get("trait") == "tx3_lang::analyzing::Analyzable" and t.get("method") == "analyze":
            out.append(("analyze", _roots(F, g, du, t["args"][0]), t["line"], bi, "analyze"))
    return out


def growth_obligations(F, res, reach):
    """GROWTH: a *pass loop* (a loop that runs the same analysis again, not a loop over items) must not, in every pass, store a
    clone of a node in the scope and then analyse that same node against the scope: the analysis copies the scope's symbols
    (deep clones of the previous snapshot) into the node, so a node that mentions itself k times grows k-fold per pass."""
    n = 0
    for p in sorted(reach):
        f = F.built.get(p, F.fns[p])
        if f["crate"] != "tx3_lang" or is_derive(f) or "::analyzing::" not in p:
            continue
        cfg = mir.CFG(f)
        loops = cfg.loops()
        for h, body in sorted(loops.items()):
            # pass loop: not driven by an iterator over a collection (a counter compared with a bound, or a Range of integers)
            nexts = [f["blocks"][b]["t"] for b in body if f["blocks"][b]["t"]["k"] == "call" and f["blocks"][b]["t"].get("method") in ("next", "next_back") and f["blocks"][b]["t"].get("trait") == "std::iter::Iterator"]
            driven_by_collection = False
            for t in nexts:
                ty = " ".join(t.get("gargs") or [])
                # the outermost loop's own driver is the `next` whose block is the header (or its immediate successor)
                if f["blocks"][h]["t"] is t or t.get("line") == f["blocks"][h]["t"].get("line"):
                    if not re.search(r"std::ops::Range(Inclusive)?<(u|i)\d+|usize|isize>", ty) and "Range<" not in ty:
                        driven_by_collection = True
            if driven_by_collection:
                continue
            n += 1
            evs = []
            # events in the body, plus one level of workspace callees
            allev = _track_and_analyze(F, f)
            evs = [e for e in allev if e[3] in body]
            sub = []
            for b in body:
                t = f["blocks"][b]["t"]
                if t["k"] == "call":
                    r = t.get("resolved") or t.get("callee") or ""
                    g = F.fns.get(r)
                    if g is not None and g["crate"] == "tx3_lang" and "::analyzing::" in r and t.get("method") != "analyze" and not re.search(r"track_\w+$", r):
                        for e in _track_and_analyze(F, g):
                            sub.append((e, g))
            key = "%s|pass loop does not re-track and re-analyse the same node" % p
            hit = None
            tr = [e for e in evs if e[0] == "track"]
            an = [e for e in evs if e[0] == "analyze"]
            for a in tr:
                for b2 in an:
                    if a[1] & b2[1]:
                        hit = (f, a, b2)
            if hit is None and sub:
                by_g = {}
                for e, g in sub:
                    by_g.setdefault(g["path"], (g, []))[1].append(e)
                for gp, (g, es) in by_g.items():
                    for a in [e for e in es if e[0] == "track"]:
                        for b2 in [e for e in es if e[0] == "analyze"]:
                            if a[1] & b2[1]:
                                hit = (g, a, b2)
            w = where(f, f["blocks"][h]["t"].get("line"))
            if hit:
                g, a, b2 = hit
                res.add([finding("GROWTH", key, where(g, a[2]), "every pass of the loop in %s stores a clone of the node in the scope (%s, line %s) and then analyses the same node against that scope (line %s): each pass embeds the previous snapshot once per self-mention, so a definition that mentions itself k times costs k^passes" % (
                    p.split("::")[-1], a[4], a[2], b2[2]))])
            else:
                res.add([ok("GROWTH", key, w, "no track-then-analyse of one node inside this pass loop")])
    res.count("pass loops", n)


ELEM_ACCESS = ("core::slice::<impl [T]>::first", "core::slice::<impl [T]>::last", "core::slice::<impl [T]>::get", "std::ops::Index::index",
               "core::slice::<impl [T]>::iter", "std::iter::IntoIterator::into_iter", "std::vec::Vec::<T, A>::as_slice", "std::ops::Deref::deref",
               "std::option::Option::<T>::as_ref", "std::option::Option::<T>::unwrap", "std::ops::Try::branch", "std::option::Option::<T>::as_deref",
               "std::iter::Iterator::next", "std::iter::Iterator::peekable", "std::iter::Iterator::skip", "std::iter::Iterator::rev")


def _names(proj):
    """the named fields of a projection path (variant casts and positional payloads of Option / ControlFlow dropped)"""
    return tuple(x for x in proj if x.startswith(".") and not x[1:].isdigit())


def _elem_tag(through, iterated=False):
    """which elements of the collection an access can be: "[0]" (first), "[1..]" (an iteration after skip), "[*]" (any)"""
    names = [x.split("::")[-1] for x in through]
    if "skip" in names:
        return "[1..]"
    if not iterated and "first" in names:
        return "[0]"
    return "[*]"


def _same_child(k1, k2):
    """can the two access paths denote the same child?"""
    if len(k1) != len(k2) or not any(x.startswith("[") for x in k1):
        return False
    for a, b in zip(k1, k2):
        if a.startswith("[") and b.startswith("["):
            if {a, b} == {"[0]", "[1..]"}:
                return False
        elif a != b:
            return False
    return True


def rec_fanout(F, res):
    """G-RETYPE: the typing queries of the AST (`target_type` and the functions it is mutually recursive with) have no memo:
    their cost is the number of times each node is asked.  Inside one invocation, the same child must not be handed to the
    recursion twice on one path - once through an element accessor (`elements.first()`) and again by an iteration over the
    same collection (`elements.iter().all(|x| x.target_type() ..)`), say - or a nest of depth d costs 2^d.  Decided per
    function of the recursive component: the recursive calls (in the body and in the closures it hands to adaptors) are
    keyed by the path from `self` to their argument, element accessors and iterations mapped to one abstract element; two calls
    with the same key, one reachable from the other, are a finding."""
    from ..common import callers_index
    root = "tx3_lang::ast::DataExpr::target_type"
    if root not in F.fns:
        res.add([assumption("G-RETYPE", "tx3_lang::ast|typing queries", "crates/tx3-lang/src/ast.rs", "DataExpr::target_type not found under this name: not decided")])
        return
    # the recursive component of the root among the functions of tx3_lang (closures belong to their owner)
    def owner_of(p):
        f = F.fns.get(p)
        return (f.get("owner") or p) if f else p
    succ = {}
    for p, f in F.fns.items():
        if f["crate"] != "tx3_lang" or f.get("derived"):
            continue
        o = owner_of(p)
        for _, t in mir.calls(f):
            r = t.get("resolved") or (t.get("callee") if not t.get("trait") else None)
            if r in F.fns and F.fns[r]["crate"] == "tx3_lang":
                succ.setdefault(o, set()).add(owner_of(r))
            for fr in t.get("fnrefs") or ():
                if fr in F.fns and F.fns[fr]["crate"] == "tx3_lang" and owner_of(fr) != o:
                    succ.setdefault(o, set()).add(owner_of(fr))

    def reach(a):
        seen, st = set(), [a]
        while st:
            x = st.pop()
            for y in succ.get(x, ()):
                if y not in seen:
                    seen.add(y)
                    st.append(y)
        return seen
    fwd = reach(root)
    scc = {p for p in fwd if root in reach(p)} | ({root} if root in fwd else set())
    res.count("functions in the typing recursion", len(scc))
    if not scc:
        res.add([ok("G-RETYPE", root + "|no child is typed twice per level", "crates/tx3-lang/src/ast.rs", "the typing query is not recursive")])
        return
    bad = []
    for p in sorted(scc):
        f = F.fns[p]
        bodies = [f] + [c for c in F.fns.values() if c.get("owner") == p]
        cfg = mir.CFG(f)
        du = mir.DefUse(f)
        entries = []       # (key, block in f, line)
        for b in bodies:
            db = du if b is f else mir.DefUse(b)
            for bi, t in mir.calls(b):
                r = t.get("resolved") or (t.get("callee") if not t.get("trait") else None)
                if not (r in F.fns and owner_of(r) in scc) or not t["args"]:
                    continue
                if b is f:
                    for o in mir.provenance(f, du, t["args"][0], transparent_extra=ELEM_ACCESS):
                        if o.kind == "arg" and o.local == 1:
                            elem = any(x in ELEM_ACCESS[:5] or x.endswith("::next") for x in o.through)
                            entries.append((_names(o.proj) + ((_elem_tag(o.through),) if elem else ()), bi, t["line"]))
                else:
                    # inside a closure: its parameter is an element of what the adaptor (in f) iterates over
                    org = mir.provenance(b, db, t["args"][0], transparent_extra=ELEM_ACCESS)
                    if not any(o.kind == "arg" and o.local >= 2 for o in org):
                        continue
                    sub = tuple(x for o in org if o.kind == "arg" and o.local >= 2 for x in _names(o.proj))
                    for bj, t2 in mir.calls(f):
                        if b["path"] in (t2.get("fnrefs") or ()) and t2["args"]:
                            for o in mir.provenance(f, du, t2["args"][0], transparent_extra=ELEM_ACCESS + ("std::iter::Iterator::map", "std::iter::Iterator::filter")):
                                if o.kind == "arg" and o.local == 1:
                                    entries.append((_names(o.proj) + (_elem_tag(o.through, iterated=True),) + sub, bj, t["line"]))
        for i in range(len(entries)):
            for j in range(i + 1, len(entries)):
                k1, b1, l1 = entries[i]
                k2, b2, l2 = entries[j]
                if _same_child(k1, k2) and b1 != b2 and (b2 in cfg.reach_from(b1) or b1 in cfg.reach_from(b2)):
                    bad.append((f, l2, "".join(x if not x.startswith("[") else "[]" for x in k1)))
    key = root + "|no child is typed twice per level"
    if bad:
        f, line, path = bad[0]
        res.add([finding("G-RETYPE", key, where(f, line), "%s asks for the type of `self%s` twice on one path (once through an element accessor, once by iterating the same collection): the typing query has no memo, so a literal nested d levels deep is typed 2^d times and the analysis of a 40-deep list does not terminate in practice" % (f["path"].split("::")[-2] + "::" + f["path"].split("::")[-1], path))])
    else:
        res.add([ok("G-RETYPE", key, "crates/tx3-lang/src/ast.rs", "%d functions in the recursion; none hands the same child to it twice on one path" % len(scc))])


def run(ctx):
    F = ctx.F
    res = Result("C12")
    res.rule("PANIC", "every reachable panic site in the closure of parse_string/analyze is discharged (D-GRAMMAR, D-TEXT, structural guard, reviewed row)")
    res.rule("LOOP", "every natural loop in the closure is iterator-driven or bounded by a literal")
    res.rule("GROWTH", "pass loops do not store a clone of a node in the scope and re-analyse the node against it (k^passes growth)")
    res.rule("G-REPARSE", "no nesting grammar rule is parsed twice at the same position (2^depth parse time)")
    G, it = e2.analyse(F)
    res.count("parse functions interpreted against the grammar", len(it.analysed_fns))
    res.floor("parse functions interpreted against the grammar", len(it.analysed_fns), 55)
    res.floor("grammar rules", len(G.rules), 100)
    res.floor("rule switches checked", len(it.switches), 18)
    res.floor("next().unwrap() sites tracked", len(it.unwrap), 40)
    rows = table("e1_rows")["C12"]
    cg = CallGraph(F)
    reach, sites = panic_obligations(F, res, ROOTS, rows, cg=cg, grammar=(G, it))
    res.floor("functions in closure", res.analysed.get("functions in closure", 0), 1500)
    res.floor("panic sites", res.analysed.get("panic sites", 0), 60)
    loop_obligations(F, res, reach)
    growth_obligations(F, res, reach)
    res.rule("G-RETYPE", "the memo-less typing recursion is entered at most once per child on a path (no 2^depth typing time)")
    rec_fanout(F, res)
    # exponential re-parsing in the grammar
    R = e2.Reparse(F.grammar)
    sites = R.sites()
    nrec = len([n for n in R.rules if n in R.reach(n)])
    res.count("recursive grammar rules", nrec)
    res.floor("recursive grammar rules", nrec, 10)
    seen = set()
    for rule, what, X in sites:
        key = "tx3.pest|%s|%s parsed twice" % (rule, X)
        if key in seen:
            continue
        seen.add(key)
        res.add([finding("G-REPARSE", key, "crates/tx3-lang/src/tx3.pest", "rule `%s`: %s; `%s` can contain `%s` again, so nesting depth d costs 2^d parser steps (pest does not memoise): parse_string does not return in practice" % (rule, what, X, rule))])
    if not sites:
        res.add([ok("G-REPARSE", "tx3.pest|no nesting rule is parsed twice at one position", "crates/tx3-lang/src/tx3.pest", "%d rules, %d recursive; no repetition/option/alternative that continues after a nesting rule is followed by the same rule" % (len(R.rules), nrec))])
    # recursion: listed, not decided
    res.add([assumption("RECURSION", "tx3_lang front end", "crates/tx3-lang/src", "recursion over AST depth / scope chains terminates and fits the stack for nesting <= 64 (not decided statically)")])
    return res
