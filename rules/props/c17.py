"""C17 -- the published interface (TII) agrees with the IR it ships.

Static clauses:
  F-NORM    name normalisation agrees: the lowering lower-cases every parameter / party / env name it puts into the IR
            (rule F-NORM of C06); every key the TII emitter publishes for those names (params schema, env schema, parties,
            profile values) must pass through the same normalisation, and the request parser looks names up verbatim
  F-REQUIRES the traversals through which an IR reports the keys it requires (find_params -> Apply::params over
            Composite::components) visit every component of every IR node (rule T1 of C06 restricted to those methods): a key
            the interface declares for a construct in a burn block, a reference, .. is then also reported by the embedded IR
  F-SHADOW  a payload-free built-in symbol (`fees`) is never inserted into a scope after names taken from the program: the
            later insertion wins, so a parameter of that name would resolve to the built-in while the interface declares it
  F-EMBED   the IR embedded for transaction T is to_bytes(ws.tir(T.name)) - the IR Workspace::lower stored under that name -
            with the version string returned by the same to_bytes call
  WIRE      decode(embedded bytes) is structurally the lowered IR (rule WIRE of C11, re-run here)
  I-DIAG    "without collisions": the analyzer's duplicate-definition diagnostic is raised somewhere (names that collide after
            normalisation are otherwise accepted silently)
Not decided: JSON-schema content of the parameter types.
"""
import re

from .. import mir
from ..common import CallGraph, call_matches, is_derive, site_in_derive, with_closures
from ..engine import Result, ok, finding, assumption, where
from ..facts import BrokenCheck
from . import c06, c11

META = {
    "level": "other",
    "explanation": (
        "Provenance rules comparing two places in the source: whether a name passes through str::to_lowercase on its way into "
        "the IR (lowering) and on its way into each TII key (tx3c emitter) - they must agree for every name kind, because the "
        "server keeps only arguments whose key equals an IR parameter name; provenance of the embedded envelope's content and "
        "version in emit_tii; the serde wire tables of C11; and a construction inventory of the analyzer's diagnostics."),
    "trusted_base": ["rustc MIR, driver"],
    "not_decided": ["JSON-schema content", "dotfile parsing"],
}

TII = "tx3c::tii::"
_KEEP = []


_F = [None]


def _iter_elements(F, f, du, x):
    """origins of what an iterator hands out, when the value `x` is the result of `next()` on `something.map(closure)`: the
    matching component of the closure's returned value (inside the closure).  None when the iterator is not of that shape."""
    out = []
    proj = [p for p in x.proj if not p.startswith(" as ")]
    # (next() as Some).0 is the item; further .N select a tuple component of it
    comp = proj[1:] if proj and proj[0] == ".0" else None
    if comp is None:
        return None
    srcs = mir.provenance(f, du, x.term["args"][0], transparent_extra=("std::iter::IntoIterator::into_iter", "std::iter::Iterator::by_ref"))
    for src in srcs:
        if not (src.kind == "call" and src.callee == "std::iter::Iterator::map" and len(src.term["args"]) > 1):
            return None
        clos = [o.rv["closure"] for o in mir.provenance(f, du, src.term["args"][1]) if o.kind == "agg" and o.rv.get("closure") in F.fns]
        if not clos:
            return None
        for cp in clos:
            c = F.fns[cp]
            dc = mir.DefUse(c)
            for bi, si, st in mir.stmts(c):
                if st["lhs"]["l"] != 0 or st["lhs"]["p"]:
                    continue
                rv = st["rv"]
                if comp and comp[0][1:].isdigit() and rv["k"] == "agg" and "tuple" in rv and int(comp[0][1:]) < len(rv["ops"]):
                    out.append((c, dc, rv["ops"][int(comp[0][1:])]))
                elif not comp and rv["k"] == "use":
                    out.append((c, dc, rv["op"]))
                else:
                    return None
    return out or None


def lowered(f, du, op):
    """does the operand derive from a to_lowercase() call?  (True / False, description)"""
    o = mir.provenance(f, du, op, stop_at_calls=lambda t: "to_lowercase" in mir.callee_of(t))
    F = _F[0]
    if F is not None and o and any(x.kind == "call" and x.callee.endswith("Iterator::next") for x in o):
        # names handed over through an iterator the caller prepared (`params.map(|p| (p.name.to_lowercase(), ..))`)
        good = True
        for x in o:
            if x.kind == "call" and x.callee.endswith("Iterator::next"):
                el = _iter_elements(F, f, du, x)
                if el is None or not all(lowered(c, dc, eop)[0] for c, dc, eop in el):
                    good = False
            elif not (x.kind == "call" and "to_lowercase" in x.callee):
                good = False
        if good:
            return True, "to_lowercase() in the iterator the caller hands over"
    if o and all(x.kind == "call" and "to_lowercase" in x.callee for x in o):
        return True, "to_lowercase()"
    if o and all(x.kind == "const" and "str" in x.const and x.const["str"] == x.const["str"].lower() for x in o):
        return True, "lower-case literal"
    return False, "; ".join(repr(x) for x in o)[:160]


def f_norm(F, res):
    # premise: the lowering lower-cases (checked by C06's rule, re-run)
    sub = Result("C17")
    c06.f_norm(F, sub)
    res.add(sub.obs)
    # every name-keyed insertion of the TII emitter: map inserts and `required.push` in emit_tii - the emitter crate's helper
    # functions inlined, so that extracting or renaming a helper changes nothing - and in any other function of the crate.
    # Constants are schema vocabulary; the transactions / profiles maps are keyed by transaction and profile names, which
    # the IR does not normalise (recognised by role: the map flows into TiiFile.transactions / TiiFile.profiles).
    E0 = F.fn(TII + "emit_tii")
    _F[0] = F

    def want(t, callee):
        return callee["crate"] == "tx3c" and not callee.get("impl_trait") and not callee.get("trait_default") and len(callee["blocks"]) <= 400
    _KEEP.append(want)
    E = mir.inline_calls(F, E0, want=want, depth=5, max_blocks=6000)
    bodies = [E] + [c for c in F.fns.values() if c["crate"] == "tx3c" and not is_derive(c) and c["path"] != E0["path"] and c["path"] not in set(E.get("inlined", []))]
    n = 0
    for f in bodies:
        du = mir.DefUse(f)
        verbatim_maps = set()
        for bj, sj, s2 in mir.stmts(f):
            rv2 = s2["rv"]
            if rv2["k"] == "agg" and rv2.get("adt") == "tx3c::tii::types::TiiFile":
                for fld in ("transactions", "profiles"):
                    if fld in rv2.get("fields", []):
                        verbatim_maps |= {repr(x) for x in mir.provenance(f, du, rv2["ops"][rv2["fields"].index(fld)])}
        for bi, t in mir.calls(f):
            c = t.get("callee") or ""
            is_ins = c.endswith("::insert") and ("serde_json::Map" in c or "HashMap" in c or "BTreeMap" in c) and len(t["args"]) > 2
            is_push = c.endswith("Vec::<T, A>::push") and len(t["args"]) > 1 and "String" in " ".join(t.get("gargs") or [])
            if not (is_ins or is_push):
                continue
            org = mir.provenance(f, du, t["args"][1], stop_at_calls=lambda tt: "to_lowercase" in mir.callee_of(tt))
            if org and all(x.kind == "const" for x in org):
                continue   # schema vocabulary
            if is_ins and ({repr(x) for x in mir.provenance(f, du, t["args"][0])} & verbatim_maps):
                continue
            n += 1
            okk, why = lowered(f, du, t["args"][1])
            owner = f["blocks"][bi].get("inl") or f["path"]
            what = "insert" if is_ins else "push"
            key = "%s|name key (%s)" % (owner, what)
            w = where(F.fns.get(owner, f), t["line"])
            if okk:
                res.add([ok("F-NORM", key, w, why)])
            else:
                res.add([finding("F-NORM", key, w, "a name is published in the TII verbatim (%s) while the IR requires it lower-cased: a client supplying exactly what the TII declares is told the argument is missing" % why[:100])])
    res.count("TII key sites", n)
    res.floor("TII key sites", n, 4)
    # the server looks names up verbatim in find_params(tir)
    from ..common import with_helpers
    g = with_helpers(F, "tx3_resolver::trp::parse_resolve_request")
    du = mir.DefUse(g)
    LOOKUPS = ("get", "get_key_value", "contains_key", "remove", "remove_entry", "get_mut", "entry")
    from ..common import deep_bodies
    g_bodies = deep_bodies(F, "tx3_resolver::trp::parse_resolve_request")
    # (the match may also run the other way round: a walk over the declared table that looks each declared key up among the
    # supplied entries, a serde_json map)
    gets = [(bi, t) for gb in g_bodies for bi, t in mir.calls(gb)
            if re.search(r"((BTreeMap|HashMap)::<K, V(, [A-Z])*>|serde_json::Map::<[^>]*>)::(%s)$" % "|".join(LOOKUPS), t.get("callee") or "")]
    # the table of declared parameters is read, never consumed, while the request is matched against it: an entry that is
    # removed when first bound makes the outcome depend on the order in which env and args are walked (the explicit argument
    # loses against the environment entry of the same key)
    keyr = "tx3_resolver::trp::parse_resolve_request|the declared-parameter table is only read"
    muts = []
    for bi, t in mir.calls(g):
        m = re.search(r"(BTreeMap|HashMap)::<K, V(, [A-Z])*>::(remove|remove_entry|retain|clear|pop_first|pop_last|insert|drain|split_off|extract_if)$", t.get("callee") or "")
        if m and t["args"]:
            if any(o.kind == "call" and o.callee.endswith("find_params") for o in mir.provenance(g, du, t["args"][0], transparent_extra=("std::ops::DerefMut::deref_mut", "std::ops::Deref::deref"))):
                muts.append((t["line"], m.group(3)))
    if muts:
        res.add([finding("F-NORM", keyr, where(g, muts[0][0]), "parse_resolve_request `%s`s entries of the table find_params returned while it matches the request against it: a key supplied twice (environment and explicit argument) is bound to whichever comes first, the other is silently dropped" % muts[0][1])])
    else:
        res.add([ok("F-NORM", keyr, where(g), "find_params(..) is only looked up")])
    key = "tx3_resolver::trp::parse_resolve_request|lookup is verbatim"
    low = any("to_lowercase" in (t.get("callee") or "") for gb in g_bodies for _, t in mir.calls(gb))
    if gets and not low:
        res.add([ok("F-NORM", key, where(g), "params.get(&key) with the client's key as sent: the TII must spell keys exactly like the IR")])
    elif gets:
        res.add([ok("F-NORM", key, where(g), "the server normalises client keys with to_lowercase before the lookup")])
    else:
        raise BrokenCheck("parse_resolve_request no longer looks keys up")


def f_embed(F, res):
    def want(t, callee):
        return callee["crate"] == "tx3c" and not callee.get("impl_trait") and not callee.get("trait_default") and len(callee["blocks"]) <= 400
    _KEEP.append(want)
    f = mir.inline_calls(F, F.fn(TII + "emit_tii"), want=want, depth=3)
    du = mir.DefUse(f)
    w = where(f)
    aggs = [(bi, s) for bi, si, s in mir.stmts(f) if s["rv"]["k"] == "agg" and s["rv"].get("adt") == "tx3c::tii::types::TirEnvelope"]
    if not aggs:
        raise BrokenCheck("emit_tii no longer builds a TirEnvelope")
    for bi, s in aggs:
        rv = s["rv"]
        co = mir.provenance(f, du, rv["ops"][rv["fields"].index("content")])
        enc = [x for x in co if x.kind == "call" and x.callee == "hex::encode"]
        good = False
        vgood = False
        if enc:
            bo = mir.provenance(f, du, enc[0].term["args"][0])
            tb = [x for x in bo if x.kind == "call" and x.callee == "tx3_tir::encoding::to_bytes"]
            if tb and ".0" in tb[0].proj:
                to = mir.provenance(f, du, tb[0].term["args"][0], transparent_extra=("std::option::Option::<T>::ok_or_else", "std::option::Option::<T>::ok_or"))
                wt = [x for x in to if x.kind == "call" and x.callee.endswith("Workspace::tir")]
                if wt:
                    no = mir.provenance(f, du, wt[0].term["args"][1])
                    # ... and it is the name of the very transaction under whose key the envelope is published
                    keys = set()
                    for bj, t2 in mir.calls(f):
                        c2 = t2.get("callee") or ""
                        if c2.endswith("::insert") and ("HashMap" in c2 or "BTreeMap" in c2) and len(t2["args"]) > 2:
                            vo2 = mir.provenance(f, du, t2["args"][2])
                            if any(x.kind == "agg" and x.rv.get("adt") == "tx3c::tii::types::Transaction" for x in vo2):
                                keys |= {repr(x) for x in mir.provenance(f, du, t2["args"][1])}
                    if any(".name" in x.proj and ".value" in x.proj for x in no) and ({repr(x) for x in no} & keys):
                        good = True
            vo = mir.provenance(f, du, rv["ops"][rv["fields"].index("version")])
            if any(x.kind == "call" and x.callee == "tx3_tir::encoding::to_bytes" and ".1" in x.proj for x in vo):
                vgood = True
        key = TII + "emit_tii|embedded IR is to_bytes(ws.tir(tx.name))"
        if good:
            res.add([ok("F-EMBED", key, where(f, s["line"]), "content = hex(to_bytes(ws.tir(&tx.name.value)).0)")])
        else:
            res.add([finding("F-EMBED", key, where(f, s["line"]), "the embedded IR is not the encoding of the IR stored for this transaction")])
        key2 = TII + "emit_tii|version comes from the same encoding"
        if vgood:
            res.add([ok("F-EMBED", key2, where(f, s["line"]), "version = to_bytes(..).1.to_string()")])
        else:
            res.add([finding("F-EMBED", key2, where(f, s["line"]), "the envelope's version string is not the one returned by to_bytes")])
    # the transactions map key is the verbatim tx name, the same the workspace stored
    from ..common import with_helpers
    ws = with_helpers(F, "tx3_lang::facade::Workspace::lower")
    du2 = mir.DefUse(ws)
    ins = [(bi, t) for bi, t in mir.calls(ws) if (t.get("callee") or "").endswith("HashMap::<K, V, S, A>::insert")]
    key3 = "tx3_lang::facade::Workspace::lower|IR stored under tx.name.value"
    good3 = any(any(".name" in x.proj and ".value" in x.proj for x in mir.provenance(ws, du2, t["args"][1])) for bi, t in ins)
    if good3:
        res.add([ok("F-EMBED", key3, where(ws), "self.tir.insert(tx.name.value.clone(), tir)")])
    else:
        res.add([finding("F-EMBED", key3, where(ws), "the workspace does not store the IR under the transaction's name")])


def i_diag(F, res, variants=("DuplicateDefinition",)):
    AERR = "tx3_lang::analyzing::Error"
    built = set()
    for f in F.fns.values():
        if f["crate"] != "tx3_lang" or is_derive(f):
            continue
        for bi, si, s in mir.stmts(f):
            rv = s["rv"]
            if rv["k"] == "agg" and rv.get("adt") == AERR and not site_in_derive(s["exp"]):
                built.add(rv["variant"])
    a = F.adt(AERR)
    w = "%s:%s" % (a["file"].replace("/repo/", ""), a["line"])
    for v in variants:
        key = "%s::%s|raised somewhere" % (AERR, v)
        if v in built:
            res.add([ok("I-DIAG", key, w, "constructed by the analyzer")])
        else:
            res.add([finding("I-DIAG", key, w, "the `%s` diagnostic exists but is never raised: definitions whose names collide (after normalisation) are accepted silently" % v)])


KEY_TRANSPARENT = ("std::string::ToString::to_string", "std::borrow::ToOwned::to_owned", "std::convert::From::from", "std::convert::Into::into",
                   "std::clone::Clone::clone", "<str as std::string::ToString>::to_string")


def f_shadow(F, res):
    """F-SHADOW: a name the program declares is never replaced in the scope by a built-in symbol.  In every analyze() body of
    the analyzer (the Scope helpers inlined) a symbol inserted under a *literal* name (a payload-free built-in value such as `fees`) must not be
    inserted after symbols whose names come from the program (parameters, ..): the later insertion wins, so a parameter of that name would
    resolve to the built-in - the interface still declares the parameter, the IR no longer requires it."""
    n = 0
    for p, f0 in sorted(F.fns.items()):
        if f0["crate"] != "tx3_lang" or f0.get("impl_trait") != "tx3_lang::analyzing::Analyzable" or f0.get("name") != "analyze":
            continue

        def want(t, callee):
            # the analyzer's own helpers: analyzing.rs and its private submodules
            return callee["crate"] == "tx3_lang" and not callee.get("impl_trait") and callee["file"].rsplit(".", 1)[0].startswith(f0["file"].rsplit(".", 1)[0]) and len(callee["blocks"]) <= 60
        body = mir.inline_calls(F, f0, want=want, depth=2)
        du = mir.DefUse(body)
        cfg = mir.CFG(body)
        lit, user = [], []
        for bi, t in mir.calls(body):
            c = t.get("callee") or ""
            if not (c.endswith("::insert") and "HashMap" in c and len(t["args"]) == 3):
                continue
            vp = mir.op_place(t["args"][2])
            if vp is None or "ast::Symbol" not in body["locals"][vp["l"]]:
                continue
            ko = mir.provenance(body, du, t["args"][1], transparent_extra=KEY_TRANSPARENT)
            # built-in *values* only (a payload-free symbol such as Symbol::Fees, which resolves wherever a parameter would);
            # a built-in definition (the Ada asset) colliding with a program name of another kind is diagnosed where it is used
            vo = mir.provenance(body, du, t["args"][2])
            unit = bool(vo) and all((o.kind == "agg" and not o.rv.get("ops")) or o.kind == "const" for o in vo)
            if ko and all(o.kind == "const" for o in ko) and unit:
                lit.append((bi, t, sorted({str(o.const.get("str")) for o in ko})))
            else:
                user.append((bi, t))
        # a closure handed to an iterator adaptor (`params.iter().for_each(|p| scope.track_param_var(..))`) inserts its names
        # where the adaptor is called
        for bi, t in mir.calls(body):
            for fr in t.get("fnrefs") or ():
                g = F.fns.get(fr)
                if g is None or g.get("def_kind") != "Closure":
                    continue
                gi = mir.inline_calls(F, g, want=want, depth=2)
                gdu = mir.DefUse(gi)
                for bj, t2 in mir.calls(gi):
                    c2 = t2.get("callee") or ""
                    if c2.endswith("::insert") and "HashMap" in c2 and len(t2["args"]) == 3:
                        vp2 = mir.op_place(t2["args"][2])
                        if vp2 is not None and "ast::Symbol" in gi["locals"][vp2["l"]]:
                            k2 = mir.provenance(gi, gdu, t2["args"][1], transparent_extra=KEY_TRANSPARENT)
                            if not (k2 and all(o.kind == "const" for o in k2)):
                                user.append((bi, t))
        if not lit:
            continue
        for bi, t, names in lit:
            n += 1
            key = "%s|built-in `%s` is in scope before the program's names" % (p, "/".join(names))
            after = [ub for ub, _ in user if bi in cfg.reach_from(ub) and ub != bi]
            if after:
                res.add([finding("F-SHADOW", key, where(f0, t["line"]), "the built-in symbol `%s` is inserted into the scope after names taken from the program: a parameter called `%s` resolves to the built-in, so the IR does not require the key the interface declares" % ("/".join(names), "/".join(names)))])
            else:
                res.add([ok("F-SHADOW", key, where(f0, t["line"]), "inserted before any program-given name: a declared name of the same spelling shadows it")])
    res.count("built-in scope entries", n)
    if n == 0:
        res.add([assumption("F-SHADOW", "tx3_lang::analyzing|built-in scope entries", "crates/tx3-lang/src/analyzing.rs", "no literal-named built-in value is inserted into a scope by the analyzer's analyze() bodies (helpers inlined): not decided")])


def run(ctx):
    F = ctx.F
    res = Result("C17")
    res.rule("F-NORM", "TII keys are normalised exactly like the IR names")
    res.rule("F-EMBED", "the embedded IR and version come from to_bytes of the stored IR")
    res.rule("WIRE", "serde writer = reader = definition for every IR type")
    res.rule("I-DIAG", "the duplicate-definition diagnostic is raised")
    res.rule("F-REQUIRES", "the traversals that report the keys an IR requires (Apply::params over Composite::components) visit every component, so find_params of the embedded IR reports every key the interface declares")
    f_norm(F, res)
    n = c06.t1(F, res, only={"params", "components"}, rule="F-REQUIRES")
    res.floor("key-reporting traversal impls", n, 20)
    res.rule("F-SHADOW", "a declared name is never replaced in the scope by a built-in symbol inserted later")
    f_shadow(F, res)
    f_embed(F, res)
    c11.wire(F, res)
    i_diag(F, res)
    # a client that passes an argument explicitly gets that value, also when the environment has an entry of the same key
    # (a tx parameter and an env field that share their lower-cased spelling): rule shared with C16
    from . import c16
    res.rule("S-ARGSWIN", "where args and env are merged, the explicit arguments come last (they win on a shared key)")
    c16.precedence(F, res)
    return res
