"""C20 -- resolution does not depend on what the compiler instance compiled before.

Static clauses:
  S-STALE    every field of tx3_cardano::Compiler that is written after construction by a `&mut self` method and read in the
             closure of reduce_op must be re-initialised for each resolution: some method reachable from resolve_tx must reset it
             to a history-independent value before the first read; otherwise state of an earlier transaction leaks
  S-REFRESH  a field compile() writes and reduce_op reads (the body kept for min_utxo sizing) is replaced on *every* path of
             compile() that returns Ok, helpers inlined, by a value that does not come from the field itself: each round of the
             resolve loop then sizes against the transaction being resolved.  Keyed apart from S-STALE, so the listed
             first-round leak does not hide a body that is never replaced
  S-WASHOUT  while such a kept body exists, the earlier transaction's influence is removed only by the resolve loop re-evaluating
             until a pass reproduces its predecessor: every success exit of the round loop is the confirmed one (the give-up
             exit on the round bound is C05's listed finding and is not repeated)
  S-NOSTATE  resolve_tx / eval_pass / inputs::resolve keep no state across calls: no statics and no interior mutability in the
             resolver and compiler crates' resolve closure
Not decided: that the fix-point reached is independent of the starting body when no reset exists (value-level).
"""
import json
import os
import re

from .. import mir
from ..common import CallGraph, is_derive, with_closures
from ..engine import Result, ok, finding, assumption, where
from ..facts import BrokenCheck

META = {
    "level": "other",
    "explanation": (
        "Effect inventory on the compiler instance: for each field of tx3_cardano::Compiler, which methods write it after "
        "construction (assignments through `&mut self`), which functions in the closure of reduce_op read it, and whether any "
        "method reachable from resolve_tx resets it to a history-independent value (None/Default/constructor argument) before "
        "the first read of a resolution. A field that is written by compile(), read by reduce_op() and never reset makes the "
        "outcome a function of the instance's history for every template that reads it. Plus absence of statics / interior "
        "mutability in the resolve closure."),
    "trusted_base": ["rustc MIR, driver"],
    "not_decided": ["whether the resolve loop's fix-point washes out a stale starting body (value-level; the probe shows it does not always: a panic or a different first round)"],
}

COMP = "tx3_cardano::Compiler"


def field_of(pl, adt):
    for p in pl["p"]:
        if p[0] == "f" and p[2] == adt:
            return p[1]
    return None


def _field_events(f, adt):
    """[(bb, line, field, kind)] with kind in overwrite / expose (a `&mut self.f` handed out: may read and write) / read"""
    out = []
    for bi, si, s in mir.stmts(f):
        if f["blocks"][bi]["cleanup"]:
            continue
        fl = [q for q in s["lhs"]["p"] if q[0] == "f" and q[2] == adt]
        if fl:
            # assignment to the field itself (not to something inside it) is a definite overwrite
            idx = s["lhs"]["p"].index(fl[0])
            whole = idx == len(s["lhs"]["p"]) - 1
            out.append((bi, s["line"], fl[0][1], "overwrite" if whole else "expose", s))
        rv = s["rv"]
        pls = []
        if rv["k"] in ("use", "cast"):
            pl = mir.op_place(rv["op"])
            if pl is not None:
                pls.append((pl, False))
        elif rv["k"] in ("ref", "rawptr"):
            pls.append((rv["pl"], bool(rv.get("mut"))))
        elif rv["k"] == "discr":
            pls.append((rv["pl"], False))
        elif rv["k"] == "agg":
            for o in rv["ops"]:
                pl = mir.op_place(o)
                if pl is not None:
                    pls.append((pl, False))
        for pl, mut in pls:
            fld = field_of(pl, adt)
            if fld:
                out.append((bi, s["line"], fld, "expose" if mut else "read", s))
    for bi, t in mir.calls(f):
        for a in t["args"]:
            pl = mir.op_place(a)
            if pl is not None:
                fld = field_of(pl, adt)
                if fld:
                    out.append((bi, t["line"], fld, "read", None))
    return out


def s_stale(F, res):
    """History independence of the compiler instance, per entry point: a field that is written (or handed out as `&mut`) after
    construction must, in every entry point of the Compiler trait that looks at it, be definitely overwritten with a value
    that does not come from the field itself before it is looked at - or be reset by a method the resolver calls before the
    first round."""
    adt = F.adt(COMP)
    fields = [fd["name"] for fd in adt["variants"][0]["fields"]]
    cg = CallGraph(F, callbacks=False)
    entries = [p for p, f in F.fns.items() if p.startswith("<tx3_cardano::Compiler as tx3_tir::compile::Compiler>::") and not f.get("owner")]
    if len(entries) < 2:
        raise BrokenCheck("Compiler trait entry points not found")
    ev = {}
    for p, f in F.fns.items():
        if f["crate"] != "tx3_cardano" or is_derive(f):
            continue
        e = _field_events(f, COMP)
        if e:
            ev[p] = e
    ctor = "tx3_cardano::Compiler::new"
    written = {}
    for p, e in ev.items():
        if p == ctor:
            continue
        for bi, line, fld, kind, s in e:
            if kind in ("overwrite", "expose"):
                written.setdefault(fld, []).append((p, line, kind))
    # resets reachable from the resolver
    resets = {}
    for p, e in ev.items():
        f = F.fns[p]
        du = None
        for bi, line, fld, kind, s in e:
            if kind != "overwrite" or s is None:
                continue
            du = du or mir.DefUse(f)
            rv = s["rv"]
            src = mir.provenance(f, du, rv["op"]) if rv["k"] == "use" else []
            is_reset = (rv["k"] == "agg" and rv.get("variant") == "None") or any(
                o.kind == "agg" and o.rv.get("variant") == "None" for o in src) or any(
                o.kind == "call" and o.callee.endswith("Default::default") for o in src)
            if is_reset and p != ctor:
                resets.setdefault(fld, []).append(p)
    resolve_reach = cg.reachable(["tx3_resolver::resolve_tx"])
    w = "%s:%s" % (adt["file"].replace("/repo/", ""), adt["line"])
    for fld in fields:
        key = "%s.%s" % (COMP, fld)
        wr = written.get(fld, [])
        if not wr:
            res.add([ok("S-STALE", key, w, "never written or handed out mutably after construction")])
            continue
        stale = []
        looked = False
        for ep in sorted(entries):
            f = F.fns[ep]
            cfg = mir.CFG(f)
            du = mir.DefUse(f)
            mine = [x for x in ev.get(ep, []) if x[2] == fld]
            over = []
            for bi, line, _, kind, s in mine:
                if kind == "overwrite" and s is not None:
                    src = mir.provenance(f, du, s["rv"].get("op") or {}) if s["rv"]["k"] == "use" else []
                    self_dep = any(o.kind == "arg" and o.local == 1 and ("." + fld) in o.proj for o in src)
                    if not self_dep:
                        over.append(bi)
            for bi, line, _, kind, s in mine:
                if kind in ("read", "expose"):
                    looked = True
                    if not any(ob != bi and cfg.dominates(ob, bi) for ob in over):
                        stale.append((ep, line, kind))
        rs = [p for p in resets.get(fld, []) if p in resolve_reach]
        if not looked:
            res.add([ok("S-STALE", key, w, "written by %s but never looked at by an entry point of the Compiler trait" % ", ".join(sorted({x[0].split("::")[-1] for x in wr})))])
        elif not stale:
            res.add([ok("S-STALE", key, w, "every look at it inside an entry point is dominated by an overwrite in the same call")])
        elif rs:
            res.add([ok("S-STALE", key, w, "reset to a history-independent value in %s, which the resolver reaches" % ", ".join(sorted({x.split("::")[-1] for x in rs})))])
        else:
            ep, line, kind = stale[0]
            res.add([finding("S-STALE", key, where(F.fns[ep], line), "`%s` is %s by %s and %s by %s without being overwritten first in that call, and nothing the resolver calls resets it: the outcome depends on what this compiler instance compiled before" % (
                fld, "/".join(sorted({x[2] + "n" if x[2] == "overwrite" else "handed out as &mut" for x in wr})).replace("overwriten", "overwritten"), ", ".join(sorted({x[0].split("::")[-1] for x in wr})),
                "handed out as &mut (read and conditionally written)" if kind == "expose" else "read", ep.split("::")[-1]))])
    res.count("Compiler fields", len(fields))
    res.floor("Compiler fields", len(fields), 4)
    res.count("Compiler trait entry points", len(entries))


def s_refresh(F, res):
    """A field that reduce_op reads and compile() writes (the body kept for min_utxo sizing) must be replaced by *every*
    successful compile(): each path of compile() - helpers inlined - that reaches `Ok(..)` passes through an unconditional
    overwrite of the field with a value that does not come from the field itself.  Only then does each round of the resolve
    loop size against the transaction being resolved; a conditional or merged write keeps an earlier transaction's body alive
    for the whole resolution (necessary condition; the first-round leak is S-STALE's subject)."""
    from ..common import with_helpers
    adt = F.adt(COMP)
    fields = [fd["name"] for fd in adt["variants"][0]["fields"]]
    entries = [p for p, f in F.fns.items() if p.startswith("<tx3_cardano::Compiler as tx3_tir::compile::Compiler>::") and not f.get("owner")]
    readers, writers = {}, {}
    bodies = {ep: with_helpers(F, ep, depth=3) for ep in entries}
    evs = {ep: _field_events(b, COMP) for ep, b in bodies.items()}
    for ep, e in evs.items():
        for bi, line, fld, kind, s in e:
            (readers if kind == "read" else writers).setdefault(fld, set()).add(ep)
    n = 0
    for fld in fields:
        for ep in sorted(writers.get(fld, ())):
            if not (readers.get(fld, set()) - {ep}):
                continue
            n += 1
            f = bodies[ep]
            du = mir.DefUse(f)
            cfg = mir.CFG(f)
            key = "%s.%s|replaced by every successful %s" % (COMP, fld, ep.split("::")[-1])
            over = {}
            for bi, line, fl, kind, s in evs[ep]:
                if fl != fld or kind != "overwrite" or s is None:
                    continue
                src = mir.provenance(f, du, s["rv"].get("op") or {}) if s["rv"]["k"] == "use" else []
                if any(o.kind == "arg" and o.local == 1 and ("." + fld) in o.proj for o in src):
                    continue
                si = f["blocks"][bi]["s"].index(s)
                over[bi] = min(over.get(bi, si), si)
            # `self.f.replace(v)` / `self.f.insert(v)` / `mem::replace(&mut self.f, v)` overwrite just the same
            for bi, t in mir.calls(f):
                c = t.get("callee") or ""
                if not (c in ("std::option::Option::<T>::replace", "std::option::Option::<T>::insert", "std::mem::replace") and t["args"]):
                    continue
                for o in mir.provenance(f, du, t["args"][0]):
                    if o.kind == "arg" and o.local == 1 and o.proj and o.proj[-1] == "." + fld:
                        over[bi] = len(f["blocks"][bi]["s"])
            # blocks that build the Ok(..) which is returned
            oks = set()
            for o in mir.provenance(f, du, {"l": 0, "p": []}):
                if o.kind == "agg" and o.rv.get("variant") == "Ok":
                    bb = next((bi for bi, si, st in mir.stmts(f) if st["rv"] is o.rv), None)
                    if bb is not None:
                        oks.add((bb, next(i for i, st in enumerate(f["blocks"][bb]["s"]) if st["rv"] is o.rv)))
            if not oks:
                raise BrokenCheck("%s returns no Ok(..) aggregate" % ep)
            # forward search from the entry that stops at overwriting blocks
            seen, st = set(), [0]
            while st:
                b = st.pop()
                if b in seen or f["blocks"][b]["cleanup"]:
                    continue
                seen.add(b)
                if b in over:
                    continue
                st.extend(cfg.succ[b])
            bad = sorted(b for b, si in oks if b in seen and not (b in over and over[b] < si))
            if bad:
                line = f["blocks"][bad[0]]["s"][0]["line"] if f["blocks"][bad[0]]["s"] else f["blocks"][bad[0]]["t"].get("line")
                res.add([finding("S-REFRESH", key, where(F.fns[ep], line), "%s can return Ok(..) without having replaced `%s`: the field keeps the body of an earlier round or an earlier transaction, and %s then sizes against it for the rest of the resolution" % (
                    ep.split("::")[-1], fld, ", ".join(sorted(x.split("::")[-1] for x in readers[fld] - {ep}))))])
            else:
                res.add([ok("S-REFRESH", key, where(F.fns[ep]), "every path to Ok(..) passes an unconditional overwrite of the field")])
    res.count("refresh obligations", n)
    res.floor("refresh obligations", n, 1)


def s_washout(F, res):
    """S-WASHOUT: as long as a kept body exists that a first round may size against (S-STALE), the only thing that removes the
    earlier transaction's influence is the resolve loop re-evaluating until a pass reproduces its predecessor.  Every success
    exit of the round loop must therefore be the confirmed one (`eval_pass() == None`).  The exit on the round bound is the
    genuine defect listed under C05 (S-CONVERGE) and is not repeated here; any *other* way of leaving the loop early returns a
    transaction that may still be sized from the previous history."""
    from .. import e8_state
    f, exits = e8_state.resolve_loop_exits(F)
    listed = json.load(open(os.path.join(os.path.dirname(os.path.dirname(os.path.dirname(os.path.abspath(__file__)))), "tables", "known_findings.json")))
    listed = listed["findings"] if isinstance(listed, dict) else listed
    c05_known = {x["key"] for x in listed if x.get("property") == "C05" and not str(x.get("status", "")).startswith("fixed")}
    n = 0
    for kind, line, detail in exits:
        if not kind.startswith("unconverged"):
            continue
        n += 1
        key = "tx3_resolver::resolve_tx|loop exit (%s)" % kind
        if ("S-CONVERGE|" + key) in c05_known:
            res.add([assumption("S-WASHOUT", key, where(f, line), "the give-up exit on the round bound is a listed finding of C05 (S-CONVERGE); whether history can still show after that many rounds is not decided here")])
        else:
            res.add([finding("S-WASHOUT", key, where(f, line), "resolve_tx %s: a first round sized from the body an earlier transaction left in the compiler is returned without a pass having reproduced it - the outcome depends on what the instance compiled before" % detail)])
    if not any(k == "converged" for k, _, _ in exits):
        res.add([finding("S-WASHOUT", "tx3_resolver::resolve_tx|no convergence exit", where(f), "the loop has no exit on a confirmed fixed point (the pass function answering None, or this round's evaluation / fee equal to what the round was computed with)")])
    elif n == 0 or all(o.status != "finding" for o in res.obs if o.rule == "S-WASHOUT"):
        res.add([ok("S-WASHOUT", "tx3_resolver::resolve_tx|success exits are confirmed fixed points", where(f), "apart from the listed give-up exit, the loop is left towards Ok(..) only when a pass reproduced the previous one")])


INTERIOR = re.compile(r"std::cell::(Cell|RefCell|OnceCell|UnsafeCell)<|std::sync::(Mutex|RwLock|OnceLock)<|std::sync::atomic::")


def s_nostate(F, res):
    statics = [p for p, f in F.ctfe.items() if f["def_kind"].startswith("Static") and f["crate"] in ("tx3_resolver", "tx3_cardano", "tx3_tir")]
    key = "resolver/compiler crates|no statics"
    if statics:
        res.add([finding("S-NOSTATE", key, "crates", "static items in the resolve path crates: %s" % statics)])
    else:
        res.add([ok("S-NOSTATE", key, "crates", "no static items in tx3-resolver, tx3-cardano, tx3-tir")])
    bad = []
    for a in F.adts.values():
        if a["crate"] not in ("tx3_cardano", "tx3_resolver") or "::_::" in a["path"]:
            continue
        for v in a["variants"]:
            for fd in v["fields"]:
                if INTERIOR.search(fd["ty"]):
                    bad.append("%s.%s" % (a["path"], fd["name"]))
    key2 = "resolver/compiler crates|no interior mutability"
    if bad:
        res.add([finding("S-NOSTATE", key2, "crates", "interior-mutable fields: %s" % bad[:5])])
    else:
        res.add([ok("S-NOSTATE", key2, "crates", "no Cell/RefCell/Mutex/atomic field in the resolver and compiler types")])


def run(ctx):
    F = ctx.F
    res = Result("C20")
    res.rule("S-STALE", "compiler fields written after construction and read by reduce_op are reset for each resolution")
    res.rule("S-NOSTATE", "no statics / interior mutability on the resolve path")
    res.rule("S-REFRESH", "a field compile() keeps for reduce_op is replaced by every successful compile()")
    s_stale(F, res)
    s_refresh(F, res)
    res.rule("S-WASHOUT", "the resolve loop leaves towards Ok(..) only on a confirmed fixed point (the listed C05 give-up exit apart)")
    s_washout(F, res)
    # ... and the fix point it converges to is the same from every start only if the evaluation itself has no memory: the fee
    # compile() reports is the fee function of the payload it returns (clause shared with C05)
    from . import c05
    c05.reported_fee_clause(F, res, rule="S-WASHOUT", why="the fee compile() reports is not just the fee function of the returned payload (it is clamped against / mixed with something else, e.g. the fee the body already pays): a round that started from an earlier transaction's body can then pin the loop to a different fix point than a fresh instance reaches")
    s_nostate(F, res)
    return res
