"""C20 -- resolution does not depend on what the compiler instance compiled before.

Static clauses:
  S-STALE    every field of tx3_cardano::Compiler that is written after construction by a `&mut self` method and read in the
             closure of reduce_op must be re-initialised for each resolution: some method reachable from resolve_tx must reset it
             to a history-independent value before the first read; otherwise state of an earlier transaction leaks
  S-NOSTATE  resolve_tx / eval_pass / inputs::resolve keep no state across calls: no statics and no interior mutability in the
             resolver and compiler crates' resolve closure
Not decided: that the fix-point reached is independent of the starting body when no reset exists (value-level).
"""
import re

from .. import mir
from ..common import CallGraph, is_derive, with_closures
from ..engine import Result, ok, finding, assumption, where
from ..facts import BrokenCheck

META = {
    "level": "other",
    "explanation": (
        "Effect inventory on the compiler instance: for each field of tx3_cardano::Compiler, which methods write it after "
        "construction (assignments through `&mut self`), which functions in the closure of reduce_op read it, and whether any "
        "method reachable from resolve_tx resets it to a history-independent value (None/Default/constructor argument) before "
        "the first read of a resolution. A field that is written by compile(), read by reduce_op() and never reset makes the "
        "outcome a function of the instance's history for every template that reads it. Plus absence of statics / interior "
        "mutability in the resolve closure."),
    "trusted_base": ["rustc MIR, driver"],
    "not_decided": ["whether the resolve loop's fix-point washes out a stale starting body (value-level; the probe shows it does not always: a panic or a different first round)"],
}

COMP = "tx3_cardano::Compiler"


def field_of(pl, adt):
    for p in pl["p"]:
        if p[0] == "f" and p[2] == adt:
            return p[1]
    return None


def s_stale(F, res):
    adt = F.adt(COMP)
    fields = [fd["name"] for fd in adt["variants"][0]["fields"]]
    cg = CallGraph(F, callbacks=False)
    # writes after construction
    writes = {}
    resets = {}
    for f in F.fns.values():
        if f["crate"] != "tx3_cardano" or is_derive(f):
            continue
        du = None
        for bi, si, s in mir.stmts(f):
            fld = field_of(s["lhs"], COMP)
            if fld is None:
                continue
            writes.setdefault(fld, []).append((f, s))
            du = du or mir.DefUse(f)
            rv = s["rv"]
            src = mir.provenance(f, du, rv["op"]) if rv["k"] == "use" else []
            is_reset = (rv["k"] == "agg" and rv.get("variant") == "None") or any(
                o.kind == "agg" and o.rv.get("variant") == "None" for o in src) or any(
                o.kind == "call" and o.callee.endswith("Default::default") for o in src)
            if is_reset:
                resets.setdefault(fld, []).append(f)
    reads = {}
    rroots = ["<tx3_cardano::Compiler as tx3_tir::compile::Compiler>::reduce_op"]
    for p in cg.reachable(rroots):
        f = F.fns[p]
        if f["crate"] != "tx3_cardano":
            continue
        for bi, si, s in mir.stmts(f):
            rv = s["rv"]
            pls = []
            if rv["k"] in ("use", "cast"):
                pl = mir.op_place(rv["op"])
                if pl is not None:
                    pls.append(pl)
            elif rv["k"] in ("ref", "rawptr", "discr"):
                pls.append(rv["pl"])
            for pl in pls:
                fld = field_of(pl, COMP)
                if fld:
                    reads.setdefault(fld, set()).add(p)
    resolve_reach = cg.reachable(["tx3_resolver::resolve_tx"]) | cg.reachable(["<tx3_cardano::Compiler as tx3_tir::compile::Compiler>::compile"]) | cg.reachable(rroots)
    w = "%s:%s" % (adt["file"].replace("/repo/", ""), adt["line"])
    for fld in fields:
        key = "%s.%s" % (COMP, fld)
        wr = writes.get(fld, [])
        rd = reads.get(fld, set())
        if not wr:
            res.add([ok("S-STALE", key, w, "never written after construction")])
            continue
        if not rd:
            res.add([ok("S-STALE", key, w, "written by %s but not read by reduce_op's closure" % ", ".join(sorted({x[0]["path"].split("::")[-1] for x in wr})))])
            continue
        rs = [f for f in resets.get(fld, []) if f["path"] in resolve_reach]
        if rs:
            res.add([ok("S-STALE", key, w, "reset to a history-independent value in %s" % ", ".join(sorted({f["path"].split("::")[-1] for f in rs})))])
        else:
            res.add([finding("S-STALE", key, w, "`%s` is written by %s, read by %s and never reset: a resolution starts from whatever the instance compiled last" % (
                fld, ", ".join(sorted({x[0]["path"].split("::")[-1] for x in wr})), ", ".join(sorted(x.split("::")[-1] for x in rd))))])
    res.count("Compiler fields", len(fields))
    res.floor("Compiler fields", len(fields), 4)


INTERIOR = re.compile(r"std::cell::(Cell|RefCell|OnceCell|UnsafeCell)<|std::sync::(Mutex|RwLock|OnceLock)<|std::sync::atomic::")


def s_nostate(F, res):
    statics = [p for p, f in F.ctfe.items() if f["def_kind"].startswith("Static") and f["crate"] in ("tx3_resolver", "tx3_cardano", "tx3_tir")]
    key = "resolver/compiler crates|no statics"
    if statics:
        res.add([finding("S-NOSTATE", key, "crates", "static items in the resolve path crates: %s" % statics)])
    else:
        res.add([ok("S-NOSTATE", key, "crates", "no static items in tx3-resolver, tx3-cardano, tx3-tir")])
    bad = []
    for a in F.adts.values():
        if a["crate"] not in ("tx3_cardano", "tx3_resolver") or "::_::" in a["path"]:
            continue
        for v in a["variants"]:
            for fd in v["fields"]:
                if INTERIOR.search(fd["ty"]):
                    bad.append("%s.%s" % (a["path"], fd["name"]))
    key2 = "resolver/compiler crates|no interior mutability"
    if bad:
        res.add([finding("S-NOSTATE", key2, "crates", "interior-mutable fields: %s" % bad[:5])])
    else:
        res.add([ok("S-NOSTATE", key2, "crates", "no Cell/RefCell/Mutex/atomic field in the resolver and compiler types")])


def run(ctx):
    F = ctx.F
    res = Result("C20")
    res.rule("S-STALE", "compiler fields written after construction and read by reduce_op are reset for each resolution")
    res.rule("S-NOSTATE", "no statics / interior mutability on the resolve path")
    s_stale(F, res)
    s_nostate(F, res)
    return res
