"""C07 -- staged application is order-independent and reduction is idempotent.

Static clauses (necessary conditions for confluence; the behavioural statement itself is value-level and not decided):
  S-REDUCE   blanket reduce(): reduce_self is reachable only on the true edge of is_constant(); Expression::is_constant
             is constant-false for EvalCompiler and Param::is_constant is constant-false for everything but Set
  S-UNWRAP   Expression::reduce returns the inner expression of BuiltInOp::NoOp / Coerce::NoOp / Param::Set
  S-KIND     each Param::apply_X substitutes only its own parameter kind (shared with C06)
  T2         compiler ops are substituted bottom-up: Node impls recurse with Node::apply (shared with C06)
  T1(Node)   Node::apply visits every Expression-bearing field (shared engine E3)
  S-STAGES   in the resolver's pass function the compiler's built-ins are applied (Node::apply with the compiler as visitor) in
             every round, after apply_fees and before compile - not hoisted in front of the loop
  S-PURE     stages keep no state: no mutable statics / interior mutability in tx3-tir's reduce closure
  S-ALLCONST no `Apply::is_constant` impl combines its children's is_constant() with `any` (a node is constant only when all
             of its children are)
"""
from .. import mir, e3_trav as e3
from ..common import with_closures, call_matches, is_trait_call, CallGraph, is_derive
from ..engine import Result, ok, finding, assumption, where
from ..facts import BrokenCheck
from . import c06

META = {
    "level": "other",
    "explanation": (
        "CFG and taint rules over MIR for the mechanisms that make staged application confluent: the is_constant guard in the "
        "blanket reduce (dominance), the constant-false arms of is_constant for compiler ops and unset params, the NoOp/Set "
        "unwrapping arms of Expression::reduce, the kind discipline of Param::apply_* (dominance under the matching arm), "
        "bottom-up compiler-op substitution (Node impls recurse through Node::apply; every Expression-bearing field visited), and "
        "absence of hidden state in the stages. A reordering or idempotence bug has to break one of these structural clauses or "
        "be a value-level arithmetic bug; only the former is decided here."),
    "trusted_base": ["rustc nightly MIR (opt-level 0)", "mirfacts driver", "rules/mir.py dominators"],
    "not_decided": ["confluence / idempotence of the rewrite relation as such (value-level: e.g. add-after-apply_fees equals apply_fees-after-partial-add)",
                    "canonical equality of asset lists produced in hash-iteration order"],
}

EXPR = c06.EXPR
APPLY = c06.APPLY
COMPOSITE = c06.COMPOSITE
NODE = c06.NODE


def s_reduce(F, res):
    f = F.fn("<T as tx3_tir::reduce::Apply>::reduce")
    cfg = mir.CFG(f)
    w = where(f)
    key = f["path"] + "|reduce_self guarded by is_constant"
    rs = [bi for bi, t in mir.calls(f) if is_trait_call(t, COMPOSITE, "reduce_self")]
    ic = [bi for bi, t in mir.calls(f) if is_trait_call(t, APPLY, "is_constant")]
    if not rs:
        raise BrokenCheck("blanket reduce no longer calls reduce_self")
    good = False
    why = "no is_constant() test dominates reduce_self"
    for cb in ic:
        t = f["blocks"][cb]["t"]
        nxt = t["t"]
        tt = f["blocks"][nxt]["t"]
        if tt["k"] != "switch":
            continue
        pl = mir.op_place(tt["discr"])
        if pl is None or pl["l"] != t["dest"]["l"]:
            continue
        false_t = [b for v, b in tt["targets"] if v == 0]
        true_t = tt["otherwise"]
        if not false_t:
            continue
        # reduce_self only on the true side: dominated by true target, and not reachable from the false target
        if all(cfg.dominates(true_t, r) for r in rs) and not (set(rs) & cfg.reach_from(false_t[0])):
            # and is_constant is asked about the value handed to reduce_self (the reduced x)
            good = True
        else:
            why = "reduce_self is reachable when is_constant() is false"
    if good:
        res.add([ok("S-REDUCE", key, w, "reduce_self is dominated by the true edge of `if x.is_constant()`")])
    else:
        res.add([finding("S-REDUCE", key, w, why)])
    # constant-false arms
    for fn_path, adt_path, variants in (
        ("<%s as %s>::is_constant" % (EXPR, APPLY), EXPR, ["EvalCompiler"]),
        ("<%s as %s>::is_constant" % (c06.PARAM, APPLY), c06.PARAM, ["ExpectValue", "ExpectInput", "ExpectFees"]),
    ):
        g = F.fn(fn_path)
        arms = e3.variant_arms(g)
        adt = F.adt(adt_path)
        discr = {v["name"]: v["discr"] for v in adt["variants"]}
        for v in variants:
            k2 = "%s|%s is never constant" % (fn_path, v)
            if not arms or arms[0] != adt_path:
                res.add([finding("S-REDUCE", k2, where(g), "no match on self in is_constant")])
                continue
            tb = arms[1].get(discr[v], arms[2])
            if e3.arm_returns_const(g, tb, 0):
                res.add([ok("S-REDUCE", k2, where(g), "arm returns constant false")])
            else:
                res.add([finding("S-REDUCE", k2, where(g), "`%s` can be reported constant: a node still waiting for its value could be folded" % v)])


def s_unwrap(F, res):
    f = F.fn("<%s as %s>::reduce" % (EXPR, APPLY))
    # helper functions the arms may have been split into (`reduce_built_in`, ..) are inlined
    f = mir.inline_calls(F, f, want=e3._helper_policy("tx3_tir"), depth=2)
    du = mir.DefUse(f)
    w = where(f)
    wants = [("tx3_tir::model::v1beta0::BuiltInOp", "NoOp"), ("tx3_tir::model::v1beta0::Coerce", "NoOp"), (c06.PARAM, "Set")]
    for adt, var in wants:
        key = "%s|unwrap %s::%s" % (f["path"], adt.split("::")[-1], var)
        found = False
        for bi, si, s in mir.stmts(f):
            rv = s["rv"]
            if rv["k"] != "use":
                continue
            pl = mir.op_place(rv["op"])
            if pl is None:
                continue
            fld = [p for p in pl["p"] if p[0] == "f"]
            if not fld or fld[0][2] != adt or fld[0][3] != var:
                continue
            # the matched value comes from a reduce() call
            orig = mir.provenance(f, du, {"l": pl["l"], "p": []})
            if not any(o.kind == "call" and o.term is not None and is_trait_call(o.term, APPLY, "reduce") for o in orig):
                continue
            # and the projected inner value reaches `_0 = Ok(..)`
            tgt = s["lhs"]["l"]
            # Ok(..) aggregates that reach the return place (directly, or as the return value of an inlined helper)
            ret_oks = [o.rv for o in mir.provenance(f, du, {"l": 0, "p": []}) if o.kind == "agg" and o.rv.get("variant") == "Ok"]
            for rv2 in ret_oks:
                o2 = mir.provenance(f, du, rv2["ops"][0])
                for o in o2:
                    if o.kind == "call" and o.term is not None and is_trait_call(o.term, APPLY, "reduce") and (" as %s" % var) in o.proj:
                        found = True
        if found:
            res.add([ok("S-UNWRAP", key, w, "reduce() result `%s(x)` is returned as `x`" % var)])
        else:
            res.add([finding("S-UNWRAP", key, w, "Expression::reduce no longer unwraps %s::%s: reduced wrappers accumulate and reduce is not idempotent" % (adt.split("::")[-1], var))])


def s_pure(F, res):
    cg = CallGraph(F)
    roots = [p for p, f in F.fns.items() if f.get("impl_trait") in (APPLY, NODE, COMPOSITE) and not is_derive(f)]
    roots += ["tx3_tir::reduce::apply_args", "tx3_tir::reduce::apply_inputs", "tx3_tir::reduce::apply_fees", "tx3_tir::reduce::reduce"]
    reach = cg.reachable([r for r in roots if r in F.fns])
    reach = {p for p in reach if p.startswith(("tx3_tir::", "<tx3_tir::", "<T as tx3_tir", "<std::")) and F.fns[p]["crate"] == "tx3_tir"}
    bad = []
    for p in sorted(reach):
        f = F.fns[p]
        for bi, t in mir.calls(f):
            n = t.get("callee") or ""
            if any(x in n for x in ("std::cell::", "std::sync::Mutex", "std::sync::RwLock", "std::sync::atomic", "std::thread::", "std::time::", "std::env::")):
                bad.append((p, n))
        for _, c in mir.fn_consts(f):
            if c.get("txt", "").startswith("&raw") or "static" in c.get("txt", ""):
                pass
    statics = [p for p, f in F.ctfe.items() if f["def_kind"].startswith("Static") and f["crate"] == "tx3_tir"]
    key = "tx3_tir reduce closure|no hidden state"
    res.count("functions in the apply/reduce closure", len(reach))
    res.floor("functions in the apply/reduce closure", len(reach), 150)
    if bad or statics:
        res.add([finding("S-PURE", key, "crates/tx3-tir/src/reduce/mod.rs", "stages touch shared state: %s %s" % (bad[:3], statics[:3]))])
    else:
        res.add([ok("S-PURE", key, "crates/tx3-tir/src/reduce/mod.rs", "no statics in tx3-tir; no Cell/Mutex/atomic/time/env/thread calls in %d functions" % len(reach))])


def shadow(F, res):
    """Rust resolves `x.m()` to an *inherent* method of x's type before any trait method.  If a type of the IR family gets an
    inherent method with the name of a traversal-trait method it implements (Apply / Composite / Node, also through the blanket
    `impl<T: Composite> Apply for T`), every `child.m()` in the traversal silently stops recursing through the trait and runs
    the inherent method instead.  Inside the stages' closure no call may resolve to such a shadowing method."""
    trait_methods = {}
    for i in F.impls:
        tr = i.get("trait")
        if tr in (APPLY, NODE, COMPOSITE) and i.get("crate") == "tx3_tir":
            trait_methods.setdefault(tr, set()).update(x["name"] for x in i["items"])
    for tr in (APPLY, COMPOSITE):
        if not trait_methods.get(tr):
            raise BrokenCheck("no impl of %s found" % tr)
    implements = {}
    for i in F.impls:
        tr = i.get("trait")
        if tr in (APPLY, NODE, COMPOSITE):
            implements.setdefault(i["self"], set()).add(tr)
            if tr == COMPOSITE:
                implements[i["self"]].add(APPLY)   # blanket impl<T: Composite> Apply for T
    shadows = {}
    for i in F.impls:
        if i.get("trait") or i["self"] not in implements:
            continue
        for it in i["items"]:
            for tr in implements[i["self"]]:
                if it["name"] in trait_methods.get(tr, ()):
                    shadows[it["path"]] = (i["self"], tr, it["name"])
    res.count("inherent methods shadowing a traversal-trait method", len(shadows))
    cg = CallGraph(F)
    roots = [p for p, f in F.fns.items() if f.get("impl_trait") in (APPLY, NODE, COMPOSITE) and not is_derive(f)]
    roots += ["tx3_tir::reduce::apply_args", "tx3_tir::reduce::apply_inputs", "tx3_tir::reduce::apply_fees", "tx3_tir::reduce::reduce"]
    reach = cg.reachable([r for r in roots if r in F.fns])
    hits = []
    for p in sorted(reach):
        f = F.fns.get(p)
        if f is None or f["crate"] != "tx3_tir" or p in shadows:
            continue
        for bi, t in mir.calls(f):
            r = t.get("resolved") or t.get("callee") or ""
            if r in shadows or (t.get("callee") or "") in shadows:
                hits.append((f, t["line"], shadows.get(r) or shadows[t["callee"]], r))
    key = "tx3_tir stages|no call resolves to an inherent method that shadows a traversal-trait method"
    if hits:
        f, line, (ty, tr, name), r = hits[0]
        res.add([finding("SHADOW", key + "|" + r, where(f, line), "`.%s()` on a %s in %s resolves to the inherent method %s, not to %s::%s: the traversal does not recurse into that node (e.g. an asset whose policy is still a parameter counts as constant and is folded)" % (
            name, ty.split("::")[-1], f["path"].split("::")[-1] if not f.get("owner") else f["owner"].split("::")[-1], r.split("::")[-2] + "::" + name, tr.split("::")[-1], name))])
    else:
        res.add([ok("SHADOW", key, "crates/tx3-tir/src/reduce/mod.rs", "%d shadowing inherent methods exist; none is called from the %d functions of the stages' closure" % (len(shadows), len(reach)))])


def s_nested(F, res):
    """`reduce_nested` is the structural half of reduction: it reduces the children and rebuilds the *same* node.  Everything
    that changes what a node means (folding, merging, unwrapping) belongs to `reduce_self`, which the blanket `reduce` only
    calls under the `is_constant()` gate (S-REDUCE).  So a reduce_nested impl may call no workspace function other than
    Apply::reduce / the Composite mappers on its children, and every node it builds under the arm of variant V is a V again."""
    n = 0
    for p in sorted(F.fns):
        f = F.fns[p]
        if not ((f.get("impl_trait") == COMPOSITE or p == COMPOSITE + "::reduce_nested") and f.get("name") == "reduce_nested") or f.get("owner"):
            continue
        n += 1
        key = "%s|only reduces its children and rebuilds the same node" % p
        bad = []
        for g in with_closures(F, f):
            for bi, t in mir.calls(g):
                c = t.get("callee") or ""
                r = t.get("resolved") or c
                ws = c.startswith(("tx3_", "<tx3_")) or r.startswith(("tx3_", "<tx3_", "<T as tx3_"))
                if not ws:
                    continue
                if t.get("trait") == APPLY and t.get("method") == "reduce":
                    continue
                if t.get("trait") == COMPOSITE and t.get("method") in ("try_map_components", "reduce_nested"):
                    continue
                if t.get("trait") in ("std::convert::From", "std::convert::Into", "std::clone::Clone", "std::ops::Try", "std::ops::FromResidual"):
                    continue
                bad.append((t["line"], "calls %s" % (r.split("::")[-1] if "::" in r else r)))
        st = f.get("impl_self")
        a = F.adts.get(st)
        if a is not None and a["is_enum"]:
            arms = e3.variant_arms(f)
            if arms and arms[0] == st:
                cfg = mir.CFG(f)
                dname = {v["discr"]: v["name"] for v in a["variants"]}
                for bi, si, s2 in mir.stmts(f):
                    rv = s2["rv"]
                    if rv["k"] == "agg" and rv.get("adt") == st:
                        doms = [dname.get(d) for d, tb in arms[1].items() if tb == bi or cfg.dominates(tb, bi)]
                        if doms and rv.get("variant") not in doms:
                            bad.append((s2["line"], "builds a %s::%s under the arm of %s" % (st.split("::")[-1], rv.get("variant"), "/".join(x for x in doms if x))))
        if bad:
            res.add([finding("S-NESTED", key, where(f, bad[0][0]), "reduce_nested %s: a reduction step outside reduce_self is not guarded by is_constant(), so it fires on nodes that still contain parameters and the result depends on whether a reduce ran before the arguments were applied" % "; ".join(sorted({b for _, b in bad})))])
        else:
            res.add([ok("S-NESTED", key, where(f), "children reduced with Apply::reduce, same variant rebuilt")])
    res.count("reduce_nested impls", n)
    res.floor("reduce_nested impls", n, 1)


def node_t1(F, res):
    fam = c06.tir_family(F)
    rows = c06.rows_for("tir")
    n = 0
    for f in F.fns.values():
        if f.get("impl_trait") == NODE and f.get("name") == "apply" and f["impl_self"] in F.adts:
            n += 1
            res.add(e3.check_impl_method(F, f, f["impl_self"], fam, "val", "T1", rows, family_traits=(APPLY, COMPOSITE, NODE)))
    res.floor("Node impl methods on ADTs", n, 18)


def s_stages(F, res):
    """S-STAGES: compiler-evaluated built-ins read the compiler's state (the body compiled in the previous round), so they are
    a stage of *every* round: in the resolver's pass function (found by role, helpers inlined) the application of the compiler
    as visitor (`Node::apply`) is present, comes after apply_fees and before the inputs are resolved and the template is
    compiled - and resolve_tx applies it nowhere outside the pass.  Hoisted in front of the loop the built-ins keep the values
    of round 0 while fees and inputs move on: the result is no longer the one the staged application defines."""
    from .. import e8_state
    g = e8_state.pass_body(F)
    cfg = mir.CFG(g)
    pfn = e8_state.resolver_roles(F)[1]

    def is_visit(t):
        return (t.get("trait") == "tx3_tir::Node" and t.get("method") == "apply") or (t.get("resolved") or "").endswith("as tx3_tir::Node>::apply")
    visits = [bi for bi, t in mir.calls(g) if is_visit(t)]
    comp = [bi for bi, t in mir.calls(g) if t.get("trait") == "tx3_tir::compile::Compiler" and t.get("method") == "compile"]
    fees = [bi for bi, t in mir.calls(g) if call_matches(t, "tx3_tir::reduce::apply_fees") or is_trait_call(t, c06.APPLY, "apply_fees")]
    key = "%s|compiler built-ins are evaluated in every round" % pfn
    w = where(F.body(pfn))
    if not comp:
        raise BrokenCheck("the pass function (helpers inlined) never calls Compiler::compile")
    if not visits:
        outer = e8_state.loop_body(F)
        hoisted = [t["line"] for bi, t in mir.calls(outer) if is_visit(t)]
        res.add([finding("S-STAGES", key, where(F.body(e8_state.resolver_roles(F)[0]), hoisted[0]) if hoisted else w,
                         "the pass function does not apply the compiler's built-ins%s: `min_utxo` and the other compiler-evaluated operations keep the value of an earlier state while fees and inputs change from round to round" % (
                             " (they are applied once, outside the loop)" if hoisted else ""))])
        return
    good = all(any(cfg.dominates(v, c) for v in visits) for c in comp) and (not fees or all(any(cfg.dominates(f_, v) for f_ in fees) for v in visits))
    if good:
        res.add([ok("S-STAGES", key, w, "apply_fees, then Node::apply(compiler), then inputs and compile - inside the pass")])
    else:
        res.add([finding("S-STAGES", key, w, "in the pass function the compiler's built-ins are not applied between apply_fees and compile on every path")])


def s_allconst(F, res):
    """S-ALLCONST: "fold only when *all* components are constant" - an `Apply::is_constant` impl that combines its children with
    `Iterator::any` (not negated) calls a node constant as soon as one child is: the node is folded while another operand is
    still pending, in one schedule and not in another."""
    n = 0
    for f in sorted(F.fns.values(), key=lambda g: g["path"]):
        if f.get("impl_trait") != APPLY or f.get("name") != "is_constant" or f["crate"] != "tx3_tir":
            continue
        n += 1
        bad = None
        for g in with_closures(F, f):
            du = mir.DefUse(g)
            for bi, t in mir.calls(g):
                if (t.get("callee") or "") != "std::iter::Iterator::any":
                    continue
                # the predicate hands on a child's is_constant() as it is
                pred_is_const = False
                for fr in t.get("fnrefs") or ():
                    h = F.fns.get(fr)
                    if h is None:
                        continue
                    dh = mir.DefUse(h)
                    o = mir.provenance(h, dh, {"l": 0, "p": []})
                    if any(x.kind == "call" and (x.callee.endswith("::is_constant") or (x.term.get("method") == "is_constant")) for x in o):
                        pred_is_const = True
                dl = t["dest"]["l"]
                negated = any(st["rv"]["k"] == "unop" and st["rv"]["op"] == "Not" and (mir.op_place(st["rv"]["a"]) or {}).get("l") == dl
                              for _b, _i, st in mir.stmts(g))
                if pred_is_const and not negated:
                    bad = (g, t)
        key = "%s|children combined by conjunction" % f["path"]
        if bad:
            res.add([finding("S-ALLCONST", key, where(bad[0], bad[1]["line"]),
                             "is_constant is `any` over the children's is_constant(): a node with one constant and one pending child is reduced before its other operand arrives")])
        else:
            res.add([ok("S-ALLCONST", key, where(f), "no `any` over the children's is_constant()")])
    res.count("is_constant impls", n)
    res.floor("is_constant impls", n, 3)


def run(ctx):
    F = ctx.F
    res = Result("C07")
    res.rule("S-ALLCONST", "no is_constant impl is a disjunction (`any`) over its children's is_constant()")
    s_allconst(F, res)
    res.rule("S-REDUCE", "reduce_self only under is_constant(); compiler ops and unset params are never constant")
    res.rule("S-UNWRAP", "Expression::reduce unwraps the NoOp/Set wrappers that reduction produces")
    res.rule("S-KIND", "Param::apply_X builds Param::Set only under the arm of the kind it substitutes")
    res.rule("S-SETCONST", "every Param::Set wraps a constant constructor")
    res.rule("T2", "Node impls recurse with Node::apply; only Expression's hands the rebuilt node to the visitor")
    res.rule("T1", "Node::apply visits every Expression-bearing field")
    res.rule("S-PURE", "no hidden state in the stages")
    res.rule("S-NESTED", "reduce_nested only reduces children and rebuilds the same node")
    res.rule("SHADOW", "no traversal call resolves to an inherent method shadowing the trait method")
    s_reduce(F, res)
    s_unwrap(F, res)
    c06.s_kind(F, res)
    c06.t2(F, res)
    node_t1(F, res)
    s_pure(F, res)
    shadow(F, res)
    s_nested(F, res)
    res.rule("S-STAGES", "compiler-evaluated built-ins are a stage of every round of the resolver (after apply_fees, before compile)")
    s_stages(F, res)
    # "fold only when all components are constant": the gate (`is_constant` over Composite::components) is only as good as the
    # component lists - a component left out of `components()` (the index of a Property) lets a node fold while that operand is
    # still pending, in one order of application and not in another (rule T1 of C06, restricted to the component lists)
    c06.t1(F, res, only={"components", "try_map_components"}, rule="T1")
    # every value-rebuilding traversal method (apply_* / reduce) feeds field f of the rebuilt node from self.f: a swap of two
    # same-typed sections (`mints: self.burns.reduce()?`) survives type checking, breaks idempotence (reduce twice = swap back)
    # and makes the result depend on how many reductions a schedule interleaves (rule shared with C01)
    from . import c01
    res.rule("ATTRIB", "a rebuilt IR node takes each field from the same field of self (no swapped / merged sections)")
    c01.self_rebuilds(F, res)
    return res
