"""C01 -- the compiled transaction is exactly what the template denotes (the *plumbing*, not the values).

Static clauses (each a necessary condition of "nothing added, dropped, re-associated or attributed to another field"):
  ASSOC     every infix operator registered in the Pratt parser is left-associative; the registered prefix / postfix / infix
            operator sets equal the grammar's data_prefix / data_postfix / data_infix alternatives; infix binds loosest,
            postfix tightest
  BLOCKS    for every block-field enum: grammar keyword = key() string of the variant the parser builds for that rule; every
            constant passed to find(..) is a key of the enum; every key is looked up by the block's lowering (else the field is
            parsed and silently dropped) unless tabled
  T1        every expression-bearing AST field is lowered by its IntoLower impl (E3; exceptions tabled)
  ROOT      lowering TxDef: each field of ir::Tx is fed from the same-named AST field
  ATTRIB    rebuilt values take field f from source field f: block lookups land in the IR field they denote (to -> address,
            since_slot -> since, ...), binary operators keep (lhs, rhs) order, AnyAsset / metadata keep their field order,
            validity keeps (since -> validity_interval_start, until -> ttl), and every Self-rebuilding traversal of the IR
            (apply_*, try_map_components, Node::apply, reduce) feeds field f from self.f
  CTX       same-named block fields are lowered in the same context (address / asset / datum) in every block kind
            ... and no block's own lowering switches context before lowering its fields (context switches belong to the
            field arms)
  FIELDUSE  every field of ir::Tx and of the IR block structs is consulted by the Cardano compiler's closure
  NOFILTER  no filtering adaptor drops items of the input / output / reference / collateral / signer / metadata lists on their
            way into the body, other than the tabled ones; a Result used as an iterator (flat_map over a fallible coercion)
            counts as a filter: it drops the item instead of failing
  ORDER     outputs are compiled in source order (no reordering adaptor)
  OPTIONAL  only optional outputs that carry nothing are left out: truth table (E17) of the outputs' filter predicate
  KIND      number / asset arithmetic keeps its kind: add / neg of the Arithmetic impls for i128 and for asset bags build only
            Expression::Number resp. Expression::Assets, never the absent operand `None`
  MERGE / FORMULA  see C02 (quantity maps are merged by aggregation) and E15 (slot <-> time are the affine maps)
  G-SKIP    the grammar's implicit WHITESPACE / COMMENT skipping is never followed by something that can begin with a blank (the
            body of a string literal): what a literal contains is what the author wrote (grammar AST: atomicity, first characters)
Not decided: the semantic equality itself - arithmetic results, coercions, address construction, CBOR content.
"""
import re

from .. import mir, roles, e2_grammar as e2, e3_trav as e3, e9_attrib as e9
from ..common import CallGraph, table, call_matches, is_derive, site_in_derive, with_closures, is_trait_call
from ..engine import Result, ok, finding, assumption, where
from ..facts import BrokenCheck
from . import c06, c13

META = {
    "level": "other",
    "explanation": (
        "A battery of table-equality, traversal-completeness and field-attribution rules over the grammar file and the MIR of "
        "the parser, lowering, reducer and Cardano compiler: operator tables vs grammar alternatives and associativity; grammar "
        "keyword = key() = parser arm for every block field; every key looked up; every AST field lowered; every IR field fed "
        "from the same-named source field through every rebuild; same context for same-named fields; every IR field consulted "
        "by the compiler; no dropping adaptors; source order kept. Each rule is a necessary condition of 'nothing added, "
        "dropped, re-associated or attributed to another field' for every template; the values themselves are not decided."),
    "trusted_base": ["rustc MIR, driver", "pest_meta grammar AST", "pest PrattParser semantics (op() order = precedence, lowest first)",
                     "tables/c01_rows.json, tables/e3_rows.json"],
    "not_decided": ["equality of the emitted values with an independent big-step semantics (arithmetic, coercions, address construction, CBOR content)",
                    "whitespace/comment insensitivity beyond WHITESPACE/COMMENT being silent rules"],
}

LOW = "tx3_lang::lowering::IntoLower"
IR = "tx3_tir::model::v1beta0::"


def rows(name):
    return table("c01_rows").get(name, [])


# ------------------------------------------------------------------------------------------------
def assoc(F, res):
    G, it = e2.analyse(F)
    ops = it.pratt_ops
    w = "crates/tx3-lang/src/parsing.rs"
    for r in sorted(ops["infix"]):
        key = "Pratt operator table|infix %s" % r
        a = ops["assoc"].get(r)
        if a == "Left":
            res.add([ok("ASSOC", key, w, "Assoc::Left")])
        else:
            res.add([finding("ASSOC", key, w, "`%s` is registered as %s-associative: a - b - c would parse as a - (b - c)" % (r, a))])
    for kind, rule in (("prefix", "data_prefix"), ("postfix", "data_postfix"), ("infix", "data_infix")):
        want = set(G.alts(rule))
        have = set(ops[kind])
        key = "Pratt operator table|%s operators = grammar %s" % (kind, rule)
        if want == have:
            res.add([ok("ASSOC", key, w, "{%s}" % ",".join(sorted(have)))])
        else:
            res.add([finding("ASSOC", key, w, "the grammar's %s alternatives %s differ from the registered %s operators %s" % (rule, sorted(want), kind, sorted(have)))])
    # precedence: order of the .op() registrations (lowest first): infix, prefix, postfix
    order = []
    for f in it.pratt_bodies:
        for bi, t in mir.calls(f):
            m = re.match(r"pest::pratt_parser::Op::<R>::(infix|prefix|postfix)$", t.get("callee") or "")
            if m:
                order.append((bi, m.group(1)))
    seq = []
    for _, k in sorted(order):
        if not seq or seq[-1] != k:
            seq.append(k)
    key = "Pratt operator table|precedence order"
    if seq == ["infix", "prefix", "postfix"]:
        res.add([ok("ASSOC", key, w, "infix (loosest) < prefix < postfix (tightest)")])
    else:
        res.add([finding("ASSOC", key, w, "operator precedence order is %s, expected infix < prefix < postfix" % seq)])
    # silent trivia
    for r in ("WHITESPACE", "COMMENT"):
        key = "tx3.pest|%s is silent" % r
        if G.rules.get(r, {}).get("ty") == "silent":
            res.add([ok("ASSOC", key, "crates/tx3-lang/src/tx3.pest", "silent rule: produces no tokens")])
        else:
            res.add([finding("ASSOC", key, "crates/tx3-lang/src/tx3.pest", "%s is not a silent rule: layout would change the token stream" % r)])
    return G, it


# ------------------------------------------------------------------------------------------------
def _key_fns(F, enum_path):
    """functions that map a value of the field enum to its keyword: one parameter `&Enum`, result `&str` (an inherent
    `key()`, or the method of a private trait implemented for the enum) - found by signature, not by name"""
    out = []
    for f in F.fns.values():
        if f["crate"] != "tx3_lang" or is_derive(f) or f.get("argc") != 1 or not f["locals"]:
            continue
        if f["locals"][0] not in ("&str", "&'static str") or f["locals"][1] != "&" + enum_path:
            continue
        if f.get("impl_trait") in ("std::fmt::Display", "std::convert::AsRef"):
            continue
        out.append(f)
    return out


def key_table(F, enum_path):
    """variant -> key string, from the enum's keyword function - or, when the keyword function was inlined into the lookup
    (`fields.iter().find(|f| match f { Enum::From(_) => key == "from", .. })`), from the per-variant comparisons there"""
    best = None
    for f in _key_fns(F, enum_path):
        t = _key_table_of(F, f, enum_path)
        if t and (best is None or sum(v is not None for v in t.values()) > sum(v is not None for v in best.values())):
            best = t
    if best is None:
        best = _key_table_by_compare(F, enum_path)
    return best


def _key_table_by_compare(F, enum_path):
    adt = F.adt(enum_path)
    best = None
    for f in F.fns.values():
        if f["crate"] != "tx3_lang" or is_derive(f) or not f["locals"]:
            continue
        for k in range(1, f.get("argc", 0) + 1):
            if enum_path not in f["locals"][k]:
                continue
            arms = e3.variant_arms(f, k)
            if not arms:
                # `match field` on a `&&Enum` closure parameter goes through a copy of the reference: any switch on a
                # discriminant of this enum in the body
                for b_ in f["blocks"]:
                    dl = None
                    for st_ in b_["s"]:
                        if st_["rv"]["k"] == "discr" and st_["rv"].get("adt") == enum_path:
                            dl = st_["lhs"]["l"]
                    t_ = b_["t"]
                    if dl is not None and t_["k"] == "switch" and mir.op_place(t_["discr"]) is not None and mir.op_place(t_["discr"])["l"] == dl:
                        arms = (enum_path, dict((v_, tb_) for v_, tb_ in t_["targets"]), t_["otherwise"])
                        break
            if not arms or arms[0] != enum_path:
                continue
            out = {}
            for v in adt["variants"]:
                cur = arms[1].get(v["discr"], arms[2])
                seen, val = set(), None
                while cur is not None and cur not in seen and val is None:
                    seen.add(cur)
                    b = f["blocks"][cur]
                    t = b["t"]
                    if t["k"] == "call" and (t.get("callee") or "").endswith("::eq") and "PartialEq" in (t.get("callee") or "") + (t.get("trait") or ""):
                        du = mir.DefUse(f)
                        for a in t["args"]:
                            for o in mir.provenance(f, du, a):
                                sv = mir.promoted_str(F, o.const) if o.kind == "const" else None
                                if sv is not None:
                                    val = sv
                    cur = t.get("t") if t["k"] in ("goto", "call") and val is None else None
                out[v["name"]] = val
            if any(x is not None for x in out.values()) and (best is None or sum(x is not None for x in out.values()) > sum(x is not None for x in best.values())):
                best = out
    return best


def _key_table_of(F, f, enum_path):
    arms = e3.variant_arms(f)
    if not arms:
        return None
    adt = F.adt(enum_path)
    out = {}
    for v in adt["variants"]:
        tb = arms[1].get(v["discr"], arms[2])
        cur = tb
        seen = set()
        val = None
        while cur is not None and cur not in seen and val is None:
            seen.add(cur)
            b = f["blocks"][cur]
            consts = {}
            for s in b["s"]:
                if s["rv"]["k"] == "use":
                    sv = mir.promoted_str(F, mir.op_const(s["rv"]["op"]))
                    if sv is not None:
                        consts[s["lhs"]["l"]] = sv
                        if s["lhs"]["l"] == 0 and not s["lhs"]["p"]:
                            val = sv
                if s["lhs"]["l"] == 0 and not s["lhs"]["p"] and s["rv"]["k"] == "ref" and s["rv"]["pl"]["l"] in consts:
                    val = consts[s["rv"]["pl"]["l"]]
            t = b["t"]
            cur = t["t"] if t["k"] == "goto" else None
        out[v["name"]] = val
    return out


def grammar_keyword(G, rule):
    e = G.rules[rule]["expr"]
    while e["k"] == "seq":
        e = e["a"]
    return e["v"] if e["k"] == "str" else None


def parser_arms(F, it, enum_path):
    """rule -> variant built, from `<Enum as AstNode>::parse` (aggregates dominated by the arm of that rule)"""
    f = F.fns.get("<%s as tx3_lang::parsing::AstNode>::parse" % enum_path)
    if f is None:
        return None
    cfg = mir.CFG(f)
    out = {}
    # the switch on the rule
    for (path, bb), info in it.switches.items():
        if path != f["path"]:
            continue
        t = f["blocks"][bb]["t"]
        for dv, tb in t["targets"]:
            rule = it.rule_by_discr.get(dv)
            for bi, si, s in mir.stmts(f):
                rv = s["rv"]
                if rv["k"] == "agg" and rv.get("adt") == enum_path and cfg.dominates(tb, bi):
                    out[rule] = rv["variant"]
            # ... or chosen in the arm as a function pointer: `let build: fn(_) -> Self = match rule { R => Self::From, .. }`
            for bi, si, s in mir.stmts(f):
                rv = s["rv"]
                if rv["k"] in ("use", "cast") and cfg.dominates(tb, bi):
                    c_ = mir.op_const(rv["op"])
                    if c_ and "fn" in c_ and (c_.get("fn_resolved") or c_["fn"]).startswith(enum_path + "::"):
                        v = (c_.get("fn_resolved") or c_["fn"])[len(enum_path) + 2:]
                        if "::" not in v:
                            out[rule] = v
            # the variant's constructor handed over as a function value: `helper(pair).map(Self::From)`
            for bi, t2 in mir.calls(f):
                if not cfg.dominates(tb, bi):
                    continue
                for a in t2["args"]:
                    c_ = mir.op_const(a)
                    if c_ and "fn" in c_ and (c_.get("fn_resolved") or c_["fn"]).startswith(enum_path + "::"):
                        v = (c_.get("fn_resolved") or c_["fn"])[len(enum_path) + 2:]
                        if "::" not in v:
                            out[rule] = v
    return out


BLOCKS_SPEC = [
    # (field enum, block type, lowering fn of the block)
    ("tx3_lang::ast::InputBlockField", "tx3_lang::ast::InputBlock"),
    ("tx3_lang::ast::OutputBlockField", "tx3_lang::ast::OutputBlock"),
    ("tx3_lang::ast::CollateralBlockField", "tx3_lang::ast::CollateralBlock"),
    ("tx3_lang::ast::ValidityBlockField", "tx3_lang::ast::ValidityBlock"),
    ("tx3_lang::ast::MintBlockField", "tx3_lang::ast::MintBlock"),
    ("tx3_lang::cardano::WithdrawalField", "tx3_lang::cardano::WithdrawalBlock"),
]


_CG = {}


def _find_fns(F, enum_path):
    """functions that look a field up by keyword: a `&str` parameter and a result that hands out a `&Enum` (Option / Result
    of it) - `Block::find`, `Block::require`, a renamed or generic variant of them"""
    out = set()
    for f in F.fns.values():
        if f["crate"] != "tx3_lang" or is_derive(f) or f.get("def_kind") == "Closure" or not f["locals"]:
            continue
        params = f["locals"][1:1 + f.get("argc", 0)]
        if not any(p in ("&str", "&'static str") for p in params):
            continue
        if ("&" + enum_path) in f["locals"][0] or ("&'a " + enum_path) in f["locals"][0]:
            out.add(f["path"])
    return out


def find_consts(F, fn, block_type, enum_path=None):
    """constants that reach the keyword argument of a field lookup of this block's field enum in the block's lowering: in the
    lowering function, its closures and the tx3-lang functions it calls; a keyword that is itself a parameter of a helper is
    resolved to the constants its callers pass"""
    from ..common import outer_origins
    out = set()
    if id(F) not in _CG:
        _CG[id(F)] = CallGraph(F, callbacks=False)
    finders = _find_fns(F, enum_path) if enum_path else set()
    finders.add(block_type + "::find")
    reach = _CG[id(F)].reachable([fn["path"]] + [c["path"] for c in with_closures(F, fn)[1:]])
    for p in reach:
        b = F.fns[p]
        if b["crate"] != "tx3_lang":
            continue
        for bi, t in mir.calls(b):
            tgt = t.get("resolved") or t.get("callee") or ""
            if tgt in finders and len(t["args"]) > 1:
                callee = F.fns.get(tgt)
                for i, a in enumerate(t["args"]):
                    if callee is not None and callee["locals"][1 + i] not in ("&str", "&'static str"):
                        continue
                    for fn2, o in outer_origins(F, b, a, depth=2):
                        sv = mir.promoted_str(F, o.const) if o.kind == "const" else None
                        if sv is not None:
                            out.add(sv)
    return out


def blocks(F, res, G, it):
    n = 0
    exc = {(r["enum"], r["key"]): r["reason"] for r in rows("unlowered_keys")}
    for enum, block in BLOCKS_SPEC:
        kt = key_table(F, enum)
        if kt is None:
            raise BrokenCheck("key() of %s not found" % enum)
        pa = parser_arms(F, it, enum) or {}
        short = enum.split("::")[-1]
        a = F.adt(enum)
        w = "%s:%s" % (a["file"].replace("/repo/", ""), a["line"])
        inv = {v: r for r, v in pa.items()}
        for var, k in sorted(kt.items()):
            n += 1
            key = "%s::%s|keyword = key() = parser arm" % (short, var)
            rule = inv.get(var)
            if k is None:
                res.add([finding("BLOCKS", key, w, "key() of %s::%s is not a constant string" % (short, var))])
                continue
            if rule is None:
                res.add([finding("BLOCKS", key, w, "no parser arm builds %s::%s: the field can never appear" % (short, var))])
                continue
            kw = grammar_keyword(G, rule)
            if kw == k:
                res.add([ok("BLOCKS", key, w, "grammar `%s` -> Rule::%s -> %s::%s -> key \"%s\"" % (kw, rule, short, var, k))])
            else:
                res.add([finding("BLOCKS", key, w, "the grammar writes this field `%s` but key() calls it \"%s\": find(\"%s\") looks for the wrong field" % (kw, k, kw))])
        # find() constants
        lf = F.fns.get("<%s as %s>::into_lower" % (block, LOW))
        if lf is None:
            raise BrokenCheck("lowering of %s not found" % block)
        looked = find_consts(F, lf, block, enum)
        keys = set(v for v in kt.values() if v)
        for c in sorted(looked):
            key = "%s|find(\"%s\")" % (block.split("::")[-1], c)
            if c in keys:
                res.add([ok("BLOCKS", key, where(lf), "a key of %s" % short)])
            else:
                res.add([finding("BLOCKS", key, where(lf), "find(\"%s\") can never match: %s has keys %s" % (c, short, sorted(keys)))])
        for k in sorted(keys):
            key = "%s|key \"%s\" is lowered" % (block.split("::")[-1], k)
            if k in looked:
                res.add([ok("BLOCKS", key, where(lf), "looked up by the block's lowering")])
            elif (short, k) in exc:
                res.add([ok("BLOCKS", key, where(lf), "tabled: " + exc[(short, k)])])
            else:
                res.add([finding("BLOCKS", key, where(lf), "the `%s` field of a %s is parsed but its lowering never looks it up: the field is silently dropped" % (k, block.split("::")[-1]))])
    res.count("block field variants", n)
    res.floor("block field variants", n, 18)


# ------------------------------------------------------------------------------------------------
def t1_lower(F, res):
    fam = c13.ast_family(F)
    grow = {}
    for r in table("e3_rows")["ast-lower"]:
        grow[(r["adt"], r["field"])] = r["reason"]
    n = 0
    for f in F.fns.values():
        if f.get("impl_trait") != LOW or f.get("name") != "into_lower":
            continue
        st = f["impl_self"]
        if st not in F.adts:
            continue
        n += 1
        r = {}
        short = st.split("::")[-1]
        for v in F.adt(st)["variants"]:
            for fd in v["fields"]:
                for kk in ((short, fd["name"]), (short + "::" + v["name"], fd["name"])):
                    if kk in grow:
                        r[(f["path"], v["name"], fd["name"])] = grow[kk]
        res.add(e3.check_impl_method(F, f, st, fam, "ref", "T1", r))
    res.count("IntoLower impls on AST types", n)
    res.floor("IntoLower impls on AST types", n, 40)


def root(F, res):
    f = F.fn("<tx3_lang::ast::TxDef as %s>::into_lower" % LOW)
    du = mir.DefUse(f)
    aggs = [(bi, s) for bi, si, s in mir.stmts(f) if s["rv"]["k"] == "agg" and s["rv"].get("adt") == IR + "Tx"]
    if not aggs:
        raise BrokenCheck("TxDef::into_lower no longer builds an ir::Tx")
    rv = aggs[0][1]["rv"]
    exc = {r["field"]: r["reason"] for r in rows("root")}
    for i, fld in enumerate(rv["fields"]):
        srcs, _, _ = e9.deep_sources(F, f, du, rv["ops"][i])
        srcs.discard("<self>")
        key = "TxDef -> ir::Tx.%s" % fld
        w = where(f, aggs[0][1]["line"])
        if srcs == {fld}:
            res.add([ok("ROOT", key, w, "fed from self.%s" % fld)])
        elif fld in exc and not srcs:
            res.add([ok("ROOT", key, w, "tabled: " + exc[fld])])
        else:
            res.add([finding("ROOT", key, w, "ir::Tx.%s is fed from AST field(s) %s" % (fld, sorted(srcs) or "none"))])
    res.floor("ir::Tx fields", len(rv["fields"]), 11)


# ------------------------------------------------------------------------------------------------
ATTRIB_FIND = [
    # (lowering fn self type, IR adt, {ir field: find key})
    ("tx3_lang::ast::OutputBlock", IR + "Output", {"address": "to", "amount": "amount", "datum": "datum"}),
    ("tx3_lang::ast::ValidityBlock", IR + "Validity", {"since": "since_slot", "until": "until_slot"}),
    ("tx3_lang::ast::MintBlock", IR + "Mint", {"amount": "amount", "redeemer": "redeemer"}),
    ("tx3_lang::ast::InputBlock", IR + "InputQuery", {"address": "from", "min_amount": "min_amount", "ref": "ref"}),
    ("tx3_lang::ast::InputBlock", IR + "Input", {"redeemer": "redeemer"}),
    ("tx3_lang::ast::CollateralBlock", IR + "InputQuery", {"address": "from", "min_amount": "min_amount", "ref": "ref"}),
]
ATTRIB_FIELDS = [
    # (fn, target adt or tuple-variant, {target field or operand index: source field})
    ("<tx3_lang::ast::AnyAssetConstructor as %s>::into_lower" % LOW, IR + "AssetExpr", None, {"policy": "policy", "asset_name": "asset_name", "amount": "amount"}),
    ("<tx3_lang::ast::MetadataBlockField as %s>::into_lower" % LOW, IR + "Metadata", None, {"key": "key", "value": "value"}),
    ("<tx3_lang::ast::AddOp as %s>::into_lower" % LOW, IR + "BuiltInOp", "Add", {"0": "lhs", "1": "rhs"}),
    ("<tx3_lang::ast::SubOp as %s>::into_lower" % LOW, IR + "BuiltInOp", "Sub", {"0": "lhs", "1": "rhs"}),
    ("<tx3_lang::ast::ConcatOp as %s>::into_lower" % LOW, IR + "BuiltInOp", "Concat", {"0": "lhs", "1": "rhs"}),
    ("<tx3_lang::ast::PropertyOp as %s>::into_lower" % LOW, IR + "BuiltInOp", "Property", {"0": "operand", "1": "property"}),
]


def _attrib_policy():
    """helpers are inlined, the field lookups themselves (`find`) are what the rule reads"""
    base = e3._helper_policy("tx3_lang")

    def want(t, callee):
        return callee["path"].rsplit("::", 1)[-1] != "find" and base(t, callee)
    return want


def attrib(F, res):
    n = 0
    for st, adt, mp in ATTRIB_FIND:
        # the block's lowering with the crate's helper functions inlined (the query may be built in `lower_input_query(..)`)
        f = mir.inline_calls(F, F.fn("<%s as %s>::into_lower" % (st, LOW)), want=_attrib_policy(), depth=2)
        du = mir.DefUse(f)
        aggs = [(bi, s) for bi, si, s in mir.stmts(f) if s["rv"]["k"] == "agg" and s["rv"].get("adt") == adt]
        if not aggs:
            raise BrokenCheck("%s::into_lower no longer builds %s" % (st, adt))
        for bi, s in aggs:
            rv = s["rv"]
            for tf, want in mp.items():
                n += 1
                op = rv["ops"][rv["fields"].index(tf)]
                _, finds, _ = e9.deep_sources(F, f, du, op)
                got = {c for (callee, c) in finds if callee == "find"}
                key = "%s -> %s.%s" % (st.split("::")[-1], adt.split("::")[-1], tf)
                w = where(f, s["line"])
                if got == {want}:
                    res.add([ok("ATTRIB", key, w, "from find(\"%s\")" % want)])
                else:
                    res.add([finding("ATTRIB", key, w, "%s.%s is fed from find(%s) instead of find(\"%s\"): the template's `%s` is attributed to another field" % (
                        adt.split("::")[-1], tf, sorted(got), want, want))])
    for fn_path, adt, variant, mp in ATTRIB_FIELDS:
        f = mir.inline_calls(F, F.fn(fn_path), want=_attrib_policy(), depth=2)
        du = mir.DefUse(f)
        aggs = [(bi, s) for bi, si, s in mir.stmts(f) if s["rv"]["k"] == "agg" and s["rv"].get("adt") == adt and (variant is None or s["rv"]["variant"] == variant)]
        if not aggs:
            raise BrokenCheck("%s no longer builds %s" % (fn_path, adt))
        for bi, s in aggs:
            rv = s["rv"]
            for tf, want in mp.items():
                n += 1
                idx = rv["fields"].index(tf)
                srcs, _, _ = e9.deep_sources(F, f, du, rv["ops"][idx])
                srcs.discard("<self>")
                key = "%s -> %s%s.%s" % (fn_path.split(" as ")[0].split("::")[-1], adt.split("::")[-1], "::" + variant if variant else "", tf)
                w = where(f, s["line"])
                # the property index may also consult the operand's type: allow `operand` as an extra source there
                allowed = {want} | ({"operand"} if (variant == "Property" and tf == "1") else set())
                if want in srcs and srcs <= allowed:
                    res.add([ok("ATTRIB", key, w, "from self.%s" % want)])
                else:
                    res.add([finding("ATTRIB", key, w, "operand %s is fed from self.%s instead of self.%s: operands are swapped or mixed" % (tf, sorted(srcs), want))])
    # compile_validity -> ttl / validity_interval_start
    tbp = roles.builder_of(F, "tx3_cardano", "::TransactionBody")
    cvp = roles.feeder_of(F, tbp, "::TransactionBody", "ttl")
    # (the validity feeder with the compiler crate's helpers inlined: each bound may be computed by a `slot_bound(..)` helper)
    def _cvh(t, callee):
        return callee["crate"] == "tx3_cardano" and not callee.get("impl_trait") and callee["path"].rsplit("::", 1)[0] != "tx3_cardano::coercion" and len(callee["blocks"]) <= 80
    cv = mir.inline_calls(F, F.fns[cvp], want=_cvh, depth=2)
    duv = mir.DefUse(cv)
    tup = [(bi, s) for bi, si, s in mir.stmts(cv) if s["rv"]["k"] == "agg" and "tuple" in s["rv"] and len(s["rv"]["ops"]) == 2 and bi in mir.live_blocks(cv)]
    good = False
    for bi, s in tup:
        def fieldset(op):
            out = set()
            # closures `|v| v.since.as_option()` read the field: look inside the closures handed to and_then
            srcs, _, crossed = e9.deep_sources(F, cv, duv, op, self_local=1)
            return srcs, crossed
        a_src = _validity_field(F, cv, duv, s["rv"]["ops"][0])
        b_src = _validity_field(F, cv, duv, s["rv"]["ops"][1])
        if a_src == {"since"} and b_src == {"until"}:
            good = True
    # ... or as a struct of the compiler crate with one field per bound (`ValidityWindow { validity_interval_start, ttl }`): the
    # field that carries `since` / `until` is then whatever the body reads (checked below by field name)
    comp = {}
    if not tup:
        for bi, si, s in mir.stmts(cv):
            rv_ = s["rv"]
            if rv_["k"] == "agg" and (rv_.get("adt") or "").startswith("tx3_cardano::") and len(rv_.get("fields") or ()) == 2 and bi in mir.live_blocks(cv):
                for fld, op_ in zip(rv_["fields"], rv_["ops"]):
                    comp.setdefault("." + fld, set()).update(_validity_field(F, cv, duv, op_) | e9.slice_adt_fields(F, cv, op_, "::Validity"))
        if sorted(map(sorted, comp.values())) == [["since"], ["until"]]:
            good = True
    key = "compile_validity -> (since, until)"
    n += 1
    if good:
        res.add([ok("ATTRIB", key, where(cv), "(validity.since, validity.until)")])
    else:
        res.add([finding("ATTRIB", key, where(cv), "compile_validity does not return (since, until) in that order")])
    tb = F.fns[tbp]
    dub = mir.DefUse(tb)
    agg = [(bi, s) for bi, si, s in mir.stmts(tb) if s["rv"]["k"] == "agg" and s["rv"].get("adt", "").endswith("TransactionBody")]
    rv = agg[0][1]["rv"]
    for tf, idx in (("validity_interval_start", ".0"), ("ttl", ".1")):
        n += 1
        o = mir.provenance(tb, dub, rv["ops"][rv["fields"].index(tf)])
        key = "compile_tx_body -> TransactionBody.%s" % tf
        okk = any(x.kind == "call" and x.callee == cvp and idx in x.proj for x in o)
        if comp:
            want_v = "since" if idx == ".0" else "until"
            okk = any(x.kind == "call" and x.callee == cvp and x.proj and comp.get(x.proj[-1]) == {want_v} for x in o)
        if okk:
            res.add([ok("ATTRIB", key, where(tb), "component %s of compile_validity's result" % idx)])
        else:
            res.add([finding("ATTRIB", key, where(tb), "%s does not take the %s bound of the validity block" % (tf, "lower" if idx == ".0" else "upper"))])
    res.count("attribution obligations", n)
    res.floor("attribution obligations", n, 30)


def _validity_field(F, f, du, op):
    """which field of ir::Validity a component of compile_validity's result reads (through its and_then closure)"""
    out = set()
    seen = set()
    st = [op]
    hops = 0
    while st and hops < 40:
        hops += 1
        o = st.pop()
        for x in mir.provenance(f, du, o, transparent_extra=("std::option::Option::<T>::map", "std::option::Option::<std::result::Result<T, E>>::transpose")):
            if x.kind == "call" and (x.bb, x.callee) not in seen:
                seen.add((x.bb, x.callee))
                for fr in x.term.get("fnrefs", ()):
                    g = F.fns.get(fr)
                    if g is None:
                        continue
                    for bi, si, s in mir.stmts(g):
                        rv = s["rv"]
                        pl = rv.get("pl") if rv["k"] == "ref" else mir.op_place(rv.get("op")) if rv["k"] in ("use", "cast") else None
                        if pl is not None:
                            for p in pl["p"]:
                                if p[0] == "f" and p[2] == IR + "Validity":
                                    out.add(p[1])
                for a in x.term["args"][:1]:
                    st.append(a)
    return out


def self_rebuilds(F, res):
    """every aggregate of Self in an IR traversal impl feeds field f from self.f"""
    fam = c06.tir_family(F)
    n = 0
    for tr, ms in c06.SPECS:
        for f in F.fns.values():
            if f.get("impl_trait") != tr or f.get("name") not in ms or ms[f["name"]] != "val":
                continue
            st = f["impl_self"]
            if st not in F.adts:
                continue
            du = mir.DefUse(f)
            for bi, si, s in mir.stmts(f):
                rv = s["rv"]
                if rv["k"] != "agg" or rv.get("adt") != st:
                    continue
                adt = F.adt(st)
                var = rv["variant"]
                for i, fld in enumerate(rv["fields"]):
                    srcs, _, _ = e9.deep_sources(F, f, du, rv["ops"][i])
                    srcs.discard("<self>")
                    if not srcs:
                        continue
                    n += 1
                    key = "%s|%s::%s.%s" % (f["path"], st.split("::")[-1], var, fld)
                    if srcs != {fld} and fld in srcs:
                        # several fields went through one helper that hands them back as a tuple (`map_pair(&self.a, &self.b,
                        # f)?`): followed again with the helper inlined and the tuple's components kept apart
                        from ..common import with_helpers
                        try:
                            fi = with_helpers(F, f["path"])
                        except Exception:
                            fi = None
                        if fi is not None and fi.get("inlined"):
                            dfi = mir.DefUse(fi)
                            for _b, _i, s2 in mir.stmts(fi):
                                r2 = s2["rv"]
                                if r2["k"] == "agg" and r2.get("adt") == st and r2.get("variant") == var and not fi["blocks"][_b].get("inl") and s2["line"] == s["line"]:
                                    got = e9.deep_sources_fs(fi, dfi, r2["ops"][r2["fields"].index(fld)])
                                    got.discard("<self>")
                                    if got:
                                        srcs = got
                    if srcs == {fld}:
                        res.add([ok("ATTRIB", key, where(f, s["line"]), "from self.%s" % fld)])
                    else:
                        res.add([finding("ATTRIB", key, where(f, s["line"]), "rebuilt field `%s` is fed from self.%s: two fields are swapped or merged" % (fld, sorted(srcs)))])
    res.count("Self-rebuild field obligations", n)
    res.floor("Self-rebuild field obligations", n, 120)


# ------------------------------------------------------------------------------------------------
CTX_OF_KEY = {"to": "address", "from": "address", "amount": "asset", "min_amount": "asset", "datum": "datum", "redeemer": "datum",
              "ref": None, "since_slot": None, "until_slot": None, "version": None, "script": None}
CTX_ENUMS = ["tx3_lang::ast::InputBlockField", "tx3_lang::ast::OutputBlockField", "tx3_lang::ast::CollateralBlockField",
             "tx3_lang::cardano::CardanoPublishBlockField"]


def _ctx_helper(t, callee):
    return callee["crate"] == "tx3_lang" and not callee.get("impl_trait") and not callee.get("trait_default") and len(callee["blocks"]) <= 60 and \
        any(re.search(r"lowering::Context::enter_(address|asset|datum)_expr$", t2.get("callee") or "") for _, t2 in mir.calls(callee))


def ctx(F, res):
    exc = {(r["enum"], r["key"]): r["reason"] for r in rows("context")}
    for enum in CTX_ENUMS:
        f = F.fn("<%s as %s>::into_lower" % (enum, LOW))
        # the switch of context may sit in a small helper of the crate (`lower_as_address(ctx, expr)`): inlined
        try:
            f = mir.inline_calls(F, f, want=_ctx_helper, depth=2)
        except Exception:
            pass
        arms = e3.variant_arms(f)
        adt = F.adt(enum)
        cfg = mir.CFG(f)
        kt = key_table(F, enum)
        if kt is None:
            # cardano publish fields carry their key in the tuple they return
            kt = {}
            for v in adt["variants"]:
                kt[v["name"]] = v["name"].lower()
        short = enum.split("::")[-1]
        for v in adt["variants"]:
            k = kt.get(v["name"])
            if k not in CTX_OF_KEY:
                continue
            tb = arms[1].get(v["discr"], arms[2]) if arms else None
            got = None
            for bi, t in mir.calls(f):
                m = re.search(r"lowering::Context::enter_(address|asset|datum)_expr$", t.get("callee") or "")
                if m and tb is not None and cfg.dominates(tb, bi):
                    got = m.group(1)
            want = CTX_OF_KEY[k]
            key = "%s::%s|context of `%s`" % (short, v["name"], k)
            if got == want:
                res.add([ok("CTX", key, where(f), "%s context" % (want or "inherited"))])
            elif (short, k) in exc:
                res.add([ok("CTX", key, where(f), "tabled: " + exc[(short, k)])])
            else:
                res.add([finding("CTX", key, where(f), "`%s` is lowered in %s context here but in %s context in the sibling blocks: an input or policy name there means something else" % (k, got or "the inherited", want or "the inherited"))])


def block_ctx(F, res, rule="CTX", blocks=None):
    """Context switches belong to the field arms (where the rule above compares them key by key), not to the block: a block's
    own lowering hands its fields the context it was given.  In the `into_lower` of every block type (its closures included)
    the context argument of each nested `into_lower` call derives from the block's own parameter, never from an
    `enter_*_expr()` made in the block - that would put *all* its fields (a redeemer, an amount) into one context."""
    from ..common import outer_origins
    n = 0
    for enum, block in BLOCKS_SPEC:
        if blocks is not None and block not in blocks:
            continue
        f = F.fns.get("<%s as %s>::into_lower" % (block, LOW))
        if f is None:
            continue
        bad = None
        for b in with_closures(F, f):
            du = mir.DefUse(b)
            for bi, t in mir.calls(b):
                if not (t.get("trait") == LOW and t.get("method") == "into_lower" and len(t["args"]) == 2):
                    continue
                n += 1
                # captured variables of (nested) closures are resolved where the closures are created; what the block's
                # callers did with the context is not the block's business
                orgs = [o for fn2, o in outer_origins(F, b, t["args"][1], depth=3) if fn2["path"].startswith(f["path"])] if b.get("def_kind") == "Closure" \
                    else mir.provenance(b, du, t["args"][1])
                for o in orgs:
                    m = re.search(r"lowering::Context::enter_(address|asset|datum)_expr$", o.callee or "") if o.kind == "call" else None
                    if m:
                        bad = (t["line"], m.group(1))
        key = "%s|fields are lowered in the context the block was given" % block.split("::")[-1]
        if bad:
            res.add([finding(rule, key, where(f, bad[0]), "the block's own lowering switches to the %s context before lowering its fields: every field of the block - redeemer, amount, .. - is then read in that context (a policy name becomes a script address)" % bad[1])])
        else:
            res.add([ok(rule, key, where(f), "nested lowerings receive the block's own context")])
    return n


# ------------------------------------------------------------------------------------------------
def fielduse(F, res):
    cg = CallGraph(F, callbacks=False)
    reach = cg.reachable(["tx3_cardano::compile::entry_point"])
    read = {}
    for p in reach:
        f = F.fns[p]
        if f["crate"] != "tx3_cardano":
            continue
        for bi, si, s in mir.stmts(f):
            rv = s["rv"]
            pls = [rv.get("pl")] if rv["k"] in ("ref", "rawptr", "discr") else [mir.op_place(o) for o in mir.all_operands_of_rv(rv)]
            for pl in pls:
                if pl is not None:
                    for pj in pl["p"]:
                        if pj[0] == "f" and pj[2].startswith(IR):
                            read.setdefault(pj[2], set()).add(pj[1])
        for bi, t in mir.calls(f):
            for a in t["args"]:
                pl = mir.op_place(a)
                if pl is not None:
                    for pj in pl["p"]:
                        if pj[0] == "f" and pj[2].startswith(IR):
                            read.setdefault(pj[2], set()).add(pj[1])
    exc = {(r["adt"], r["field"]): r["reason"] for r in rows("unused_fields")}
    n = 0
    for short in ("Tx", "Input", "Output", "Mint", "Validity", "Metadata", "Signers", "Collateral", "AssetExpr", "StructExpr", "AdHocDirective"):
        a = F.adt(IR + short)
        for fd in a["variants"][0]["fields"]:
            n += 1
            key = "ir::%s.%s is consulted by the compiler" % (short, fd["name"])
            w = "%s:%s" % (a["file"].replace("/repo/", ""), a["line"])
            if fd["name"] in read.get(IR + short, set()):
                res.add([ok("FIELDUSE", key, w, "read in the closure of compile::entry_point")])
            elif (short, fd["name"]) in exc:
                res.add([ok("FIELDUSE", key, w, "tabled: " + exc[(short, fd["name"])])])
            else:
                res.add([finding("FIELDUSE", key, w, "nothing in the compiler reads %s.%s: what the template says there never reaches the transaction" % (short, fd["name"]))])
    res.count("IR fields checked for use", n)
    res.floor("IR fields checked for use", n, 30)


FILTERS = ("filter", "filter_map", "take", "skip", "take_while", "skip_while", "step_by", "dedup", "dedup_by_key", "find", "nth", "last", "first")


def _reads_adhoc(F, f):
    """f selects chain-specific ad-hoc directives (Tx.adhoc) by name: outside the core fragment the property speaks about"""
    import json
    return any('["f", "adhoc", "tx3_tir::model::v1beta0::Tx"' in json.dumps(b["blocks"]) for b in with_closures(F, f))


ADHOC_TRANSPARENT = ("std::iter::Iterator::filter", "std::iter::Iterator::map", "std::iter::Iterator::cloned", "std::iter::Iterator::copied", "core::slice::<impl [T]>::iter",
                     "std::ops::Deref::deref", "std::iter::IntoIterator::into_iter", "std::iter::Iterator::rev", "std::iter::Iterator::enumerate", "std::iter::Iterator::peekable")


def nofilter(F, res):
    """Nothing the template wrote is dropped on the way into the body: in the whole compiler-crate closure of the function that
    builds the TransactionBody (found by role) and of the feeder of Tx.auxiliary_data there is no item-dropping adaptor
    (`filter`, `take`, `skip`, `find`, `first`, `dedup`, `retain`, a `flat_map` over a Result ..) and no keyed collapse, other
    than the tabled ones.  Selections of chain-specific ad-hoc directives *by name* (the receiver derives from `tx.adhoc`) are
    outside the core fragment.  Keys name the top-level function (historical names of the roles), not the closure."""
    from ..common import keyed_collapses, row_lookup
    exc = {r["key"]: r["reason"] for r in rows("filters")}
    tbp = roles.builder_of(F, "tx3_cardano", "::TransactionBody")
    hist = {tbp: "compile_tx_body"}
    for fld, h in (("inputs", "compile_inputs"), ("outputs", "compile_outputs"), ("mint", "compile_mint_block"), ("required_signers", "compile_required_signers")):
        try:
            hist[roles.feeder_of(F, tbp, "::TransactionBody", fld)] = h
        except BrokenCheck:
            pass    # the field is not fed by a function any more: USE / ATTRIB report that
    roots = [tbp]
    try:
        aux = roles.feeder_of(F, roles.builder_of(F, "tx3_cardano", "::Tx"), "::Tx", "auxiliary_data")
        hist[aux] = "compile_auxiliary_data"
        roots.append(aux)
    except BrokenCheck:
        pass
    reach = sorted(p for p in CallGraph(F, callbacks=False).reachable(roots) if F.fns[p]["crate"] == "tx3_cardano" and not is_derive(F.fns[p]))
    res.count("functions between the IR and the transaction body", len(reach))
    res.floor("functions between the IR and the transaction body", len(reach), 40)

    def top(p):
        f = F.fns[p]
        while f.get("owner") and f["owner"] in F.fns:
            f = F.fns[f["owner"]]
        return f["path"]
    sites = []
    for p in reach:
        b = F.fns[p]
        du = None
        name = hist.get(top(p), top(p).split("::")[-1])
        for bi, t in mir.calls(b):
            c = t.get("callee") or ""
            last = c.split("::")[-1]
            is_filter = (c.startswith("std::iter::Iterator::") and last in FILTERS) or (c.startswith("core::slice::<impl [T]>::") and last in ("first", "last")) \
                or (last in ("dedup", "dedup_by_key", "retain") and "Vec" in c)
            drops_err = False
            if c == "std::iter::Iterator::flat_map":
                # flat_map whose closure returns a Result: Result is IntoIterator, Err items vanish
                g = t.get("gargs") or []
                if len(g) > 1 and g[1].startswith("std::result::Result<"):
                    drops_err = True
            if not (is_filter or drops_err) or not t["args"]:
                continue
            du = du or mir.DefUse(b)
            if any(o.kind == "arg" and ".adhoc" in o.proj for o in mir.provenance(b, du, t["args"][0], transparent_extra=ADHOC_TRANSPARENT)):
                continue
            sites.append(("%s|%s" % (name, last + (" over Result" if drops_err else "")), where(b, t["line"]), last, drops_err))
        for line, what in keyed_collapses(F, b):
            sites.append(("%s|keyed collapse" % name, where(b, line), what, None))
    look = row_lookup(exc, {k for k, _, _, _ in sites})
    for key, w, last, drops_err in sites:
        r = look(key)
        if r:
            res.add([ok("NOFILTER", key, w, "tabled: " + r[0] + (" (row relocated from %s)" % r[1] if r[1] else ""))])
        elif drops_err is None:
            res.add([finding("NOFILTER", key, w, "%s: items the template wrote that agree on that part become one" % last)])
        elif drops_err:
            res.add([finding("NOFILTER", key, w, "`%s` iterates a Result: when the coercion fails the item is silently dropped from the transaction instead of failing the compilation" % last)])
        else:
            res.add([finding("NOFILTER", key, w, "`%s` can drop items of a list the template wrote" % last)])
    res.count("filtering adaptors seen", len(sites))


def order(F, res):
    f = F.fns[roles.feeder_of(F, roles.builder_of(F, "tx3_cardano", "::TransactionBody"), "::TransactionBody", "outputs")]
    bad = []
    for b in with_closures(F, f):
        for bi, t in mir.calls(b):
            c = t.get("callee") or ""
            last = c.split("::")[-1]
            if last.startswith("sort") or last in ("rev", "reverse", "swap", "rotate_left", "rotate_right"):
                bad.append(last)
    key = "compile_outputs|source order"
    if bad:
        res.add([finding("ORDER", key, where(f), "outputs are reordered (%s): output positions no longer follow the template" % sorted(set(bad)))])
    else:
        res.add([ok("ORDER", key, where(f), "map/filter/collect over tx.outputs, then the publish directives appended: no reordering")])


ADVANCE = ("next", "next_if", "next_if_eq", "peek", "nth", "next_back", "peek_mut")


def byname(F, res):
    """Record/variant constructor fields are associated with the declaration *by name*: the order in which the explicit fields
    are written must be immaterial.  Positional pairing shows up as a cursor over the explicit fields
    (RecordConstructorField items) that is created outside a loop driven by another iterator and advanced inside it, or as a
    zip of the two lists."""
    f = F.fn("<tx3_lang::ast::StructConstructor as tx3_lang::lowering::IntoLower>::into_lower")
    key = f["path"] + "|explicit fields are matched to the declaration by name"
    bad = []
    n_adv = 0
    for g in with_closures(F, f):
        cfg = mir.CFG(g)
        du = mir.DefUse(g)
        loops = cfg.loops()
        per_loop = {}
        for bi, t in mir.calls(g):
            c = t.get("callee") or ""
            name = c.split("::")[-1]
            ty = " ".join(t.get("gargs") or []) + " " + (t.get("callee_args") or "")
            if name == "zip" and "Iterator" in c and "RecordConstructorField" in ty:
                bad.append((t["line"], "explicit fields are zipped with another list"))
            if name in ADVANCE and ("Iterator" in c or "Peekable" in c):
                n_adv += 1
                org = mir.provenance(g, du, t["args"][0], transparent_extra=("std::ops::DerefMut::deref_mut",))
                for hdr, body in loops.items():
                    if bi in body and org and all(o.kind == "call" and o.bb not in body for o in org):
                        per_loop.setdefault(hdr, []).append((t["line"], "RecordConstructorField" in ty, name))
        for hdr, its in per_loop.items():
            expl = [x for x in its if x[1]]
            other = [x for x in its if not x[1]]
            if expl and other:
                bad.append((expl[0][0], "a cursor over the explicit fields (`%s`) is advanced in step with the loop over the declared fields" % expl[0][2]))
    lookups = [t for g in with_closures(F, f) for bi, t in mir.calls(g) if (t.get("callee") or "").endswith("VariantCaseConstructor::find_field_value")]
    if bad:
        res.add([finding("BYNAME", key, where(f, bad[0][0]), "%s: a constructor whose fields are written in another order than the declaration gets other values than the ones written" % bad[0][1])])
    else:
        res.add([ok("BYNAME", key, where(f), "no positional pairing of explicit and declared fields (%d iterator advances inspected, %d by-name lookups)" % (n_adv, len(lookups)))])
    # the by-name lookup itself compares names over the whole list
    ff = F.fn("tx3_lang::ast::VariantCaseConstructor::find_field_value")
    key2 = ff["path"] + "|searches every explicit field by name"
    finds = [t for g in with_closures(F, ff) for bi, t in mir.calls(g) if (t.get("callee") or "").split("::")[-1] in ("find", "find_map", "position")]
    cut = [t for g in with_closures(F, ff) for bi, t in mir.calls(g) if (t.get("callee") or "").split("::")[-1] in ("take", "skip", "step_by", "first", "last", "nth", "rev")]
    cmpn = False
    for g in with_closures(F, ff):
        for bi, t in mir.calls(g):
            if (t.get("callee") or "") in ("std::cmp::PartialEq::eq", "std::cmp::PartialEq::ne"):
                cmpn = True
    if finds and cmpn and not cut:
        res.add([ok("BYNAME", key2, where(ff), "iter().find(|x| x.name.value == name)")])
    else:
        res.add([finding("BYNAME", key2, where(ff), "find_field_value does not search the whole list of explicit fields by name equality")])


def formula_time(F, res):
    """FORMULA: the slot/time built-ins are the affine maps anchored at the chain cursor (1 slot = 1000 ms):
         slot_to_time(s) = cursor.timestamp + (s - cursor.slot) * 1000       time_to_slot(t) = cursor.slot + (t - cursor.timestamp) / 1000
    compared as canonical symbolic forms (see rules/symexpr.py).  Functions found under their public names; a tree without them
    is not decided (assumption)."""
    from .. import symexpr
    from ..common import with_helpers
    A = lambda ty, *f: ("arg", ty, tuple(f))
    CP = "&tx3_cardano::ChainPoint"
    want = {
        "tx3_cardano::ops::slot_to_time": symexpr._flat("+", [symexpr._flat("*", [("-", A("i128"), A(CP, "slot")), ("c", 1000)]), A(CP, "timestamp")]),
        "tx3_cardano::ops::time_to_slot": symexpr._flat("+", [("/", ("-", A("i128"), A(CP, "timestamp")), ("c", 1000)), A(CP, "slot")]),
    }
    for p, spec in want.items():
        key = "%s|affine in the cursor" % p
        f0 = F.fns.get(p)
        if f0 is None:
            res.add([assumption("FORMULA", key, "crates/tx3-cardano/src/ops.rs", "%s not found under this name: not decided" % p.split("::")[-1])])
            continue
        f = with_helpers(F, p)
        e = symexpr.expr_of(F, f, mir.DefUse(f), {"l": 0, "p": []})
        if e == spec:
            res.add([ok("FORMULA", key, where(f0), "canonical form: %s" % symexpr.show(e))])
        elif isinstance(e, tuple) and e[0] == "?":
            res.add([assumption("FORMULA", key, where(f0), "expression outside the recognised fragment (%s): not decided" % e[1])])
        else:
            res.add([finding("FORMULA", key, where(f0), "%s computes %s, the built-in denotes %s" % (p.split("::")[-1], symexpr.show(e), symexpr.show(spec)))])


def arith_kind(F, res):
    """KIND: integer and multi-asset arithmetic keep their kind.  Every `Ok(..)` that `Arithmetic::add` / `neg` of the number
    impl (Self = i128) or of the asset impl (Self: Into<CanonicalAssets>) builds itself is `Expression::Number(..)` resp.
    `Expression::Assets(..)` - never `None` or another variant.  `None` is the *absent* operand (`None + y = y`, and, listed
    under C02/SUBID, `None - y = y`): a sum or negation that can come out as `None` makes a later subtraction in the same chain
    drop its sign.  Delegations (`self.add(other.neg()?)`) are followed by the impl they call."""
    from ..common import with_helpers
    ARITH = "tx3_tir::reduce::Arithmetic"
    EXPRT = "tx3_tir::model::v1beta0::Expression"
    n = 0
    for f0 in sorted(F.fns.values(), key=lambda g: g["path"]):
        if f0.get("impl_trait") != ARITH or f0.get("name") not in ("add", "neg") or f0.get("impl_self") == EXPRT:
            continue
        want = "Number" if f0["impl_self"] == "i128" else "Assets"
        f = with_helpers(F, f0["path"])
        du = mir.DefUse(f)
        kinds = set()
        for o in mir.provenance(f, du, {"l": 0, "p": []}):
            if o.kind == "agg" and o.rv.get("variant") == "Ok" and o.rv.get("ops"):
                def _conv_fn(t_):
                    g_ = F.fns.get(t_.get("resolved") or "")
                    if g_ is not None and g_.get("impl_self") == EXPRT and (g_.get("impl_trait") or "").startswith(("std::convert::From", "std::convert::Into")):
                        return g_
                    ga = t_.get("gargs") or []
                    cal = t_.get("callee") or ""
                    if (cal.endswith("::into") or cal.endswith("::from")) and "std::convert::" in cal and EXPRT in ga:
                        # `x.into()` through std's blanket impl: the workspace's `impl From<X> for Expression`
                        for other in ga:
                            if other != EXPRT:
                                tail = "<impl std::convert::From<%s> for %s>::from" % (other, EXPRT)
                                for k_, g2_ in F.fns.items():
                                    if k_.endswith(tail) or k_ == "<%s as std::convert::From<%s>>::from" % (EXPRT, other):
                                        return g2_
                    return None

                def _conv(t_):
                    return _conv_fn(t_) is not None
                for o2 in mir.provenance(f, du, o.rv["ops"][0], stop_at_calls=_conv):
                    if o2.kind == "agg" and o2.rv.get("adt") == EXPRT:
                        kinds.add(o2.rv.get("variant"))
                    elif o2.kind == "const" and EXPRT in str(o2.const.get("ty", "")):
                        kinds.add(o2.const.get("variant") or "None")
                    elif o2.kind == "call" and _conv(o2.term):
                        # the result is wrapped by a conversion of the workspace (`impl From<CanonicalAssets> for Expression`):
                        # whatever variants that conversion can build
                        g2 = _conv_fn(o2.term)
                        for b2 in with_closures(F, g2):
                            for _, _, st2 in mir.stmts(b2):
                                if st2["rv"]["k"] == "agg" and st2["rv"].get("adt") == EXPRT:
                                    kinds.add(st2["rv"].get("variant"))
                                elif st2["rv"]["k"] == "use":
                                    c2 = mir.op_const(st2["rv"]["op"])
                                    if c2 is not None and EXPRT in str(c2.get("ty", "")):
                                        kinds.add(c2.get("variant") or "None")
        if not kinds:
            continue
        n += 1
        key = "%s|result kind" % f0["path"]
        if kinds == {want}:
            res.add([ok("KIND", key, where(f0), "every Ok(..) built here is Expression::%s" % want)])
        else:
            res.add([finding("KIND", key, where(f0), "%s of %s can yield Expression::%s: `None` is the absent operand (`None - y` is `y`), so a chain like `a - b - c` loses the sign of `c` when `a - b` comes out this way" % (
                f0["name"], "numbers" if want == "Number" else "asset bags", "/".join(sorted(kinds - {want}))))])
    res.count("arithmetic impls with a result kind", n)
    res.floor("arithmetic impls with a result kind", n, 4)


def g_skip(F, res):
    """G-SKIP: a lexical condition of the grammar.  pest skips WHITESPACE / COMMENT between the elements of every sequence and
    between the iterations of every repetition of a rule that does not run atomically.  If what follows such a skip can itself
    begin with a blank (the body of a string literal, say), the skip wins and the leading blanks and comment-like text of the
    literal never reach the value the template denotes.  Decided on the grammar's AST: atomicity propagated from the roots, then
    a first-character computation (negative lookaheads honoured) for everything that follows an implicit skip."""
    hits, na = e2.skip_ambiguities(F.grammar)
    res.count("grammar rules that run with implicit skipping", len(na))
    res.floor("grammar rules that run with implicit skipping", len(na), 60)
    w = "crates/tx3-lang/src/tx3.pest"
    seen = set()
    for rule, what in hits:
        key = "tx3.pest|%s|implicit skip in front of blank-capable text" % rule
        if key in seen:
            continue
        seen.add(key)
        res.add([finding("G-SKIP", key, w, what + ": leading blanks and comment-like text there are skipped instead of being captured, so the compiled value differs from the literal the template author wrote")])
    if not hits:
        res.add([ok("G-SKIP", "tx3.pest|no implicit skip in front of blank-capable text", w, "%d rules run with implicit skipping; nothing that follows a skip can begin with a blank" % len(na))])


def run(ctx_):
    F = ctx_.F
    res = Result("C01")
    for rid, text in (("ASSOC", "operator tables, associativity and precedence agree with the grammar"), ("BLOCKS", "grammar keyword = key() = parser arm; every key looked up"),
                      ("T1", "every expression-bearing AST field is lowered"), ("ROOT", "each ir::Tx field is fed from the same-named AST field"),
                      ("ATTRIB", "rebuilt fields come from the field they denote"), ("CTX", "same-named block fields use the same lowering context"),
                      ("FIELDUSE", "every IR field is consulted by the compiler"), ("NOFILTER", "no item-dropping adaptors other than the tabled ones"),
                      ("ORDER", "outputs keep source order"), ("BYNAME", "constructor fields are matched to the declaration by name, not by position")):
        res.rule(rid, text)
    G, it = assoc(F, res)
    blocks(F, res, G, it)
    t1_lower(F, res)
    root(F, res)
    attrib(F, res)
    self_rebuilds(F, res)
    ctx(F, res)
    block_ctx(F, res)
    fielduse(F, res)
    nofilter(F, res)
    order(F, res)
    byname(F, res)
    # quantities of one policy / account written in several blocks are aggregated, not overwritten (rule shared with C02)
    from . import c02
    res.rule("MERGE", "quantity-bearing maps are combined by aggregation, never by overwrite: nothing the template mints, burns or withdraws is dropped")
    r2 = Result("C01")
    c02.merge_rule(F, r2, CallGraph(F).reachable(c02.ROOTS))
    known_c02 = {"tx3_cardano::compile::compile_withdrawals|collect into std::result::Result<BTreeMap<Bytes, u64>, tx3_tir::compile::Error>"}
    for o in r2.obs:
        if o.status == "finding" and o.key in known_c02:
            continue   # the duplicate-withdrawal finding is listed under C02
        res.add([o])
    res.rule("FORMULA", "slot_to_time / time_to_slot are the affine maps anchored at the chain cursor, as canonical symbolic forms")
    formula_time(F, res)
    res.rule("OPTIONAL", "only optional outputs that carry nothing are left out (truth table of the filter predicate; shared with C02)")
    c02.optional_rule(F, res)
    res.rule("KIND", "number and asset arithmetic keep their kind (never yield the absent operand None)")
    arith_kind(F, res)
    # an asset keeps the class the template wrote (policy + name, name only, lovelace): shared with C15 / C02
    from . import c15
    res.rule("I-CLASS", "from_asset sends each presence combination of (policy, name) to its own asset class: a policy-only token does not turn into lovelace when it takes part in arithmetic")
    c15.i_class(F, res)
    res.rule("G-SKIP", "the grammar's implicit whitespace / comment skipping never runs in front of something that can itself begin with a blank: what a literal contains is what the template author wrote")
    g_skip(F, res)
    return res
