"""C13 -- a program the analyzer accepts can always be lowered.

Static clauses:
  COVER   failure-site inventory of lowering: every construct in the closure of lowering::lower that panics or builds a
          lowering::Error must be (i) discharged structurally, or (ii) *covered* by an analyzer rule: a reviewed row naming the
          analyzer function and the diagnostic it raises on the same condition, mechanically checked to exist, to raise that
          diagnostic and to be reachable from Program::analyze; sites without either are findings.
  T1      every reference-bearing field of every AST node is analysed by its Analyzable::analyze impl (an un-analysed child
          is a place where an unresolved symbol reaches lowering); binding occurrences (`name` of a definition) are tabled.
  FACADE  Workspace::lower reaches lowering::lower only on the `errors.is_empty()` edge and only with names of existing
          transactions.
  S-PROPS     the fields put in scope for `operand.field` come from Type::properties(), the accessor the lowering indexes with
  S-TYPEGATE  a validator (returns Result<(), _>) that asks for `target_type()` has no path to Ok(..) under the answer None
Not decided: the semantic equivalence of an analyzer condition with a lowering condition is judged by reading (recorded in
the row); the rule guarantees both ends of the row still exist and are connected.
"""
from .. import mir, e1_panic as e1, e3_trav as e3, discharge
from ..common import CallGraph, table, is_derive, site_in_derive, call_matches, with_closures
from ..engine import Result, ok, finding, assumption, where
from ..facts import BrokenCheck
from . import c12

META = {
    "level": "other",
    "explanation": (
        "Failure-site inventory of the lowering (panic sites and every lowering::Error constructor in the call-graph closure of "
        "lowering::lower) matched against analyzer diagnostics through reviewed coverage rows whose two ends are re-checked "
        "mechanically on every run (analyzer function exists, constructs the named diagnostic, reachable from Program::analyze); "
        "traversal completeness of the 62 Analyzable::analyze impls over the AST family (MIR taint analysis); and a dominance "
        "rule on the facade. Covers all programs; a test notices a missing analyzer check only for the mistake it happens to "
        "contain."),
    "trusted_base": ["rustc MIR, driver", "tables/c13_cover.json (reviewed coverage rows)", "tables/e3_rows.json (binding occurrences)"],
    "not_decided": ["semantic equivalence of analyzer and lowering conditions (judged by reading, recorded per row)"],
}

LOWER = "tx3_lang::lowering::lower"
ANALYZE_ROOT = "tx3_lang::analyzing::analyze"
ANALYZABLE = "tx3_lang::analyzing::Analyzable"
LERR = "tx3_lang::lowering::Error"

AST_EXCLUDE = {"tx3_lang::ast::Symbol", "tx3_lang::ast::Scope", "tx3_lang::ast::Span", "tx3_lang::facade::Workspace"}


def ast_family(F):
    return e3.compute_family(F, {"tx3_lang::ast::Identifier", "tx3_lang::ast::DataExpr", "tx3_lang::ast::Type"}, "tx3_lang::", exclude=AST_EXCLUDE)


def generic_rows(name):
    """rows keyed (adt short name, field) valid for every method of the trait"""
    out = {}
    for r in table("e3_rows")[name]:
        out[(r["adt"], r["field"])] = r["reason"]
    return out


def t1_analyze(F, res):
    fam = ast_family(F)
    grow = generic_rows("ast-analyze")
    n = 0
    for f in F.fns.values():
        if f.get("impl_trait") != ANALYZABLE or f.get("name") != "analyze":
            continue
        st = f["impl_self"]
        if st not in F.adts:
            continue
        n += 1
        rows = {}
        short = st.split("::")[-1]
        for v in F.adt(st)["variants"]:
            for fd in v["fields"]:
                if (short, fd["name"]) in grow:
                    rows[(f["path"], v["name"], fd["name"])] = grow[(short, fd["name"])]
        res.add(e3.check_impl_method(F, f, st, fam, "ref", "T1", rows, path_ok_blocks=lambda fn: _reporting_blocks(fn, F) | _child_reported_blocks(fn)))
    identifier_invariant(F, res)
    res.count("Analyzable::analyze impls on AST types", n)
    res.floor("Analyzable::analyze impls on AST types", n, 55)
    res.floor("AST family types", len(fam), 55)


def lowering_failure_sites(F, cg):
    reach = cg.reachable([LOWER])
    sites = []
    for p in sorted(reach):
        f = F.fns[p]
        if is_derive(f):
            continue
        for bi, si, s in mir.stmts(f):
            rv = s["rv"]
            if rv["k"] == "agg" and rv.get("adt") == LERR and not site_in_derive(s["exp"]):
                msg = ""
                for o in rv["ops"]:
                    c = mir.op_const(o)
                    if c and "str" in c:
                        msg = c["str"]
                if not msg:
                    # message built by `"..".to_string()` / format!: look at string constants in the block
                    du = mir.DefUse(f)
                    for o in rv["ops"]:
                        for og in mir.provenance(f, du, o):
                            if og.kind == "const" and "str" in og.const:
                                msg = og.const["str"]
                if not msg:
                    # the constructor sits in a helper (`fn missing_field(block: &'static str, name: &str)`): the message is what
                    # the callers pass (when they all pass the same text)
                    from ..common import outer_origins
                    for o in rv["ops"]:
                        texts = set()
                        for _, og in outer_origins(F, f, o, depth=3, transparent_extra=("std::string::ToString::to_string", "std::borrow::ToOwned::to_owned", "std::convert::From::from", "std::convert::Into::into")):
                            sv = mir.promoted_str(F, og.const) if og.kind == "const" else None
                            texts.add(sv)
                        if len(texts) == 1 and None not in texts:
                            msg = texts.pop()
                sites.append((f, bi, s["line"], rv["variant"], msg[:50]))
    return reach, sites


def cover_check(F, cg, analyze_reach, row):
    """is the analyzer end of a coverage row still there?"""
    fn = row["analyzer"]
    f = F.fns.get(fn)
    if f is None:
        return "analyzer function %s no longer exists" % fn
    if fn not in analyze_reach:
        return "analyzer function %s is not reachable from analyze()" % fn
    diag = row["diag"]
    found = False
    # the analyzer function with the crate's helper functions inlined (a check split out into a helper still counts)
    fi = mir.inline_calls(F, f, want=e3._helper_policy("tx3_lang"), depth=2)
    if any(x.endswith("analyzing::Error::" + diag) for x in fi.get("inlined", [])):
        found = True
    # closures created inside inlined helpers
    extra_clos = [F.fns[st["rv"]["closure"]] for _, _, st in mir.stmts(fi) if st["rv"]["k"] == "agg" and st["rv"].get("closure") in F.fns]
    for b in [fi] + with_closures(F, f) + extra_clos:
        for bi, t in mir.calls(b):
            if (t.get("callee") or "").endswith("analyzing::Error::" + diag):
                found = True
        for bi, si, s in mir.stmts(b):
            rv = s["rv"]
            if rv["k"] == "agg" and (rv.get("adt", "").endswith("analyzing::" + diag) or (rv.get("adt", "").endswith("analyzing::Error") and rv.get("variant") == diag)):
                found = True
    if not found:
        return "%s no longer raises `%s`" % (fn, diag)
    return None


def cover(F, res, cg):
    rows = {r["key"]: r for r in table("c13_cover")["rows"]}
    prows = {r["key"]: r["reason"] for r in table("e1_rows")["C13"]}
    analyze_reach = cg.reachable([ANALYZE_ROOT])
    reach, errsites = lowering_failure_sites(F, cg)
    discharge.CURRENT_F = F
    _, n_fns, psites = e1.inventory(F, cg, [LOWER])
    res.count("functions in the lowering closure", n_fns)
    res.floor("functions in the lowering closure", n_fns, 250)
    # panic sites
    cache = {}
    items = []
    for s in psites:
        items.append((s.key(), s.fn, s.line, s, None))
    seen = {}
    for (f, bi, line, variant, msg) in errsites:
        base = "%s|Err|%s|%s" % (f["path"], variant, msg)
        n = seen.get(base, 0) + 1
        seen[base] = n
        key = base if n == 1 else "%s|#%d" % (base, n)
        items.append((key, f, line, None, (variant, msg, bi)))
    res.count("lowering failure sites", len(items))
    res.floor("lowering failure sites", len(items), 15)
    # Rows are keyed by the failure site (function | kind | what).  When the lowering is restructured - a function renamed,
    # an error construction moved into a shared helper or a closure - a site without a row of its own may use a row whose own
    # site no longer exists and that describes the same failure (same error variant and message / same panic kind); the
    # analyzer end of the row is re-checked as always.
    import re as _re
    site_keys = {it_[0] for it_ in items}

    def sig(k):
        parts = k.split("|")[1:]
        if parts and _re.fullmatch(r"#\d+", parts[-1]):
            parts = parts[:-1]
        return tuple(parts)
    stale_rows = {}
    for k, r in rows.items():
        if k not in site_keys:
            stale_rows.setdefault(sig(k), []).append(r)
            stale_rows.setdefault(sig(k)[:2], []).append(r)
    stale_prows = {}
    for k, r in prows.items():
        if k not in site_keys:
            stale_prows.setdefault(sig(k), []).append(r)
    for key, f, line, ps, es in items:
        w = where(f, line)
        by = None
        if ps is not None:
            p = f["path"]
            if p not in cache:
                cache[p] = (mir.DefUse(f), mir.CFG(f))
            du, cfg = cache[p]
            by = discharge.try_all(f, du, cfg, ps)
            if by is None and ps.kind in ("K2", "K3", "K4"):
                fi = c12._inlined_for_discharge(F, f)
                if fi is not None and fi.get("inlined"):
                    by = discharge.try_all(fi, mir.DefUse(fi), mir.CFG(fi), ps)
                    if by:
                        by += " (guard in an inlined helper)"
            if by is None and ps.kind in ("K2", "K3", "K4"):
                # the site moved into a helper; the guard (or the bound it compares with) is the callers'
                by = discharge.try_in_callers(F, f, ps)
            if by is None and key in prows:
                by = "D-TABLE: " + prows[key]
            if by is None and stale_prows.get(sig(key)):
                by = "D-TABLE (row of a site that moved here): " + stale_prows[sig(key)][0]
        if by:
            res.add([ok("COVER", key, w, by)])
            continue
        row = rows.get(key)
        if row is None and es is not None:
            cands = stale_rows.get(sig(key)) or (stale_rows.get(sig(key)[:2]) if not es[1] else None)
            if cands:
                # every candidate row must still hold at its analyzer end; the first one that does covers the site
                for cand in cands:
                    if cand.get("kind") == "facade" or cover_check(F, cg, analyze_reach, cand) is None:
                        row = cand
                        break
        if row is None and ps is not None and stale_rows.get(sig(key)):
            row = stale_rows[sig(key)][0]
        if row is None and es is not None:
            # the error a function raises in its own body, discharged by a premise on its callers (kind "facade"): the row
            # speaks for whatever error that function itself builds once its own site is gone (variant or message reworded)
            own = _re.sub(r"(::\{closure#\d+\})+$", "", key.split("|")[0])
            for k2, r2 in rows.items():
                if r2.get("kind") == "facade" and k2 not in site_keys and k2.split("|")[0] == own:
                    row = r2
        if row is None:
            what = ("`%s` in the lowering" % (ps.what if ps.kind != "K4" else "indexing")) if ps is not None else "lowering::Error::%s(%r)" % (es[0], es[1])
            res.add([finding("COVER", key, w, "%s has no covering analyzer diagnostic: a program can pass analysis and fail (or panic) here" % what)])
            continue
        if row.get("kind") == "facade":
            res.add([ok("COVER", key, w, "discharged by rule FACADE: " + row["reason"])])
            continue
        problem = cover_check(F, cg, analyze_reach, row)
        if problem:
            res.add([finding("COVER", key, w, "coverage row is broken: " + problem)])
        else:
            res.add([ok("COVER", key, w, "covered by %s raising %s: %s" % (row["analyzer"].split("::")[-3] + "::" + row["analyzer"].split("::")[-1] if "<" not in row["analyzer"] else row["analyzer"].split(" as ")[0].split("::")[-1] + "::analyze", row["diag"], row["reason"]))])


def facade(F, res):
    from ..common import with_helpers
    f = with_helpers(F, "tx3_lang::facade::Workspace::lower")
    cfg = mir.CFG(f)
    du = mir.DefUse(f)
    w = where(f)
    lc = [bi for bi, t in mir.calls(f) if call_matches(t, LOWER)]
    ie = [(bi, t) for bi, t in mir.calls(f) if (t.get("callee") or "").endswith("::is_empty")]
    key = f["path"] + "|lower only after a clean analysis"
    if not lc:
        raise BrokenCheck("Workspace::lower no longer calls lowering::lower")
    good = False
    for bi, t in ie:
        # receiver is the analysis report's `errors`
        o = mir.provenance(f, du, t["args"][0])
        if not any(".errors" in "".join(x.proj) for x in o):
            continue
        nxt = t["t"]
        tt = f["blocks"][nxt]["t"]
        hops = 0
        while tt["k"] == "goto" and hops < 4:
            nxt = tt["t"]
            tt = f["blocks"][nxt]["t"]
            hops += 1
        # `if !errors.is_empty() { return Err }`: a Not may sit between; find which edge returns
        if tt["k"] != "switch":
            continue
        for succ in mir.succs_of(tt):
            if all(cfg.dominates(succ, l) for l in lc):
                other = [x for x in mir.succs_of(tt) if x != succ]
                if other and not (set(lc) & cfg.reach_from(other[0])):
                    good = True
    if good:
        res.add([ok("FACADE", key, w, "lowering::lower is dominated by one edge of the errors.is_empty() test; the other edge returns")])
    else:
        res.add([finding("FACADE", key, w, "lowering::lower can run although the analysis reported errors")])
    key2 = f["path"] + "|lowers only existing transactions"
    good2 = False
    for bi in lc:
        t = f["blocks"][bi]["t"]
        o = mir.provenance(f, du, t["args"][1])
        if any(".name" in "".join(x.proj) and ".value" in "".join(x.proj) for x in o) or any(x.kind == "call" and "next" in x.callee for x in o):
            good2 = True
    if good2:
        res.add([ok("FACADE", key2, w, "the template name passed is `tx.name.value` of an element of ast.txs")])
    else:
        res.add([finding("FACADE", key2, w, "the template name passed to lowering::lower is not taken from the program's own transactions")])


def _builds_diagnostic(g):
    for b in g["blocks"]:
        if b["cleanup"]:
            continue
        if any(s["rv"]["k"] == "agg" and s["rv"].get("adt") == "tx3_lang::analyzing::Error" for s in b["s"]):
            return True
        if b["t"]["k"] == "call" and (b["t"].get("callee") or "").startswith("tx3_lang::analyzing::Error::"):
            return True
    return False


_DIAGB = {}


def _diag_builders(F):
    """plain functions of the analyzer that (directly or through one more helper) build an analyzing::Error"""
    if id(F) not in _DIAGB:
        cand = {p: g for p, g in F.fns.items() if g["crate"] == "tx3_lang" and not g.get("impl_trait") and not g.get("derived") and "analyzing" in g["file"]}
        out = {p for p, g in cand.items() if _builds_diagnostic(g)}
        for p, g in cand.items():
            if p not in out and any((t.get("resolved") or t.get("callee") or "") in out for _, t in mir.calls(g)) and g["locals"][0].endswith("AnalyzeReport"):
                out.add(p)
        _DIAGB[id(F)] = out
    return _DIAGB[id(F)]


def _reporting_blocks(fn, F=None):
    """blocks of an analyze() body after which the returned report is not silent about the node: a diagnostic is constructed,
    or a child's analyze() is called on this very path (its report is what gets returned).  A path that skips a field is
    acceptable for the analyzer only if it passes one of these - a bailing analyzer reports the error instead of descending."""
    out = set()
    for bi, b in enumerate(fn["blocks"]):
        if b["cleanup"]:
            continue
        for s in b["s"]:
            if s["rv"]["k"] == "agg" and s["rv"].get("adt") == "tx3_lang::analyzing::Error":
                out.add(bi)
        t = b["t"]
        if t["k"] == "call":
            c = t.get("callee") or ""
            if c.startswith("tx3_lang::analyzing::Error::"):
                out.add(bi)
            # `opt.ok_or_else(|| Error::..)` / `res.map_err(|e| Error::..)`: the diagnostic is built by the closure handed over
            elif F is not None and any(fr in F.fns and _builds_diagnostic(F.fns[fr]) for fr in t.get("fnrefs") or ()):
                out.add(bi)
            # a helper of the analyzer that builds the diagnostic (`AnalyzeReport::unresolved(name, node)`)
            elif F is not None and (t.get("resolved") or c) in _diag_builders(F):
                out.add(bi)
    return out


IDENT = "tx3_lang::ast::Identifier"


def _child_reported_blocks(fn):
    """The `None` arm of a match on `self.<f>.symbol`, where `<f>` is an Identifier this very body has analysed before the
    match: Identifier::analyze leaves `symbol` unset only together with its NotInScope diagnostic (checked by
    `identifier_invariant`), so on that arm the child's report - which is what such an arm returns - already carries the error.
    Nothing else about a child's report excuses skipping a field (a clean report of one child says nothing about another)."""
    out = set()
    du = mir.DefUse(fn)
    cfg = mir.CFG(fn)
    # blocks that call analyze on `self.<f>` (an Identifier), by field name
    analysed = {}
    for bi, t in mir.calls(fn):
        if t.get("trait") == ANALYZABLE and t.get("method") == "analyze" and t["args"]:
            for o in mir.provenance(fn, du, t["args"][0]):
                if o.kind == "arg" and o.local == 1 and o.proj:
                    analysed.setdefault(o.proj[-1].lstrip("."), []).append(bi)
    for bi, b in enumerate(fn["blocks"]):
        if b["cleanup"] or b["t"]["k"] != "switch":
            continue
        for s in b["s"]:
            rv = s["rv"]
            if rv["k"] != "discr" or rv.get("adt") != "std::option::Option":
                continue
            dpl = mir.op_place(b["t"]["discr"])
            if dpl is None or dpl["l"] != s["lhs"]["l"]:
                continue
            pl = rv["pl"]
            # the matched place, written from self: field names along the way (through `&self.f.symbol` temporaries and
            # through the parameter of an inlined helper that was handed `&self.f`)
            own = [q for q in pl["p"] if q[0] == "f"]
            if not own or own[-1][1] != "symbol" or own[-1][2] != IDENT:
                if own:
                    continue
            chains = []
            for o in mir.provenance(fn, du, {"cp": {"l": pl["l"], "p": []}}):
                if o.kind == "arg" and o.local == 1:
                    chains.append([x.lstrip(".") for x in o.proj if x.startswith(".")] + [q[1] for q in own])
                else:
                    chains.append(None)
            if pl["l"] == 1:
                chains = [[q[1] for q in own]]
            if not chains or any(c is None or len(c) < 2 or c[-1] != "symbol" for c in chains):
                continue
            if not own:
                # `match *r` with r = &self.f.symbol: the Identifier ADT is named on the ref's own projection
                src = [st for _, _, st in mir.stmts(fn) if st["lhs"]["l"] == pl["l"] and not st["lhs"]["p"] and st["rv"]["k"] == "ref"]
                if len(src) != 1 or not [q for q in src[0]["rv"]["pl"]["p"] if q[0] == "f" and q[1] == "symbol" and q[2] == IDENT]:
                    continue
            fields = [None, None]
            owners = {c[-2] for c in chains}
            if len(owners) != 1:
                continue
            owner = owners.pop()
            if not any(cfg.dominates(ab, bi) for ab in analysed.get(owner, [])):
                continue
            tg = dict((v, tb) for v, tb in b["t"]["targets"])
            none_t = tg.get(0, b["t"]["otherwise"] if 1 in tg else None)
            if none_t is not None:
                out.add(none_t)
    return out


def identifier_invariant(F, res):
    """What `_child_reported_blocks` relies on: every return of Identifier::analyze has either built a diagnostic or assigned
    `self.symbol`."""
    f = F.fn("<%s as %s>::analyze" % (IDENT, ANALYZABLE))
    stop = set(_reporting_blocks(f, F))
    for bi, si, s in mir.stmts(f):
        if [q for q in s["lhs"]["p"] if q[0] == "f" and q[1] == "symbol" and q[2] == IDENT]:
            stop.add(bi)
    cfg = mir.CFG(f)
    seen, st, bad = set(), [0], None
    while st:
        b = st.pop()
        if b in seen or b in stop or f["blocks"][b]["cleanup"]:
            continue
        seen.add(b)
        if f["blocks"][b]["t"]["k"] == "return":
            bad = b
        st.extend(cfg.succ[b])
    key = f["path"] + "|symbol unset only with a diagnostic"
    if bad is None:
        res.add([ok("T1", key, where(f), "every return has either built a diagnostic or assigned self.symbol")])
    else:
        res.add([finding("T1", key, where(f), "Identifier::analyze can return a clean report without resolving the symbol: callers that skip their remaining children when `symbol` is None then accept a program whose children were never analysed")])


def s_depth(F, res):
    """S-DEPTH: a local expression is stored in the scope as a *clone* (Symbol::LocalExpr) and inlined by the lowering; the
    identifiers inside the clone are only resolved when a later pass re-tracks the expression after it was analysed.  A
    bounded number of such passes therefore resolves reference chains only up to that depth; beyond it the clone keeps an
    unresolved identifier although the report is clean.  Unless acceptance is made to depend on is_resolved() (or the passes
    run to a fix point), the analyze function with the pass loop is reported, keyed by how the pass count is determined."""
    SYMBOL = "tx3_lang::ast::Symbol"
    trackers = set()
    for f in F.fns.values():
        if f["crate"] != "tx3_lang" or is_derive(f):
            continue
        for bi, si, st in mir.stmts(f):
            rv = st["rv"]
            if rv["k"] == "agg" and rv.get("adt") == SYMBOL and rv.get("variant") == "LocalExpr" and not site_in_derive(st["exp"]):
                trackers.add(f["path"])
    if not trackers:
        raise BrokenCheck("no function builds Symbol::LocalExpr: anchor changed")
    n = 0
    for f0 in F.fns.values():
        if f0.get("impl_trait") != ANALYZABLE or f0.get("name") != "analyze" or is_derive(f0):
            continue

        def want(t, callee, _tr=trackers):
            if callee["crate"] != "tx3_lang" or callee.get("impl_trait") or callee.get("trait_default") or callee["path"] in _tr:
                return False
            return len(callee["blocks"]) <= 200
        _KEEP.append(want)
        f = mir.inline_calls(F, f0, want=want, depth=2)
        cfg = mir.CFG(f)
        du = mir.DefUse(f)
        loops = cfg.loops()
        for h, body in sorted(loops.items()):
            if not any(f["blocks"][b]["t"]["k"] == "call" and (f["blocks"][b]["t"].get("resolved") or f["blocks"][b]["t"].get("callee")) in trackers for b in body):
                continue
            # outermost loops only, and only pass loops: driven by an integer range / counter, not by a collection
            if any(h2 != h and body < b2 for h2, b2 in loops.items()):
                continue
            own = set(body)
            for h2, b2 in loops.items():
                if h2 != h and b2 < body:
                    own -= b2
            nexts = [(b, f["blocks"][b]["t"]) for b in own if f["blocks"][b]["t"]["k"] == "call" and f["blocks"][b]["t"].get("method") in ("next", "next_back")
                     and f["blocks"][b]["t"].get("trait") == "std::iter::Iterator"]
            how = None
            for b, t in nexts:
                ty = " ".join(t.get("gargs") or [])
                if "Range" not in ty:
                    how = "collection"
                    continue
                # the Range value: its end operand
                how = "computed"
                for o in mir.provenance(f, du, t["args"][0], transparent_extra=("std::iter::IntoIterator::into_iter",)):
                    if o.kind == "agg" and o.rv.get("adt", "").endswith("ops::Range") and len(o.rv["ops"]) == 2:
                        c = mir.op_const(o.rv["ops"][1])
                        if c is not None and "int" in c:
                            how = "literal %d" % c["int"]
                        else:
                            eo = mir.provenance(f, du, o.rv["ops"][1])
                            how = "computed (%s)" % ", ".join(sorted({x.callee.split("::")[-1] for x in eo if x.kind == "call"} or {"a variable"}))
            if how == "collection":
                continue
            if how is None:
                how = "counter / condition"
            n += 1
            # acceptance made to depend on resolution: is_resolved() consulted outside the loop
            guards = [bi for bi, t in mir.calls(f) if t.get("trait") == ANALYZABLE and t.get("method") == "is_resolved" and bi not in body]
            key = "%s|resolution depth of tracked local expressions|passes: %s" % (f0["path"], how)
            w = where(f0, f["blocks"][h]["t"].get("line"))
            if guards:
                res.add([ok("S-DEPTH", key, w, "the analysis consults is_resolved() after the passes")])
            else:
                res.add([finding("S-DEPTH", key, w, "local expressions are re-tracked and re-analysed a bounded number of times (%s) and nothing makes acceptance depend on is_resolved(): a chain of references between locals longer than the number of passes leaves an unresolved identifier inside the stored clone, the report is clean and the lowering fails with MissingAnalyzePhase" % how)])
    res.count("pass loops over tracked local expressions", n)
    if n == 0:
        # the passes may be driven by an iterator combinator (`(0..9).fold(scope, |s, _| pass(s, tx))`): no loop in the MIR of
        # the analyzer then; the depth rule has nothing to read and says so
        res.add([assumption("S-DEPTH", "tx3_lang::analyzing|pass loop over tracked local expressions", "crates/tx3-lang/src/analyzing.rs", "no loop re-tracks and re-analyses local expressions in the analyzer's own control flow (the passes may be driven by an iterator combinator): resolution depth not decided")])


_KEEP = []


NONE_KEEPING = ("filter", "map", "and_then", "as_ref", "as_deref", "cloned", "copied", "as_mut", "inspect", "zip", "xor_none", "flatten")


def s_typegate(F, res):
    """S-TYPEGATE: a validator of the analyzer that admits an expression by its `target_type()` does not admit one that has no
    type.  For every function of tx3_lang::analyzing that returns `Result<(), _>` and asks an expression for its target type:
    under the assumption that the answer is `None`, no path reaches `Ok(..)`.  Decided by walking the function's paths with the
    variant of every Option / Result local that derives from that answer tracked (`filter`, `map`, `and_then`, `as_ref` .. keep
    `None`; `ok_or` / `ok_or_else` turn it into `Err`; `unwrap_or*` ends the tracking; a switch on a tracked local takes only
    the known edge).  An untyped identifier (a type, alias, asset or function name) that gets through here is lowered later,
    where nothing can be done with it."""
    n = 0
    for p in sorted(F.fns):
        f = F.fns[p]
        if f["crate"] != "tx3_lang" or not p.startswith("tx3_lang::analyzing::") or f.get("derived") or f["def_kind"] == "Closure":
            continue
        if not f["locals"] or not f["locals"][0].startswith("std::result::Result<(),"):
            continue
        asks = [(bi, t) for bi, t in mir.calls(f) if (t.get("callee") or "").split("::")[-1] == "target_type" or (t.get("resolved") or "").endswith("::target_type")]
        if not asks:
            continue
        n += 1
        blocks = f["blocks"]
        bad = None
        for ab, at in asks:
            # state: local -> "None" | "Err" (a tracked local known to be in that variant)
            seen = set()
            stack = [(at["t"], frozenset({(at["dest"]["l"], "None")}))] if at.get("t") is not None else []
            while stack and bad is None:
                bi, st = stack.pop()
                if (bi, st) in seen or blocks[bi]["cleanup"]:
                    continue
                seen.add((bi, st))
                state = dict(st)
                b = blocks[bi]
                ret_ok = None
                for s_ in b["s"]:
                    lhs = s_["lhs"]
                    rv = s_["rv"]
                    if lhs["p"]:
                        continue
                    state.pop(lhs["l"], None)
                    if rv["k"] in ("use", "cast"):
                        pl = mir.op_place(rv["op"])
                        if pl is not None and not [q for q in pl["p"] if q[0] != "d"] and pl["l"] in state:
                            state[lhs["l"]] = state[pl["l"]]
                    elif rv["k"] == "ref" and not [q for q in rv["pl"]["p"] if q[0] != "d"] and rv["pl"]["l"] in state:
                        state[lhs["l"]] = state[rv["pl"]["l"]]
                    elif rv["k"] == "discr" and not [q for q in rv["pl"]["p"] if q[0] != "d"] and rv["pl"]["l"] in state:
                        state[("discr", lhs["l"])] = (state[rv["pl"]["l"]], rv.get("adt", ""))
                    elif rv["k"] == "agg" and lhs["l"] == 0 and rv.get("adt", "").endswith("::Result"):
                        ret_ok = rv.get("variant") == "Ok"
                        state[("ret",)] = "Ok" if ret_ok else "Err"
                    elif rv["k"] == "agg" and (rv.get("adt", "").endswith("::Option") or rv.get("adt", "").endswith("::Result")) and rv.get("variant") in ("None", "Some", "Ok", "Err"):
                        # a value built on this path with a known variant (`None => Some("unresolved identifier")`)
                        state[lhs["l"]] = rv["variant"]
                t = b["t"]
                k = t["k"]
                if k == "return":
                    if state.get(("ret",)) == "Ok" or (state.get(0) is None and state.get(("ret",)) is None and False):
                        bad = (ab, at)
                    continue
                if k == "call":
                    name = (t.get("callee") or "").split("::")[-1]
                    d = t["dest"]
                    a0 = mir.op_place(t["args"][0]) if t["args"] else None
                    src = state.get(a0["l"]) if a0 is not None and not [q for q in a0["p"] if q[0] != "d"] else None
                    if not d["p"]:
                        state.pop(d["l"], None)
                        if src == "None" and name in NONE_KEEPING and "Option" in (t.get("callee") or ""):
                            state[d["l"]] = "None"
                        elif src == "None" and name in ("ok_or", "ok_or_else"):
                            state[d["l"]] = "Err"
                        elif src == "Err" and name in ("map", "and_then", "as_ref") and "Result" in (t.get("callee") or ""):
                            state[d["l"]] = "Err"
                        elif src in ("None", "Err") and name == "branch":
                            state[d["l"]] = "Break"
                        elif d["l"] == 0 and name == "from_residual":
                            state[("ret",)] = "Err"
                    if t.get("t") is not None:
                        stack.append((t["t"], frozenset((kk, vv) for kk, vv in state.items() if not isinstance(vv, tuple)) | frozenset((kk, vv) for kk, vv in state.items() if isinstance(vv, tuple))))
                    continue
                if k == "switch":
                    pl = mir.op_place(t["discr"])
                    known = state.get(("discr", pl["l"])) if pl is not None else None
                    if known is not None:
                        var, adt = known
                        idx = {"None": 0, "Some": 1, "Ok": 0, "Err": 1, "Continue": 0, "Break": 1}.get(var)
                        tm = dict((a, b2) for a, b2 in t["targets"])
                        nxt = tm.get(idx, t["otherwise"])
                        if nxt is not None:
                            stack.append((nxt, frozenset(state.items())))
                        continue
                for nb in mir.block_succs(b):
                    stack.append((nb, frozenset(state.items())))
        key = "%s|an expression without a target type is not admitted" % p
        if bad is not None:
            res.add([finding("S-TYPEGATE", key, where(f, bad[1]["line"]), "the validator returns Ok(..) on a path where `target_type()` answered None: an identifier that resolves to something without a type (a type or alias name, an asset, a built-in function) is accepted by the analyzer and reaches the lowering, which has no case for it")])
        else:
            res.add([ok("S-TYPEGATE", key, where(f), "with `target_type()` = None every path ends in Err(..)")])
    res.count("type-gated validators", n)


def s_props(F, res):
    """S-PROPS: the fields the analyzer puts in scope for `operand.field` are the ones the lowering can index.  The lowering
    resolves a property with `Type::property_index`, which goes through `Type::properties()` (fields of single-case types and
    of the built-in types only); the analyzer's `track_record_fields_for_type` - found by role: the function with a `&Type`
    parameter that calls `track_record_field` - must take its fields from an iteration over that same `properties()` call.
    Fields taken from the type definition's cases directly make `x.f` analyse cleanly for a multi-case variant, and the
    lowering then fails with InvalidProperty."""
    TY = "tx3_lang::ast::Type"
    key = "tx3_lang::analyzing|property scope = Type::properties()"
    fns = []
    for p, f in F.fns.items():
        if f["crate"] != "tx3_lang" or f.get("derived") or f["def_kind"] == "Closure" or not p.startswith("tx3_lang::analyzing::"):
            continue
        if not any(f["locals"][i] == "&" + TY for i in range(1, f.get("argc", 0) + 1)):
            continue
        if any((t.get("callee") or "").endswith("::track_record_field") for b in with_closures(F, f) for _, t in mir.calls(b)):
            fns.append(f)
    res.count("property-scope builders", len(fns))
    if not fns:
        res.add([assumption("S-PROPS", key, "crates/tx3-lang/src/analyzing.rs", "no function with a `&Type` parameter calls track_record_field: how property scopes are built is not decided")])
        return
    PASS = ("std::iter::IntoIterator::into_iter", "std::iter::Iterator::next", "core::slice::<impl [T]>::iter", "std::ops::Deref::deref", "std::ops::Try::branch",
            "std::iter::Iterator::map", "std::iter::Iterator::enumerate", "std::vec::Vec::<T, A>::as_slice")
    pi = F.fns.get(TY + "::property_index")
    if pi is not None and not any((t.get("callee") or "").endswith("::properties") for b in with_closures(F, pi) for _, t in mir.calls(b)):
        res.add([assumption("S-PROPS", key, where(pi), "Type::property_index no longer goes through Type::properties(): which accessor the lowering indexes with is not decided")])
        return
    for f in fns:
        du = mir.DefUse(f)
        bad = []
        n = 0
        for b in with_closures(F, f):
            db = du if b is f else mir.DefUse(b)
            for bi, t in mir.calls(b):
                if not (t.get("callee") or "").endswith("::track_record_field") or len(t["args"]) < 2:
                    continue
                n += 1
                org = mir.provenance(b, db, t["args"][1], transparent_extra=PASS)
                srcs = []
                for o in org:
                    if o.kind == "agg" and o.rv.get("ops"):
                        for op_ in o.rv["ops"]:
                            srcs += mir.provenance(b, db, op_, transparent_extra=PASS + ("tx3_lang::ast::Identifier::new", "std::convert::AsRef::as_ref", "std::string::String::as_str"))
                    elif o.kind == "call" and (o.callee or "").split("::")[-1] == "new" and o.term["args"]:
                        for a_ in o.term["args"]:
                            srcs += mir.provenance(b, db, a_, transparent_extra=PASS + ("tx3_lang::ast::Identifier::new", "std::convert::AsRef::as_ref", "std::string::String::as_str", "std::ops::Deref::deref"))
                    else:
                        srcs.append(o)
                # inside a closure handed to an adaptor (`ty.properties().into_iter().for_each(|(name, subty)| ..)`): the
                # closure's parameter is an element of what the adaptor's receiver iterates over
                if b is not f:
                    resolved = []
                    for x in srcs:
                        if x.kind == "arg" and x.local >= 2:
                            hit = None
                            for hb in with_closures(F, f):
                                dh = du if hb is f else mir.DefUse(hb)
                                for _, t2 in mir.calls(hb):
                                    if b["path"] in (t2.get("fnrefs") or ()) and t2["args"]:
                                        for o2 in mir.provenance(hb, dh, t2["args"][0], transparent_extra=PASS):
                                            if o2.kind == "call" and (o2.callee or "").endswith("::properties"):
                                                hit = o2
                            resolved.append(hit if hit is not None else x)
                        else:
                            resolved.append(x)
                    srcs = resolved
                from_props = [x for x in srcs if x.kind == "call" and (x.callee or "").endswith("::properties")]
                other = [x for x in srcs if not (x.kind == "call" and (x.callee or "").endswith("::properties")) and x.kind != "const"]
                if not from_props or other:
                    bad.append((b, t["line"], other))
        k2 = "%s|property scope = Type::properties()" % f["path"]
        if bad:
            b, line, other = bad[0]
            res.add([finding("S-PROPS", k2, where(b, line), "a field is put in scope for `operand.field` that does not come out of `Type::properties()` (%s): the analyzer accepts properties the lowering's `property_index` cannot resolve (the fields of a multi-case variant, say), so a clean program fails to lower with InvalidProperty" % (", ".join(sorted({repr(x)[:60] for x in other})) or "no properties() call feeds it"))])
        else:
            res.add([ok("S-PROPS", k2, where(f), "%d track_record_field call(s), each fed from an iteration over Type::properties()" % n)])


def run(ctx):
    F = ctx.F
    res = Result("C13")
    res.rule("COVER", "every failure site of the lowering is discharged structurally or covered by a (re-checked) analyzer diagnostic")
    res.rule("T1", "every reference-bearing AST field is analysed by Analyzable::analyze")
    res.rule("S-DEPTH", "a bounded number of re-tracking passes over local expressions must be backed by an is_resolved() check: otherwise reference chains deeper than the bound are accepted but cannot be lowered")
    res.rule("FACADE", "Workspace::lower lowers only after a clean analysis and only existing transactions")
    cg = CallGraph(F)
    cover(F, res, cg)
    t1_analyze(F, res)
    s_depth(F, res)
    facade(F, res)
    res.rule("S-PROPS", "the fields the analyzer puts in scope for a typed operand are the ones Type::properties() / property_index expose to the lowering")
    s_props(F, res)
    res.rule("S-TYPEGATE", "a validator that admits an expression by its target type rejects one that has none")
    s_typegate(F, res)
    return res
