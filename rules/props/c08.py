"""C08 -- redeemers are attached to the item they were written for.

Static clauses:
  KEYS     directive names and keys agree between the lowering (producer) and the Cardano compiler (consumer): every name a
           consumer filters on is produced, every produced directive is consumed, every key a consumer reads is produced and
           every produced key is read by a consumer of that name
  S-SORTED the list searched with `position` to compute a redeemer index is sorted (dominating sort call, or a BTreeMap
           iteration with key projection) -- the index then follows the ledger's canonical order
  S-ALL    redeemer builders do not truncate the item list (`first` / `next` / `take`) before building: one redeemer per UTxO of
           a script input, one per minted policy of a block
  SIB      mint and burn redeemers are built by the same function over their own lists
  CHAIN    every function of the crate returning Vec<Redeemer> (the list builders, by role) is called where the redeemer map
           is assembled and the result of each call flows into the chain / extend / loop that fills the map
  TAGS     each builder uses the redeemer tag of its purpose
  R-CTX    the lowering of a redeemer-carrying block hands its fields the context it was given: no block-level
           `enter_*_expr()` (a policy name in a redeemer would be read as a script address)
  (forms)  a Redeemer built by a generic builder whose tag is a parameter is judged per caller (builder and index closure
           inlined); a searched list that is a field of a crate type is sorted by construction when every aggregate of the type
           wraps a list with a dominating ledger-order sort and the field is never mutably borrowed / assigned elsewhere
  (sorts)  explicit comparators are read (`a.f.cmp(&b.f).then_with(|| a.g.cmp(&b.g))`: same field, first parameter first,
           ledger-ordered types); a list captured by a closure is judged where the closure is created
  S-ALL (2) the items redeemers are built for are not collapsed by a key (a map by policy) before their redeemers are looked at
Not decided: equality of redeemer data with the template expression (C09/C01); that the ledger's canonical order is
(txid, index) / bytewise policy / reward-account order (domain fact, trusted).
"""
import re

from .. import mir, roles, e5_keys as e5
from ..common import CallGraph, call_matches, is_derive, site_in_derive, with_closures
from ..engine import Result, ok, finding, assumption, where
from ..facts import BrokenCheck

META = {
    "level": "other",
    "explanation": (
        "Table equality between two places in the source (directive names/keys emitted by tx3-lang's IntoLower impls vs the "
        "string literals the Cardano compiler filters on and looks up), read from MIR constants; a three-valued sortedness "
        "rule on the slices searched by position(); a no-truncation rule on the redeemer builders; sibling, chaining and tag "
        "rules. These hold for every template or for none - the tests only exercise the example programs."),
    "trusted_base": ["rustc MIR, driver", "ledger canonical orders (inputs by (txid, index); policies and reward accounts bytewise)"],
    "not_decided": ["equality of redeemer data with the template expression", "ex-units"],
}

C = "tx3_cardano::compile::"


def keys(F, res):
    P = e5.producers(F)
    Cn = e5.consumers(F)
    res.count("directive producers", len(P))
    res.count("directive consumers", len(Cn))
    res.floor("directive producers", len(P), 6)
    res.floor("directive consumers", len(Cn), 6)
    for n, c in sorted(Cn.items()):
        f0 = sorted(c["sites"])[0]
        w = "%s:%s" % (f0[0].replace("/repo/", ""), f0[1])
        key = "consumer `%s` in %s" % (n, ",".join(sorted(x.split("::")[-1] for x in c["fns"])))
        if n not in P:
            res.add([finding("KEYS", key, w, "the compiler selects directives named `%s`, but the lowering never emits that name (it emits %s): this code path is dead and what it builds is missing from every transaction" % (n, sorted(P)))])
            continue
        missing = c["keys"] - P[n]["keys"]
        if missing:
            res.add([finding("KEYS", key, w, "the compiler reads keys %s of `%s`, which the lowering never writes (it writes %s)" % (sorted(missing), n, sorted(P[n]["keys"])))])
        else:
            res.add([ok("KEYS", key, w, "name produced; keys read %s are all produced" % sorted(c["keys"]))])
    for n, p in sorted(P.items()):
        w = "%s:%s" % (p["file"].replace("/repo/", ""), p["line"])
        key = "producer `%s`" % n
        if n not in Cn:
            res.add([finding("KEYS", key, w, "the lowering emits directive `%s` but no compiler code selects it: the block is silently ignored" % n)])
            continue
        unread = p["keys"] - Cn[n]["keys"]
        if unread:
            res.add([finding("KEYS", key, w, "keys %s of `%s` are written by the lowering but never read by the code that handles `%s`" % (sorted(unread), n, n))])
        else:
            res.add([ok("KEYS", key, w, "consumed; every key %s is read" % sorted(p["keys"]))])


SORT_RE = re.compile(r"::(sort|sort_by|sort_by_key|sort_unstable|sort_unstable_by|sort_unstable_by_key|sort_by_cached_key)$")


ORD_ATOM = re.compile(r"^(u8|u16|u32|u64|u128|usize|i8|i16|i32|i64|i128|isize|pallas::ledger::pallas_primitives::Hash<\d+>|pallas::crypto::hash::Hash<\d+>|pallas_crypto::hash::Hash<\d+>|\[u8\]|\[u8; \d+\]|std::vec::Vec<u8>|pallas::codec::utils::Bytes|pallas::ledger::pallas_primitives::Bytes|pallas::ledger::pallas_primitives::TransactionInput|pallas::ledger::pallas_primitives::conway::TransactionInput)$")


def split_tuple(t):
    out, depth, cur = [], 0, ""
    for ch in t:
        if ch in "(<[":
            depth += 1
        elif ch in ")>]":
            depth -= 1
        if ch == "," and depth == 0:
            out.append(cur.strip())
            cur = ""
        else:
            cur += ch
    if cur.strip():
        out.append(cur.strip())
    return out


def ledger_order(ty):
    """does the natural Ord of `ty` coincide with the ledger's canonical order of the item it identifies?  True for
    integers, hashes and byte strings (numeric / bytewise) and for tuples and references of those; False for textual
    renderings (String/&str: "…#10" < "…#2") and for anything unknown."""
    ty = ty.strip()
    while ty.startswith("&"):
        ty = re.sub(r"^&('\w+ )?(mut )?", "", ty).strip()
    if ty.startswith("(") and ty.endswith(")"):
        parts = split_tuple(ty[1:-1])
        return bool(parts) and all(ledger_order(x) for x in parts)
    return bool(ORD_ATOM.match(ty))


def _comparator_order(F, t):
    """`sort_by(|a, b| a.f.cmp(&b.f).then_with(|| a.g.cmp(&b.g)))`: (ok, description) when the comparator is a lexicographic
    chain of `cmp` calls, each between the same field of the first and of the second parameter (ascending) on types whose
    natural order is the ledger's; (False, why) when an operand pair is swapped or the compared fields differ; (None, ..) when
    the comparator has another shape."""
    cl = [F.fns[c] for c in t.get("fnrefs") or () if c in F.fns]
    if len(cl) != 1:
        return None, "custom comparator"
    C = cl[0]
    duC = mir.DefUse(C)
    found = []
    bodies = [(C, None)]
    for _, _, st in mir.stmts(C):
        if st["rv"]["k"] == "agg" and st["rv"].get("closure") in F.fns:
            bodies.append((F.fns[st["rv"]["closure"]], st["rv"]["ops"]))
    for B, capt in bodies:
        duB = mir.DefUse(B)
        for bi, t2 in mir.calls(B):
            c2 = t2.get("callee") or ""
            last = c2.split("::")[-1]
            if last in ("then", "then_with", "deref", "borrow", "as_ref", "clone"):
                continue
            if last not in ("cmp",) or len(t2["args"]) != 2:
                return None, "custom comparator (calls `%s`)" % last
            sides = []
            for a in t2["args"]:
                side, fld = None, None
                for o in mir.provenance(B, duB, a):
                    if o.kind != "arg":
                        continue
                    proj = [x for x in o.proj if x.startswith(".") and not x[1:].isdigit()]
                    if capt is None:
                        side = {2: "a", 3: "b"}.get(o.local)
                        fld = tuple(proj)
                    elif o.local == 1:
                        idx = [x for x in o.proj if x.startswith(".") and x[1:].isdigit()]
                        if idx and int(idx[0][1:]) < len(capt):
                            for oo in mir.provenance(C, duC, capt[int(idx[0][1:])]):
                                if oo.kind == "arg" and oo.local in (2, 3):
                                    side = {2: "a", 3: "b"}[oo.local]
                        fld = tuple(proj)
                sides.append((side, fld))
            ty = (t2.get("gargs") or ["?"])[0]
            found.append((sides, ty, t2["line"]))
    if not found:
        return None, "custom comparator"
    desc = []
    for sides, ty, line in found:
        (s1, f1), (s2, f2) = sides
        if s1 is None or s2 is None:
            return None, "custom comparator"
        name = "".join(f1 or ()) or "the element"
        if f1 != f2:
            return False, "a comparator that compares `%s` of one element with `%s` of the other" % ("".join(f1 or ()), "".join(f2 or ()))
        if (s1, s2) == ("b", "a"):
            return False, "a comparator that orders by `%s` *descending* (operands swapped: b%s.cmp(a%s)), while the ledger numbers the items in ascending order" % (name, name, name)
        if (s1, s2) != ("a", "b"):
            return False, "a comparator that compares an element with itself on `%s`" % name
        if not ledger_order(ty):
            return False, "a comparator on `%s` of type `%s`, whose natural order is not the ledger's" % (name, ty)
        desc.append(name)
    return True, "comparator ascending on %s" % ", then ".join(desc)


def sort_order_ok(t, F=None):
    """the order a recognised sort call establishes: (ok, description)"""
    c = (t.get("callee") or "").split("::")[-1]
    g = t.get("gargs") or []
    if c in ("sort_by", "sort_unstable_by") and F is not None:
        return _comparator_order(F, t)
    if c in ("sort", "sort_unstable"):
        ty = g[0] if g else "?"
        return ledger_order(ty), "natural order of `%s`" % ty
    if c in ("sort_by_key", "sort_unstable_by_key", "sort_by_cached_key"):
        ty = g[1] if len(g) > 1 else "?"
        return ledger_order(ty), "order of the key `%s`" % ty
    return None, "custom comparator"


def sortedness(F, f, du, cfg, pos_bb, slice_op, depth=0):
    """is the collection searched at pos_bb sorted?  returns (bool, reason)"""
    # (a) a dominating sort call on the same Vec
    target = mir.provenance(f, du, slice_op, transparent_extra=("core::slice::<impl [T]>::iter", "std::vec::Vec::<T, A>::as_slice"))
    roots = set()
    for o in target:
        if o.kind in ("local", "call", "arg"):
            roots.add(repr(o))
    for bi, t in mir.calls(f):
        c = t.get("callee") or ""
        if SORT_RE.search(c) and cfg.dominates(bi, pos_bb):
            so = {repr(o) for o in mir.provenance(f, du, t["args"][0], transparent_extra=("std::ops::DerefMut::deref_mut",))}
            if so & roots:
                good, what = sort_order_ok(t, F)
                if good is False and c.split("::")[-1] in ("sort", "sort_unstable"):
                    # the element type is a type parameter of this function (`SortedKeys::<K>::gather`): the order is the one
                    # of the type each caller instantiates it with
                    ty = (t.get("gargs") or ["?"])[0]
                    if ty in (f.get("generics") or []):
                        from ..common import callers_index
                        insts = []
                        for g, ct in callers_index(F).get(f["path"], []):
                            sub = mir._generic_subst(f, ct)
                            if ty in sub:
                                insts.append(sub[ty])
                        if insts and all(ledger_order(x) for x in insts):
                            return True, "a dominating `%s` on the same vector (natural order of %s, the types `%s` is instantiated with)" % (c.split("::")[-1], " / ".join("`%s`" % x for x in sorted(set(insts))), ty)
                        if insts:
                            what = "natural order of `%s` (instantiated with %s)" % (ty, ", ".join(sorted(set(insts))))
                if good is False and what.startswith("a comparator"):
                    return False, "sorted by %s" % what
                if good is None:
                    return False, "sorted with a %s whose order is not established" % what
                if good is False:
                    return False, "sorted by the %s, which is not the ledger's numeric/bytewise order of the item (a textual rendering orders `#10` before `#2`)" % what
                return True, "a dominating `%s` on the same vector (%s)" % (c.split("::")[-1], what)
    # (b) collected from a BTreeMap iteration
    for o in target:
        if o.kind == "call" and o.callee == "std::iter::Iterator::collect":
            g = o.term.get("gargs") or []
            it = g[0] if g else ""
            if ("btree_map::" in it or "std::collections::BTreeMap<" in it or "btree::map" in it) and "std::vec::IntoIter" not in it and "std::slice::Iter" not in it and "hash_map" not in it:
                return True, "collected from a BTreeMap iteration (keys in order)"
    # (d) the list is a field of a type of the crate that is only ever built around a sorted list (`SortedInputs::of(body)` sorts,
    # then wraps): every construction of that type is judged at its site, and nothing borrows the field mutably elsewhere
    for base, fld in sorted(_adt_fields_on_path(F, f, du, slice_op)):
        if True:
            adt = F.adts.get(base)
            if adt is None or len(adt["variants"]) != 1:
                continue
            sites, bad = 0, None
            for g in F.fns.values():
                if g["crate"] != "tx3_cardano" or is_derive(g):
                    continue
                dg = cg = None
                for bj, sj, st in mir.stmts(g):
                    rv = st["rv"]
                    if rv["k"] == "agg" and rv.get("adt") == base and fld in [str(x) for x in rv.get("fields", [])]:
                        sites += 1
                        dg = dg or mir.DefUse(g)
                        cg = cg or mir.CFG(g)
                        okk, why = sortedness(F, g, dg, cg, bj, rv["ops"][[str(x) for x in rv["fields"]].index(fld)], depth + 1)
                        if not okk:
                            bad = "%s builds a %s around a list that is not in ledger order: %s" % (g["path"].split("::")[-1], base.split("::")[-1], why)
                    if rv["k"] in ("ref", "rawptr") and rv.get("mut") and any(q[0] == "f" and q[2] == base and str(q[1]) == fld for q in rv["pl"]["p"]):
                        bad = "%s borrows %s.%s mutably after construction" % (g["path"].split("::")[-1], base.split("::")[-1], fld)
                    if any(q[0] == "f" and q[2] == base and str(q[1]) == fld for q in st["lhs"]["p"]):
                        bad = "%s assigns to %s.%s after construction" % (g["path"].split("::")[-1], base.split("::")[-1], fld)
            if bad:
                return False, bad
            if sites:
                return True, "field of %s, which is built only around a sorted list (%d construction site(s) judged)" % (base.split("::")[-1], sites)
    # (e) the list is a variable a closure captured: judged in the enclosing function, at the place the closure is created
    if f.get("def_kind") == "Closure" and f.get("owner") in F.fns and depth < 3:
        ups = [o for o in target if o.kind == "arg" and o.local == 1 and any(x.startswith(".") and x[1:].isdigit() for x in o.proj)]
        if ups and len(ups) == len(target):
            own = F.fns[f["owner"]]
            d_o, c_o = mir.DefUse(own), mir.CFG(own)
            idx = int([x for x in ups[0].proj if x.startswith(".") and x[1:].isdigit()][0][1:])
            for bj, sj, st in mir.stmts(own):
                if st["rv"]["k"] == "agg" and st["rv"].get("closure") == f["path"] and idx < len(st["rv"]["ops"]):
                    okk, why = sortedness(F, own, d_o, c_o, bj, st["rv"]["ops"][idx], depth + 1)
                    return okk, why + " (captured by the closure from %s)" % own["path"].split("::")[-1]
    # (c) the slice is a parameter: every caller must pass a sorted slice
    if depth < 2:
        params = [o for o in target if o.kind == "arg"]
        if params and len(params) == len(target):
            argn = params[0].local
            callers = []
            for g in F.fns.values():
                if g["crate"] != "tx3_cardano" or is_derive(g):
                    continue
                for bj, t in mir.calls(g):
                    if (t.get("resolved") or t.get("callee")) == f["path"]:
                        callers.append((g, bj, t))
            if callers:
                reasons = []
                for g, bj, t in callers:
                    okk, why = sortedness(F, g, mir.DefUse(g), mir.CFG(g), bj, t["args"][argn - 1], depth + 1)
                    if not okk:
                        return False, "caller %s passes a slice that is not in ledger order: %s" % (g["path"].split("::")[-1], why)
                    reasons.append("%s: %s" % (g["path"].split("::")[-1], why))
                return True, "; ".join(reasons)
    return False, "no dominating sort and not a BTreeMap iteration"


def _adt_fields_on_path(F, f, du, op):
    """(adt, field) of the crate's own types whose field is projected on the way back from `op` (through copies, borrows,
    iter()/deref()/as_slice())"""
    out = set()
    pl0 = mir.op_place(op)
    st = [pl0] if pl0 is not None else []
    seen = set()
    PASS = ("core::slice::<impl [T]>::iter", "std::vec::Vec::<T, A>::as_slice", "std::ops::Deref::deref", "std::iter::IntoIterator::into_iter")
    while st:
        pl = st.pop()
        for q in pl["p"]:
            if q[0] == "f" and len(q) > 2 and str(q[2]).startswith("tx3_cardano") and str(q[2]) in F.adts:
                out.add((str(q[2]), str(q[1])))
        if pl["l"] in seen:
            continue
        seen.add(pl["l"])
        for d in du.defs.get(pl["l"], []):
            if d[0] == "call":
                if (d[3].get("callee") or "") in PASS and d[3]["args"]:
                    p2 = mir.op_place(d[3]["args"][0])
                    if p2 is not None:
                        st.append(p2)
            else:
                rv = d[3]["rv"]
                p2 = mir.op_place(rv.get("op")) if rv["k"] in ("use", "cast") else (rv.get("pl") if rv["k"] in ("ref", "rawptr") else None)
                if p2 is not None:
                    st.append(p2)
    return out


TAG_FIELD = {"Spend": "inputs", "Mint": "mint", "Reward": "withdrawals", "Cert": "certificates", "Vote": "voting_procedures", "Propose": "proposal_procedures"}


def _soft(F, res, rule, name):
    """a function the named clauses are about; when a refactor removed it the clause is not decidable by name any more - the
    role-based rule R-INDEX (which needs no names) still decides the core of the property"""
    f = F.fns.get(C + name)
    if f is None:
        res.add([assumption(rule, "%s%s|anchor" % (C, name), "crates/tx3-cardano/src/compile/mod.rs", "function %s does not exist on this tree: this named clause is skipped (R-INDEX decides the indices by role)" % name)])
    return f


def r_index(F, res):
    """Every Redeemer value that is built must take its index from the place of its item in the *compiled body's* collection for
    its tag (Spend: body.inputs, Mint: body.mint, Reward: body.withdrawals) - the ledger numbers every item of that collection,
    also those that carry no redeemer - and must say so in its tag.  Found by role: any aggregate of pallas' Redeemer."""
    from .. import e9_attrib as e9
    from ..common import callers_index
    n = 0

    def judge(f, s, key, w):
        rv = s["rv"]
        du = mir.DefUse(f)
        tags = set()
        torg = mir.provenance(f, du, rv["ops"][rv["fields"].index("tag")])
        for o in torg:
            if o.kind == "agg" and o.rv.get("adt", "").endswith("RedeemerTag"):
                tags.add(o.rv["variant"])
        if not tags and torg and all(o.kind == "arg" for o in torg):
            return None      # the tag is a parameter: judged where the builder is called
        seen_calls = set()
        flds = e9.slice_adt_fields(F, f, rv["ops"][rv["fields"].index("index")], "TransactionBody", calls_out=seen_calls)
        if len(tags) != 1:
            res.add([finding("R-INDEX", key, w, "the redeemer's tag is not a single constant (%s)" % sorted(tags))])
            return True
        tag = next(iter(tags))
        want = TAG_FIELD.get(tag)
        # ... and the item it looks for comes from the very block that carries the redeemer: the slices of `index` and of `data`
        # read fields of the same template item (an Input, a Mint block, a withdrawal directive)
        ITEMS = ("::v1beta0::Input", "::v1beta0::Mint", "::v1beta0::AdHocDirective")
        data_op = rv["ops"][rv["fields"].index("data")] if "data" in rv["fields"] else None
        if data_op is not None and want in flds:
            d_items = {a for a in ITEMS if e9.slice_adt_fields(F, f, data_op, a)}
            i_items = {a for a in ITEMS if e9.slice_adt_fields(F, f, rv["ops"][rv["fields"].index("index")], a)}
            if d_items and not (d_items & i_items):
                res.add([finding("R-INDEX", key, w, "the redeemer's data comes from a block of the template, but the item its index is looked up for does not come from that block (no field of the block is read on the way to the index - e.g. the n-th body input is paired with the n-th block by position): as soon as a block resolves to several UTxOs, or to none, the redeemer is attached to another item")])
                return True
        SEARCH = {"position", "rposition", "binary_search", "binary_search_by", "binary_search_by_key", "partition_point", "find", "find_map", "range"}
        if want in flds and not (seen_calls & SEARCH):
            res.add([finding("R-INDEX", key, w, "a redeemer tagged %s takes a number derived from compiled_body.%s as its index without *searching* that collection for its own item (no position / binary search on the way: an enumeration counter or the position of another list is used): the redeemer is attached to whatever sits at that place" % (tag, want))])
        elif want in flds:
            res.add([ok("R-INDEX", key, w, "tag %s; the index is computed from compiled_body.%s" % (tag, want))])
        elif flds:
            res.add([finding("R-INDEX", key, w, "a redeemer tagged %s takes its index from compiled_body.%s instead of compiled_body.%s" % (tag, "/".join(sorted(flds)), want))])
        else:
            res.add([finding("R-INDEX", key, w, "a redeemer tagged %s takes its index from something other than the compiled body's `%s` collection (e.g. a count among the items that have redeemers): the ledger numbers every item of body.%s, so the redeemer points at another item as soon as one without redeemer sorts before it" % (tag, want, want))])
        return True
    for p in sorted(F.fns):
        f = F.fns[p]
        if f["crate"] != "tx3_cardano" or f.get("derived"):
            continue
        k = 0
        for bi, si, s in mir.stmts(f):
            rv = s["rv"]
            if not (rv["k"] == "agg" and rv.get("adt", "").endswith("::Redeemer") and "index" in rv.get("fields", [])):
                continue
            n += 1
            k += 1
            owner = f.get("owner") or p
            key = "%s|redeemer #%d: index counts the body's items of its tag" % (owner, k)
            w = where(f, s["line"])
            if judge(f, s, key, w) is not None:
                continue
            # a generic builder (`redeemer_with_tag(tag, payload, locate)`): each caller is judged with the builder - and the
            # closure it hands over for the index - inlined
            callers = [(g, ct) for g, ct in callers_index(F).get(p, []) if g["crate"] == "tx3_cardano" and not is_derive(g)]
            if not callers or f["def_kind"] == "Closure":
                res.add([finding("R-INDEX", key, w, "the redeemer's tag is not a single constant (it is a parameter of a function nothing calls)")])
                continue
            for g, ct in callers:
                def want_(t_, callee, p=p):
                    return callee["path"] == p
                _KEEP.append(want_)
                hi = mir.inline_calls(F, g, want=want_, depth=2)
                m = 0
                for bj, sj, s2 in mir.stmts(hi):
                    rv2 = s2["rv"]
                    if rv2["k"] == "agg" and rv2.get("adt", "").endswith("::Redeemer") and "index" in rv2.get("fields", []) and hi["blocks"][bj].get("inl") == p:
                        m += 1
                        k2 = "%s|redeemer built through %s: index counts the body's items of its tag" % (g.get("owner") or g["path"], p.split("::")[-1])
                        if judge(hi, s2, k2, where(g, ct["line"])) is None:
                            res.add([finding("R-INDEX", k2, where(g, ct["line"]), "the redeemer's tag is not a single constant (handed through more than one level of builders)")])
                if m == 0:
                    res.add([finding("R-INDEX", "%s|redeemer built through %s" % (g["path"], p.split("::")[-1]), where(g, ct["line"]), "the builder could not be inlined at this call: not judged")])
    res.count("Redeemer constructions", n)
    res.floor("Redeemer constructions", n, 1)


def _redeemers_root(F):
    """the function whose result becomes WitnessSet.redeemer (historically compile_redeemers)"""
    return roles.feeder_of(F, roles.builder_of(F, "tx3_cardano", "::WitnessSet"), "::WitnessSet", "redeemer")


def s_sorted(F, res):
    """Every `position()` search in the closure of compile_redeemers (where the redeemer indices come from) runs over a list
    that is sorted in the ledger's order.  Found by role; a search that sits in a helper taking the list as a parameter
    (`fn sorted_position(list, x)`) is judged in each caller, with the helper inlined."""
    from ..common import callers_index
    root = _redeemers_root(F)
    reach = CallGraph(F, callbacks=False).reachable([root])
    n = 0

    def is_pos(t):
        return (t.get("callee") or "").endswith("Iterator::position") or (t.get("resolved") or "").endswith("::position")
    for p in sorted(reach):
        f = F.fns.get(p)
        if f is None or f["crate"] != "tx3_cardano" or f.get("derived") or f["def_kind"] == "Closure":
            continue
        # only searches that produce a redeemer index: the function returns the u32 index, or builds the Redeemer itself
        builds = any(s_["rv"]["k"] == "agg" and s_["rv"].get("adt", "").endswith("::Redeemer") for _, _, s_ in mir.stmts(f))
        if not (builds or re.search(r"\bu32\b", f["locals"][0]) or re.search(r"\busize\b", f["locals"][0])):
            continue
        # the crate's small helpers inlined (`sorted_unique(keys)`: the sort sits in the helper); only the searches of the
        # function's own blocks are judged here, a helper's own search is judged where the helper is
        f0 = f
        f = mir.inline_calls(F, f0, want=_small_helpers, depth=2)
        du = mir.DefUse(f)
        cfg = mir.CFG(f)
        for bi, t in mir.calls(f):
            if not is_pos(t) or f["blocks"][bi].get("inl"):
                continue
            n += 1
            key = "%s|searched list is sorted" % f["path"]
            src = mir.provenance(f, du, t["args"][0], transparent_extra=("core::slice::<impl [T]>::iter", "std::iter::IntoIterator::into_iter", "std::ops::Deref::deref"))
            if src and all(o.kind == "arg" for o in src) and callers_index(F).get(p):
                # judged in the callers
                for caller, ct in callers_index(F)[p]:
                    if caller["path"] not in reach:
                        continue

                    def want(t_, callee, p=p):
                        # the searching helper, and the crate's small helpers next to it (`sorted_unique(keys)`)
                        return callee["path"] == p or _small_helpers(t_, callee)
                    _KEEP.append(want)
                    hi = mir.inline_calls(F, caller, want=want, depth=2)
                    dh, ch = mir.DefUse(hi), mir.CFG(hi)
                    for bj, t2 in mir.calls(hi):
                        if is_pos(t2) and hi["blocks"][bj].get("inl") == p:
                            okk, why = sortedness(F, hi, dh, ch, bj, t2["args"][0])
                            k2 = "%s|searched list is sorted" % caller["path"]
                            if okk:
                                res.add([ok("S-SORTED", k2, where(caller, ct["line"]), why + " (search in helper %s)" % p.split("::")[-1])])
                            else:
                                res.add([finding("S-SORTED", k2, where(caller, ct["line"]), "the list searched for the redeemer index is not sorted (%s): the index does not follow the ledger's canonical order" % why)])
                continue
            okk, why = sortedness(F, f, du, cfg, bi, t["args"][0])
            if okk:
                res.add([ok("S-SORTED", key, where(f, t["line"]), why)])
            else:
                res.add([finding("S-SORTED", key, where(f, t["line"]), "the list searched for the redeemer index is not sorted (%s): the index does not follow the ledger's canonical order" % why)])
    if n == 0:
        res.add([finding("S-SORTED", root + "|index searches", where(F.fns[root]), "no position() search in the closure of compile_redeemers: the redeemer indices are not computed from the body's item order")])
    res.count("position() searches in the redeemer closure", n)


_KEEP = []


def _small_helpers(t, callee):
    return callee["crate"] == "tx3_cardano" and not callee.get("impl_trait") and not callee.get("trait_default") and len(callee["blocks"]) <= 40 and \
        not any((t2.get("callee") or "").endswith("Iterator::position") for _, t2 in mir.calls(callee))


def s_all(F, res):
    """No function in the closure of compile_redeemers may truncate an item list (`first`/`last`/`take`/`nth`, or a `next()`
    outside a for-loop): a redeemer is owed to every UTxO of a script input and to every policy of a mint/burn block.  Found by
    role (call-graph closure), keyed by the function that truncates."""
    root = _redeemers_root(F)
    cg = CallGraph(F, callbacks=False)
    reach = cg.reachable([root])
    n = 0
    hit = False
    for p in sorted(reach):
        f = F.fns.get(p)
        if f is None or f["crate"] != "tx3_cardano" or f.get("derived"):
            continue
        n += 1
        trunc = []
        for bi, t in mir.calls(f):
            c = t.get("callee") or ""
            if re.search(r"(core::slice::<impl \[T\]>::(first|last)|std::iter::Iterator::(take|nth|last)|std::iter::Iterator::next)$", c):
                if c.endswith("Iterator::next") and "ForLoop" in t.get("exp", ""):
                    continue
                trunc.append((c.split("::")[-1], t["line"]))
        if trunc:
            hit = True
            owner = f.get("owner") or p
            res.add([finding("S-ALL", "%s|no truncation" % owner, where(f, trunc[0][1]), "%s takes only `%s()` of an item list while building redeemers: the remaining items (UTxOs of the input / policies of the block) get no redeemer" % (owner.split("::")[-1], trunc[0][0]))])
    # ... nor collapse it by a key: blocks (or items) collected into a map / set under a key that is only a part of them - the
    # policy of a mint / burn block, say - lose every element but the last per key *before* their redeemers are looked at, so a
    # block's redeemer vanishes when a later block on the same key has none
    from ..common import keyed_collapses
    for p in sorted(reach):
        f = F.fns.get(p)
        if f is None or f["crate"] != "tx3_cardano" or f.get("derived") or not p.startswith(C):
            continue
        owner = f.get("owner") or p
        # only the functions that build Redeemer values (or their closures): the final map of redeemers by (tag, index) and
        # the index helpers' sorted key lists are not collapses of items
        fam = [g for g in F.fns.values() if (g.get("owner") or g["path"]) == owner]
        if not any(s_["rv"]["k"] == "agg" and s_["rv"].get("adt", "").endswith("::Redeemer") for g in fam for _, _, s_ in mir.stmts(g)):
            continue
        cols = keyed_collapses(F, f)
        if cols:
            hit = True
            res.add([finding("S-ALL", "%s|no collapse by key" % owner, where(f, cols[0][0]), "%s collects the items it builds redeemers for into a keyed container (%s): of several blocks with the same key only the last survives, and with it only *its* redeemer - an earlier block's redeemer is silently dropped" % (owner.split("::")[-1], cols[0][1]))])
    res.count("functions in the redeemer closure", n)
    res.floor("functions in the redeemer closure", n, 8)
    if not hit:
        res.add([ok("S-ALL", root + "|no truncation in the closure", where(F.fns[root]), "no first/last/take/nth/next among %d functions" % n)])


def siblings(F, res):
    m = _soft(F, res, "SIB", "compile_mint_redeemers")
    b = _soft(F, res, "SIB", "compile_burn_redeemers")
    if m is None or b is None:
        return

    def sig(f):
        callees = set()
        flds = set()
        for g in with_closures(F, f):
            for bi, t in mir.calls(g):
                n = t.get("resolved") or t.get("callee") or ""
                if n.startswith("tx3_cardano::"):
                    callees.add(n)
            for bi, si, s in mir.stmts(g):
                rv = s["rv"]
                pl = rv.get("pl") if rv["k"] == "ref" else mir.op_place(rv.get("op")) if rv["k"] in ("use",) else None
                if pl is not None:
                    for p in pl["p"]:
                        if p[0] == "f" and p[2] == "tx3_tir::model::v1beta0::Tx":
                            flds.add(p[1])
        return callees, flds
    cm, fm = sig(m)
    cb, fb = sig(b)
    key = "compile_mint_redeemers ~ compile_burn_redeemers"
    if cm == cb and fm == {"mints"} and fb == {"burns"}:
        res.add([ok("SIB", key, where(m), "same builder %s over tx.mints / tx.burns" % sorted(x.split("::")[-1] for x in cm))])
    else:
        res.add([finding("SIB", key, where(m), "mint and burn redeemers are built differently: %s over %s vs %s over %s" % (sorted(x.split("::")[-1] for x in cm), sorted(fm), sorted(x.split("::")[-1] for x in cb), sorted(fb)))])


def chain(F, res):
    """CHAIN: every function of the crate that returns a list of redeemers (`Vec<Redeemer>`: the per-purpose builders, by
    role) is called where the redeemer map is assembled, and the result of each such call flows into the chain / extend /
    loop that fills the map.  The assembling function is read with its other helpers inlined."""
    import re as _re
    from ..common import with_helpers
    root = _redeemers_root(F)

    def _lists(g):
        return bool(_re.search(r"Vec<[^<>]*::Redeemer(<[^<>]*>)?>", g["locals"][0])) and "Option<" not in g["locals"][0].split("Vec<")[0].replace("std::result::Result<", "")
    R = sorted(p_ for p_, g in F.fns.items() if g["crate"] == "tx3_cardano" and g["def_kind"] != "Closure" and not g.get("impl_trait") and _lists(g) and p_ != root)
    f = with_helpers(F, root, exclude=tuple(R))
    du = mir.DefUse(f)
    used = set()
    for bi, t in mir.calls(f):
        c = t.get("callee") or ""
        if c in ("std::iter::Iterator::chain", "std::iter::IntoIterator::into_iter", "std::iter::Extend::extend"):
            for a in t["args"]:
                for o in mir.provenance(f, du, a):
                    if o.kind == "call" and o.callee in R:
                        used.add((o.callee, o.bb))
    # a list builder that only serves another list builder (a shared `collect(..)` behind the per-purpose ones) is judged there
    inner = set()
    for p_ in R:
        for q in R:
            if q != p_ and any((t.get("resolved") or t.get("callee")) == p_ for b in with_closures(F, F.fns[q]) for _, t in mir.calls(b)):
                inner.add(p_)
    n = 0
    for p_ in R:
        sites = [bi for bi, t in mir.calls(f) if (t.get("resolved") or t.get("callee")) == p_]
        if not sites and p_ in inner:
            continue
        n += 1
        nm = p_.split("::")[-1]
        key = "compile_redeemers|%s" % nm
        lost = [bi for bi in sites if (p_, bi) not in used]
        if sites and not lost:
            res.add([ok("CHAIN", key, where(f), "its result is chained into the redeemer map (%d call site(s))" % len(sites))])
        else:
            res.add([finding("CHAIN", key, where(f), "the redeemers built by %s never reach the witness set" % nm)])
    res.count("redeemer list builders", n)
    res.floor("redeemer list builders", n, 3)


def tags(F, res):
    for name, tag in (("compile_single_spend_redeemer", "Spend"), ("compile_single_mint_redeemer", "Mint"), ("compile_single_withdrawal_redeemer", "Reward")):
        f = _soft(F, res, "TAGS", name)
        if f is None:
            continue
        found = set()
        for bi, si, s in mir.stmts(f):
            rv = s["rv"]
            if rv["k"] == "agg" and rv.get("adt", "").endswith("RedeemerTag"):
                found.add(rv["variant"])
        key = "%s|tag" % f["path"]
        if found == {tag}:
            res.add([ok("TAGS", key, where(f), "RedeemerTag::%s" % tag)])
        else:
            res.add([finding("TAGS", key, where(f), "%s builds redeemers tagged %s instead of %s" % (name, sorted(found), tag))])


def r_ctx(F, res):
    """R-CTX: "data equal to the template's redeemer expression" - the redeemer of an input, mint / burn and withdrawal block is
    lowered in the context its block was given (rule CTX of C01, the block-level part, re-run for the blocks that carry
    redeemers): a block that switches context before lowering its fields turns a policy name in a redeemer into an address."""
    from . import c01
    c01.block_ctx(F, res, rule="R-CTX", blocks=("tx3_lang::ast::InputBlock", "tx3_lang::ast::MintBlock", "tx3_lang::cardano::WithdrawalBlock"))


def run(ctx):
    F = ctx.F
    res = Result("C08")
    res.rule("KEYS", "directive names and keys agree between lowering and compiler")
    res.rule("S-SORTED", "redeemer indices are positions in a sorted list")
    res.rule("S-ALL", "redeemer builders do not truncate the item list")
    res.rule("SIB", "mint and burn redeemers use the same builder")
    res.rule("CHAIN", "every redeemer list builder's result reaches the witness set")
    res.rule("TAGS", "each builder uses the tag of its purpose")
    res.rule("R-INDEX", "every Redeemer's index is the place of its item in the compiled body's collection for its tag")
    keys(F, res)
    r_index(F, res)
    s_sorted(F, res)
    s_all(F, res)
    siblings(F, res)
    chain(F, res)
    tags(F, res)
    res.rule("R-CTX", "redeemer-carrying blocks hand their fields the context they were given (no block-level context switch)")
    r_ctx(F, res)
    return res
