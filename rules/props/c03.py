"""C03 -- input selection honours every stated constraint (soundness side).

Static clauses:
  F-CANDIDATES  the candidate refs returned by SearchSpace::take(Some(n)) derive only from the *intersection* of the stated
                constraints, never from the union
  S-INCLUDE     narrow_search_space includes one subset per stated constraint: address (when given), every positively
                requested asset class, refs (when given); CanonicalQuery::try_from reads all five InputQuery fields
  S-COLLATERAL  in select_collateral the set given to pick_from_set comes out of a filter on `assets.is_only_naked()`
  S-PREDICATE   pick_single selects with `contains_total(target)`; pick_many returns the empty set unless
                `pending.is_empty_or_negative()` (both strategies; the naive one under its feature in the thorough tier)
  S-FABRICATE   strategies return only UTxOs they were given (shared with C04)
  S-TOPUP       where take(Some(n)) tops the candidates up from the wider set, every path that skips the top-up passes a test
                of the window n: a skip for another reason (`best.is_empty()`) leaves a query whose constraints are met by
                different UTxOs without candidates.  This is one *necessary condition* of the completeness clause, not more
  S-FAILLATE    inputs::resolve builds `InputNotResolved` only where the selector's select dominates (a block is declared
                unresolvable only after the selection ran and came back empty)
  S-PURE        is_only_naked is a universal statement over the entries whose per-entry verdict is "the class is Naked" (E17)
  S-LATTICE / C-ORDER  see E16 / E13 (subset lattice; contains_total and is_empty_or_negative as orders)
  S-TOPUP (2)   the `take(n)` that bounds the top-up from the wider set runs over an iterator from which the refs already picked
                were removed (set difference / filter): forward data flow from the read of the wider field
Not decided (not applicable to this family): completeness as such - "finds a match if one exists" depends on the greedy
algorithm's behaviour over all stores.
"""
import re

from .. import mir
from ..common import CallGraph, call_matches, is_derive, with_closures, bool_return_leaves
from ..engine import Result, ok, finding, assumption, where
from ..facts import BrokenCheck
from . import c04

META = {
    "level": "other",
    "explanation": (
        "Provenance, field-use and control-dependence rules on the narrowing and selection code (pre-transform coroutine MIR for "
        "the async functions): what SearchSpace::take may return, which constraint of the query feeds which include_* call, the "
        "naked-only filter for collateral, the predicates guarding the strategies' results, no fabricated UTxOs. These decide the "
        "soundness half of the property for every store and query; completeness is a statement about a greedy search over "
        "runtime data and is declared not applicable."),
    "trusted_base": ["rustc MIR, driver", "UtxoStore::narrow_refs returns refs matching the pattern; fetch_utxos returns the refs requested"],
    "not_decided": ["completeness of selection (greedy algorithm over all stores)", "contains_some as an order (no clause of the property states it)", "predicates written in a shape other than an entry-wise loop of comparisons (reported as assumptions)"],
}

NARROW = "tx3_resolver::inputs::narrow::"
SS = "tx3_resolver::inputs::narrow::SearchSpace"


_KEEP_SO = []


def _live_const_enum(F, g):
    """blocks of g that stay reachable when every `match` on a value that is a unit variant built in g itself (an operation
    selector handed to an inlined helper: `combine_sets(&l, &r, SetOp::Intersection)`) takes only that variant's arm"""
    du = mir.DefUse(g)
    decided = {}
    for bi, b in enumerate(g["blocks"]):
        t = b["t"]
        if b["cleanup"] or t["k"] != "switch":
            continue
        pl = mir.op_place(t["discr"])
        src = None
        for st in b["s"]:
            if pl is not None and st["lhs"]["l"] == pl["l"] and st["rv"]["k"] == "discr" and not st["rv"]["pl"]["p"]:
                src = st["rv"]["pl"]["l"]
        hops = 0
        while src is not None and hops < 6:
            hops += 1
            ds = du.defs.get(src, [])
            if len(ds) != 1 or ds[0][0] != "stmt":
                src = None
                break
            rv = ds[0][3]["rv"]
            if rv["k"] == "use" and mir.op_place(rv["op"]) is not None and not mir.op_place(rv["op"])["p"]:
                src = mir.op_place(rv["op"])["l"]
                continue
            if rv["k"] == "agg" and rv.get("variant") and not rv.get("ops") and rv.get("adt") in F.adts:
                dv = [v["discr"] for v in F.adt(rv["adt"])["variants"] if v["name"] == rv["variant"]]
                if dv:
                    tm = dict((v, tb) for v, tb in t["targets"])
                    decided[bi] = tm.get(dv[0], t["otherwise"])
            break
    seen, st = {0}, [0]
    while st:
        x = st.pop()
        nxt = [decided[x]] if x in decided else mir.block_succs(g["blocks"][x])
        for y in nxt:
            if y not in seen:
                seen.add(y)
                st.append(y)
    return seen


def _set_ops(F, f, depth=0):
    """set-combining std operations a function (and the workspace functions it calls, 2 levels) performs; small helpers of
    the module are read inlined, an operation selector passed to them as a constant decides which of their arms counts"""
    ops = set()
    if depth == 0 and not f.get("owner"):
        def want(t, callee, me=f["path"]):
            return callee["path"].startswith(NARROW) and callee["path"] != me and not callee.get("impl_trait") and len(callee["blocks"]) <= 80
        _KEEP_SO.append(want)
        try:
            gi = mir.inline_calls(F, f, want=want, depth=2)
        except Exception:
            gi = None
        if gi is not None and gi.get("inlined"):
            live = _live_const_enum(F, gi)
            left = False
            for bi, t in mir.calls(gi):
                if bi not in live:
                    continue
                c = t.get("callee") or ""
                n = c.split("::")[-1]
                if "HashSet" in c or "BTreeSet" in c:
                    if n in ("intersection", "retain"):
                        ops.add("meet")
                    if n in ("union", "extend", "insert"):
                        ops.add("join")
                r = t.get("resolved") or c
                if r in F.fns and r.startswith(NARROW) and r != f["path"]:
                    left = True     # a callee that was not inlined: judged the old way below
            if not left:
                for g in with_closures(F, f)[1:]:
                    ops |= _set_ops(F, g, depth + 1)
                return ops
            ops = set()
    for g in with_closures(F, f):
        for bi, t in mir.calls(g):
            c = t.get("callee") or ""
            n = c.split("::")[-1]
            if "HashSet" in c or "BTreeSet" in c:
                if n in ("intersection", "retain"):
                    ops.add("meet")
                if n in ("union", "extend", "insert"):
                    ops.add("join")
            r = t.get("resolved") or c
            if depth < 2 and r in F.fns and r.startswith(NARROW) and r != f["path"]:
                ops |= _set_ops(F, F.fns[r], depth + 1)
    return ops


def _subset_type(F):
    """the resolver's Subset enum: narrow::Subset, or narrow::<private submodule>::Subset"""
    c = [p for p in F.adts if p.startswith(NARROW) and p.endswith("::Subset")]
    if len(c) != 1:
        raise BrokenCheck("expected one Subset type under %s, found %r" % (NARROW, c))
    return c[0]


def subset_roles(F):
    """role of each Subset-typed field of SearchSpace, decided by how it is written: assigned from a function that intersects
    sets -> 'meet' (holds what satisfies *every* constraint), from one that unites -> 'join' (what satisfies *some*)"""
    roles = {}
    # (the Subset type may live in narrow.rs or in a private submodule of it)
    fields = [fd["name"] for fd in F.adt(SS)["variants"][0]["fields"] if fd["ty"] == _subset_type(F)]
    for p, f in F.fns.items():
        if not p.startswith(NARROW) or f.get("derived"):
            continue
        du = None
        for bi, si, s in mir.stmts(f):
            if f["blocks"][bi]["cleanup"]:
                continue
            lhs = s["lhs"]
            fl = [q[1] for q in lhs["p"] if q[0] == "f" and q[2] == SS]
            if not fl or fl[0] not in fields:
                continue
            du = du or mir.DefUse(f)
            for o in mir.provenance(f, du, s["rv"].get("op") or s["rv"].get("pl") or {}, stop_at_calls=lambda t: True) if s["rv"]["k"] in ("use",) else []:
                if o.kind == "call":
                    r = o.term.get("resolved") or o.callee
                    g = F.fns.get(r)
                    if g is not None:
                        ops = _set_ops(F, g)
                        roles.setdefault(fl[0], set()).update(ops)
    return fields, roles


def f_candidates(F, res):
    # take() with the helper methods it may have been split into (`take_at_most`, `top_up`, ..) inlined
    def _want(t, callee):
        return callee["crate"] == "tx3_resolver" and not callee.get("impl_trait") and not callee.get("trait_default") and len(callee["blocks"]) <= 150
    _KEEP.append(_want)
    f = mir.inline_calls(F, F.fn(NARROW + "SearchSpace::take"), want=_want, depth=3)
    w = where(f)
    key = f["path"] + "|bounded take draws from the intersection only"
    fields, roles = subset_roles(F)
    meet = {x for x in fields if roles.get(x) == {"meet"}}
    join = {x for x in fields if "join" in roles.get(x, ())}
    if not fields:
        raise BrokenCheck("SearchSpace has no Subset field")
    key_m = SS + "|some field holds the intersection of the constraints"
    if meet:
        res.add([ok("F-CANDIDATES", key_m, w, "%s is only ever assigned from Subset::intersection (HashSet::intersection)" % sorted(meet))])
    if not meet:
        res.add([finding("F-CANDIDATES", key_m, w, "no field of SearchSpace holds the intersection of the constraints any more (fields %s are written by %s): nothing restricts candidates to UTxOs that satisfy every constraint" % (fields, {k: sorted(v) for k, v in roles.items()}))])
        return
    # the `take == None` arm returns everything unbounded (documented: no limit) -> join fields allowed only on the None edge
    from ..e8_state import option_switch
    cfg = mir.CFG(f)
    sw = option_switch(f, 2)
    reads = []
    for bi, si, s in mir.stmts(f):
        rv = s["rv"]
        pl = rv.get("pl") if rv["k"] == "ref" else mir.op_place(rv.get("op")) if rv["k"] in ("use", "cast") else None
        if pl is not None:
            for q in pl["p"]:
                if q[0] == "f" and q[2] == SS and q[1] in fields:
                    reads.append((bi, s["line"], q[1]))
    if not sw:
        raise BrokenCheck("SearchSpace::take no longer matches on its limit")
    bad = []
    meet_read = False
    for bi, line, fld in reads:
        on_none = any(none_t is not None and (cfg.dominates(none_t, bi)) for (sb, none_t, some_t) in sw)
        if on_none:
            continue
        if fld in meet:
            meet_read = True
        else:
            bad.append((line, fld))
    # S-TOPUP: where a top-up from the wider field exists, it may be skipped only because the window is already full: every
    # path from the `Some(limit)` edge to a return that does not pass the top-up passes a branch whose condition depends on
    # the limit.  (Skipping it for another reason - "the intersection is empty" - leaves queries whose constraints are met by
    # different UTxOs without candidates.)  Not applicable when take() has no top-up.
    topup = {bi for bi, line, fld in reads if fld not in meet and not any(none_t is not None and cfg.dominates(none_t, bi) for (sb, none_t, some_t) in sw)}
    if topup:
        du = mir.DefUse(f)

        def dep_on_limit(local, depth=0, seen=None):
            seen = seen if seen is not None else set()
            if local in seen or depth > 8:
                return False
            seen.add(local)
            if local == 2:
                return True
            for d in du.defs.get(local, []):
                if d[0] == "call":
                    ops = d[3]["args"]
                else:
                    rv = d[3]["rv"]
                    ops = [rv.get(k) for k in ("op", "a", "b") if rv.get(k) is not None] + list(rv.get("ops") or [])
                    if rv.get("pl") is not None:
                        ops.append({"cp": rv["pl"]})
                for o in ops:
                    pl = mir.op_place(o) if isinstance(o, dict) else None
                    if pl is not None and dep_on_limit(pl["l"], depth + 1, seen):
                        return True
            return False
        guards = set()
        for bi, b in enumerate(f["blocks"]):
            if b["t"]["k"] == "switch":
                pl = mir.op_place(b["t"]["discr"])
                if pl is not None and dep_on_limit(pl["l"]):
                    guards.add(bi)
        some_ts = [some_t for (sb, none_t, some_t) in sw if some_t is not None and sb not in topup]
        seen, st, skip_ret = set(), list(some_ts), None
        while st:
            b = st.pop()
            if b in seen or b in topup or f["blocks"][b]["cleanup"]:
                continue
            seen.add(b)
            if b in guards and b not in [sb for (sb, _, _) in sw]:
                continue
            if f["blocks"][b]["t"]["k"] == "return":
                skip_ret = b
            st.extend(cfg.succ[b])
        key_t = f["path"] + "|the top-up is skipped only when the window is full"
        if skip_ret is not None:
            res.add([finding("S-TOPUP", key_t, w, "with a limit, take() can return without topping the candidates up although no test of the limit was passed: when the constraints are met by different UTxOs (empty intersection) the block gets no candidates at all")])
        else:
            res.add([ok("S-TOPUP", key_t, w, "every path that skips the top-up passes a comparison with the limit")])
    # ... and the extras are counted after what is already picked has been taken out: the `take(n)` that bounds the top-up runs
    # over an iterator that went through a set difference / a filter, not over the wider set as it is (elements of the
    # intersection would use up the budget and candidates that satisfy the constraints are left out)
    if topup:
        # forward data flow from the reads of the wider field; a set difference / filter / retain ends it
        CLEAN = ("::difference", "::filter", "::filter_map", "::retain", "::skip_while", "::take_while", "::symmetric_difference")
        wide = set()
        for bi, si, s in mir.stmts(f):
            if bi in topup and not s["lhs"]["p"]:
                rv = s["rv"]
                pl = rv.get("pl") if rv["k"] == "ref" else mir.op_place(rv.get("op")) if rv["k"] in ("use", "cast") else None
                if pl is not None and any(q[0] == "f" and q[2] == SS and q[1] in fields and q[1] not in meet for q in pl["p"]):
                    wide.add(s["lhs"]["l"])

        def _locals_of(ops):
            for o in ops:
                pl = mir.op_place(o) if isinstance(o, dict) else None
                if pl is not None:
                    yield pl["l"]
        changed = True
        while changed:
            changed = False
            for bi, si, s in mir.stmts(f):
                rv = s["rv"]
                ops = [rv.get(k) for k in ("op", "a", "b") if isinstance(rv.get(k), dict)] + list(rv.get("ops") or [])
                if rv.get("pl") is not None:
                    ops.append({"cp": rv["pl"]})
                if any(l in wide for l in _locals_of(ops)) and s["lhs"]["l"] not in wide:
                    wide.add(s["lhs"]["l"])
                    changed = True
            for bi, t in mir.calls(f):
                c = t.get("callee") or ""
                if any(c.endswith(x) or (x + "::") in c for x in CLEAN):
                    continue
                if any(l in wide for l in _locals_of(t["args"])) and t["dest"]["l"] not in wide:
                    wide.add(t["dest"]["l"])
                    changed = True
        raw = []
        for bi, t in mir.calls(f):
            if (t.get("callee") or "") == "std::iter::Iterator::take" and t["args"] and any(l in wide for l in _locals_of(t["args"][:1])):
                raw.append(t["line"])
        key_d = f["path"] + "|the top-up is bounded after removing what is already picked"
        if raw:
            res.add([finding("S-TOPUP", key_d, where(f, raw[0]), "the `take(n)` that bounds the top-up runs over the wider set itself, not over what is left of it after removing the candidates already picked: refs of the intersection use up the window and UTxOs that meet the constraints are left out")])
        else:
            res.add([ok("S-TOPUP", key_d, w, "the bounded top-up draws from a difference / filtered iterator")])
    if bad:
        res.add([finding("F-CANDIDATES", key + "|reads the union", where(f, bad[0][0]), "when a limit is given, take() tops the candidates up from `%s`, which holds the *union* of the constraints: a UTxO that satisfies only one of them (e.g. the ref but not the address) becomes a candidate" % bad[0][1])])
    elif not meet_read:
        res.add([finding("F-CANDIDATES", key, w, "with a limit, take() does not read the intersection of the constraints at all")])
    else:
        res.add([ok("F-CANDIDATES", key, w, "with a limit, only %s (written by set intersection) is read" % sorted(meet))])


def s_include(F, res):
    """Every constraint a canonical query can state (address, min_amount, refs) narrows the search space: in
    narrow_search_space - the resolver's own helper functions inlined, awaited ones included - some write of the field that
    holds the *intersection* of the constraints (role decided by how it is written, see F-CANDIDATES) is fed from, or guarded by
    a test of, that constraint's field of the criteria.  No method name is involved."""
    b0 = F.body(NARROW + "narrow_search_space")
    b = mir.inline_calls(F, b0, want=c04._HELPERS_ALL, depth=3)
    du = mir.DefUse(b)
    cfg = mir.CFG(b)
    CQ = "tx3_resolver::inputs::CanonicalQuery"
    fields, roles = subset_roles(F)
    meet = {x for x in fields if roles.get(x) == {"meet"}}
    sites = []
    for bi, si, st in mir.stmts(b):
        if any(q[0] == "f" and q[2] == SS and q[1] in meet for q in st["lhs"]["p"]):
            sites.append((bi, st))
    if not meet:
        return   # F-CANDIDATES reports that no field holds the intersection any more
    if not sites:
        raise BrokenCheck("narrow_search_space (helpers inlined) never writes the intersection of the constraints")
    for fld in ("address", "min_amount", "refs"):
        key = "%snarrow_search_space|%s constraint included" % (NARROW, fld)
        good = None
        for bi, st in sites:
            data = st["rv"].get("op") or st["rv"].get("pl")
            txt = " ".join(repr(x) for x in mir.provenance(b, du, data, transparent_extra=("std::clone::Clone::clone",))) if data else ""
            # through the set-intersection call: its operands
            for o in (mir.provenance(b, du, data) if data else []):
                if o.kind == "call":
                    for a in o.term["args"]:
                        txt += " " + " ".join(repr(x) for x in mir.provenance(b, du, a, transparent_extra=("std::clone::Clone::clone",)))
            reads = _fields_feeding(b, du, cfg, bi, CQ)
            # the guard must be specific to this site: a field read that also dominates the first narrowing site of the
            # function says nothing about a later one, unless it is this field's own first use
            if ("." + fld) in txt or fld in reads:
                good = (bi, st)
                break
        if good:
            res.add([ok("S-INCLUDE", key, where(b0, good[1]["line"]), "a write of the intersection field is fed from / guarded by criteria.%s" % fld)])
        else:
            res.add([finding("S-INCLUDE", key, where(b0), "the `%s` constraint of the query never narrows the search space (no write of the intersection of the constraints depends on criteria.%s)" % (fld, fld))])
    # CanonicalQuery::try_from reads all InputQuery fields
    f = F.fn("<tx3_resolver::inputs::CanonicalQuery as std::convert::TryFrom<tx3_tir::model::v1beta0::InputQuery>>::try_from")
    IQ = "tx3_tir::model::v1beta0::InputQuery"
    read = set()
    from ..common import deep_bodies
    # (with the crate's helpers inlined: `address_of(&query)`, `min_amount_of(&query)` .. read the fields for it)
    for g in deep_bodies(F, f["path"]):
        for bi, si, s in mir.stmts(g):
            rv = s["rv"]
            pls = [rv.get("pl")] if rv["k"] in ("ref", "rawptr") else [mir.op_place(o) for o in mir.all_operands_of_rv(rv)]
            for pl in pls:
                if pl is not None:
                    for p in pl["p"]:
                        if p[0] == "f" and p[2] == IQ:
                            read.add(p[1])
    for fd in F.adt(IQ)["variants"][0]["fields"]:
        key = "%s|InputQuery.%s" % ("CanonicalQuery::try_from", fd["name"])
        if fd["name"] in read:
            res.add([ok("S-INCLUDE", key, where(f), "read")])
        else:
            res.add([finding("S-INCLUDE", key, where(f), "the `%s` constraint of an input block is dropped when the query is canonicalised" % fd["name"])])


def _fields_feeding(b, du, cfg, call_bb, adt):
    """fields of `adt` read in blocks that dominate call_bb or in the call block itself (the guards and sources of the call)"""
    out = set()
    for bi, si, s in mir.stmts(b):
        if not (bi == call_bb or cfg.dominates(bi, call_bb)):
            continue
        rv = s["rv"]
        pls = [rv.get("pl")] if rv["k"] in ("ref", "rawptr", "discr") else [mir.op_place(o) for o in mir.all_operands_of_rv(rv)]
        for pl in pls:
            if pl is not None:
                for p in pl["p"]:
                    if p[0] == "f" and p[2] == adt:
                        out.add(p[1])
    return out


def s_collateral(F, res):
    b, allb = c04.bodies_of(F, c04.SELP + "select_collateral")
    # the selector's own helper methods inlined: what matters is the set that reaches the coin-selection strategy
    b = mir.inline_calls(F, b, want=c04._HELPERS_ALL, depth=2)
    du = mir.DefUse(b)
    pf = [(bi, t) for bi, t in mir.calls(b) if (t.get("trait") or "").endswith("::CoinSelection") and t.get("method") in ("pick_many", "pick_single")]
    key = c04.SELP + "select_collateral|only pure-lovelace UTxOs are eligible"
    if not pf:
        raise BrokenCheck("select_collateral (helpers inlined) never reaches the coin-selection strategy")
    good = True
    for bi, t in pf:
        src = mir.provenance(b, du, t["args"][0])
        found = False
        for x in src:
            if x.kind == "call" and x.callee == "std::iter::Iterator::collect":
                for y in mir.provenance(b, du, x.term["args"][0]):
                    if y.kind == "call" and y.callee == "std::iter::Iterator::filter":
                        for fr in y.term.get("fnrefs", ()):
                            g = F.fns.get(fr)
                            if g is None:
                                continue
                            leaves = bool_return_leaves(F, g)
                            if leaves is None:
                                # shape not followed (e.g. a conjunction): fall back to "the test is consulted"
                                if any((t2.get("callee") or "").endswith("CanonicalAssets::is_only_naked") for _, t2 in mir.calls(g)):
                                    found = True
                                continue
                            for sign, t2, g2 in leaves:
                                if (t2.get("callee") or "").endswith("CanonicalAssets::is_only_naked") and sign > 0:
                                    recv = mir.provenance(g2, mir.DefUse(g2), t2["args"][0])
                                    if any(x.kind == "arg" and x.local == 2 and ".assets" in x.proj for x in recv):
                                        found = True
        if not found:
            good = False
    if good:
        res.add([ok("S-COLLATERAL", key, where(b), "pick_from_set(utxos.into_iter().filter(|x| x.assets.is_only_naked()).collect(), ..)")])
    else:
        res.add([finding("S-COLLATERAL", key, where(b), "collateral candidates are not restricted to pure-lovelace UTxOs (the filter must keep exactly the UTxOs whose own assets are `is_only_naked()`)")])


CA = "tx3_tir::model::assets::CanonicalAssets"


def s_pure(F, res):
    """S-PURE: `CanonicalAssets::is_only_naked` - the purity test S-COLLATERAL relies on - is a *universal* statement over the
    entries whose per-entry verdict is "the class is the naked (lovelace) one".  Recognised shapes: `iter().all(p)` and the
    iterator-driven loop that returns false on the first entry failing p and true when the entries run out; p's truth table
    (E17, helpers inlined) must be true exactly under the `Naked` variant of the class.  An existential combinator
    (`any` / `find` / `position`) or a predicate that is true for another variant is reported; another shape is not decided."""
    from .. import truthtable
    f0 = F.fns.get(CA + "::is_only_naked")
    key = CA + "::is_only_naked|every entry is of the naked class"
    if f0 is None:
        res.add([assumption("S-PURE", key, "crates/tx3-tir/src/model/assets.rs", "is_only_naked not found under this name: not decided")])
        return
    w = where(f0)
    ACLASS = "tx3_tir::model::assets::AssetClass"
    adt = F.adt(ACLASS)
    naked = [v["discr"] for v in adt["variants"] if not v["fields"]]
    if len(naked) != 1:
        res.add([assumption("S-PURE", key, w, "AssetClass no longer has exactly one payload-free variant: not decided")])
        return

    def want(t, callee):
        return callee["crate"] == "tx3_tir" and not callee.get("impl_trait") and len(callee["blocks"]) <= 80

    def pred_ok(g):
        """None = not decided, True/False = the per-entry predicate is / is not `class is Naked`"""
        body = mir.inline_calls(F, g, want=want, depth=2)
        rows = truthtable.table(body)
        if not rows or any(r[3] or r[2] is None for r in rows):
            return None
        seen_class = False
        for a, ctx, r, op in rows:
            cls = [c for c in ctx if c[0] == ACLASS]
            if not cls:
                return None
            seen_class = True
            is_naked = all(c[2] == naked[0] for c in cls)
            if r != is_naked:
                return False
        return True if seen_class else None
    universal = existential = None
    for bi, t in mir.calls(f0):
        c = t.get("callee") or ""
        if c == "std::iter::Iterator::all":
            universal = t
        elif c in ("std::iter::Iterator::any", "std::iter::Iterator::find", "std::iter::Iterator::position", "std::iter::Iterator::find_map"):
            existential = t
    if existential is not None and universal is None:
        res.add([finding("S-PURE", key, where(f0, existential["line"]), "is_only_naked is decided by `%s`: one naked entry is enough, so a UTxO holding lovelace *and* tokens counts as pure lovelace (collateral)" % (existential["callee"].split("::")[-1]))])
        return
    if universal is not None:
        verdicts = [pred_ok(F.fns[fr]) for fr in universal.get("fnrefs") or () if fr in F.fns]
        if verdicts and all(v is True for v in verdicts):
            res.add([ok("S-PURE", key, w, "all(|(class, _)| class is Naked)")])
        elif any(v is False for v in verdicts):
            res.add([finding("S-PURE", key, w, "the per-entry test of is_only_naked is not `the class is Naked`: an entry of another class passes (or a naked one fails)")])
        else:
            res.add([assumption("S-PURE", key, w, "the per-entry predicate is outside the recognised fragment: not decided")])
        return
    res.add([assumption("S-PURE", key, w, "is_only_naked is not an `all(..)` over the entries: not decided")])


def s_faillate(F, res):
    """S-FAILLATE (a necessary condition of "finds a match if one exists"): the resolver gives up on an input block only after
    the selection ran and came back empty.  Every construction of `Error::InputNotResolved` in inputs::resolve (awaited helpers
    inlined) is dominated by the selector's `select` call.  A shortcut that fails earlier - on a counter of the search space,
    on the shape of the query - declares blocks unresolvable whose candidates were never looked at."""
    b0 = F.body("tx3_resolver::inputs::resolve")
    b = mir.inline_calls(F, b0, want=c04._HELPERS_ALL, depth=2)
    cfg = mir.CFG(b)
    sel = [bi for bi, t in mir.calls(b) if ((t.get("resolved") or t.get("callee") or "").startswith(c04.SELP + "select"))]
    # the awaited selection: the poll of the future the select call created (inlined body) or the call itself
    sel += [bi for bi, blk in enumerate(b["blocks"]) if (blk.get("inl") or "").startswith(c04.SELP + "select")]
    sites = [(bi, s) for bi, si, s in mir.stmts(b) if s["rv"]["k"] == "agg" and s["rv"].get("adt") == "tx3_resolver::Error" and s["rv"].get("variant") == "InputNotResolved"]
    key = "tx3_resolver::inputs::resolve|InputNotResolved only after an empty selection"
    if not sel:
        raise BrokenCheck("inputs::resolve (helpers inlined) never calls the selector")
    if not sites:
        res.add([assumption("S-FAILLATE", key, where(b0), "inputs::resolve builds no InputNotResolved itself: not decided")])
        return
    bad = [s for bi, s in sites if not any(x != bi and cfg.dominates(x, bi) for x in sel)]
    if bad:
        res.add([finding("S-FAILLATE", key, where(b0, bad[0]["line"]), "inputs::resolve reports InputNotResolved on a path on which the selection never ran: a block whose candidates would cover it is declared unresolvable")])
    else:
        res.add([ok("S-FAILLATE", key, where(b0), "%d construction(s), each dominated by the selector's select" % len(sites))])


def s_predicate(F, res, label=""):
    for p in sorted(F.fns):
        m = re.search(r"<tx3_resolver::inputs::select::(\w+)::(\w+) as tx3_resolver::inputs::select::CoinSelection>::(pick_single|pick_many)$", p)
        if not m:
            continue
        f = F.fns[p]
        # with the selection helpers of the crate (`take_if_useful`, `trim_excess`, ..) inlined
        fi = mir.inline_calls(F, f, want=c04._HELPERS_ALL, depth=2)
        names = set()
        for g in [fi] + with_closures(F, fi)[1:] + with_closures(F, f)[1:]:
            for bi, t in mir.calls(g):
                c = t.get("callee") or ""
                if c.startswith("tx3_tir::model::assets::CanonicalAssets::"):
                    names.add(c.split("::")[-1])
        key = "%s|%s predicate%s" % (m.group(2), m.group(3), label)
        if m.group(3) == "pick_single":
            shape = None
            for g in with_closures(F, f):
                if g is f:
                    continue
                leaves = bool_return_leaves(F, g)
                if leaves is None:
                    continue
                for sign, t2, g2 in leaves:
                    if (t2.get("callee") or "").endswith("CanonicalAssets::contains_total"):
                        dg = mir.DefUse(g2)
                        recv = mir.provenance(g2, dg, t2["args"][0])
                        arg = mir.provenance(g2, dg, t2["args"][1])
                        cand = any(x.kind == "arg" and x.local == 2 and ".assets" in x.proj for x in recv)
                        targ = any(x.kind == "arg" and x.local == 1 for x in arg)
                        shape = "ok" if (sign > 0 and cand and targ) else ("negated" if sign < 0 else "operands swapped: target.contains_total(candidate)")
            if shape == "ok":
                res.add([ok("S-PREDICATE", key, where(f), "keeps the candidates with candidate.assets.contains_total(target)")])
            elif shape is not None:
                res.add([finding("S-PREDICATE", key, where(f), "pick_single's filter is %s: the chosen UTxO need not cover the target" % shape)])
            elif "contains_total" in names:
                res.add([ok("S-PREDICATE", key, where(f), "selects with contains_total(target)")])
            else:
                res.add([finding("S-PREDICATE", key, where(f), "pick_single does not test that the chosen UTxO alone covers the target (contains_total)")])
        else:
            cfg = mir.CFG(f)
            # the non-empty return must be on the is_empty_or_negative() true side: the `return HashSet::new()` must be
            # on the false side of a test of is_empty_or_negative
            tests = [bi for bi, t in mir.calls(fi) if (t.get("callee") or "").endswith("CanonicalAssets::is_empty_or_negative")]
            if "is_empty_or_negative" in names and "contains_some" in names and tests:
                res.add([ok("S-PREDICATE", key, where(f), "accumulates while contains_some(pending); gives up unless pending.is_empty_or_negative()")])
            else:
                res.add([finding("S-PREDICATE", key, where(f), "pick_many can return a set that does not cover the target (missing is_empty_or_negative / contains_some)")])


BULK = ("retain", "clear", "drain", "extract_if", "truncate", "split_off")
SINGLE = ("remove", "take", "pop")


def _is_excess_eval(F, g, depth=0):
    """does g evaluate how much the set exceeds the target: a CanonicalAssets subtraction and a contains_total test"""
    has_sub = has_ct = False
    for h in with_closures(F, g):
        for bi, t in mir.calls(h):
            c = t.get("callee") or ""
            r = t.get("resolved") or ""
            if c == "std::ops::Sub::sub" and "CanonicalAssets" in (r + " ".join(t.get("gargs") or [])):
                has_sub = True
            if c.endswith("CanonicalAssets::contains_total"):
                has_ct = True
    return has_sub and has_ct


def _shrinks(F, g, set_roots, du, depth=0):
    """[(kind, name, fn, bb, line)] removals applied to a set derived from set_roots in g (and, through `&mut set` arguments,
    in workspace callees)"""
    out = []
    for bi, t in mir.calls(g):
        c = t.get("callee") or ""
        name = c.split("::")[-1]
        if not t["args"]:
            continue
        recv = mir.provenance(g, du, t["args"][0], transparent_extra=("std::ops::DerefMut::deref_mut",))
        on_set = any(repr(o) in set_roots for o in recv)
        if ("HashSet" in c or "BTreeSet" in c or "Vec" in c) and on_set:
            if name in BULK:
                out.append(("bulk", name, g, bi, t["line"]))
            elif name in SINGLE:
                out.append(("single", name, g, bi, t["line"]))
        r = t.get("resolved") or c
        if depth < 2 and r in F.fns and r.startswith("tx3_resolver::") and r != g["path"]:
            h = F.fns[r]
            for ai, a in enumerate(t["args"]):
                org = mir.provenance(g, du, a)
                if any(repr(o) in set_roots for o in org) and "&mut" in h["locals"][ai + 1]:
                    dh = mir.DefUse(h)
                    sub = _shrinks(F, h, {"arg%d" % (ai + 1)}, dh, depth + 1)
                    out.extend(sub)
    return out


def s_trim(F, res, label=""):
    """After pick_many has accumulated a covering set it may drop UTxOs that are not needed - but each removal has to be
    justified against the excess of the set *as it is at that moment*: one removal per evaluation of the excess.  A bulk
    removal (retain / drain ..) or several removals judged against one stale excess can leave a set that no longer covers."""
    for p in sorted(F.fns):
        m = re.search(r"<tx3_resolver::inputs::select::(\w+)::(\w+) as tx3_resolver::inputs::select::CoinSelection>::pick_many$", p)
        if not m:
            continue
        f = F.fns[p]
        du = mir.DefUse(f)
        cfg = mir.CFG(f)
        key = "%s|pick_many trims one UTxO per evaluation of the excess%s" % (m.group(2), label)
        # the set that is returned on the covering path
        roots = set()
        for bi, si, s in mir.stmts(f):
            if s["lhs"]["l"] == 0 and not s["lhs"]["p"] and s["rv"]["k"] == "use":
                for o in mir.provenance(f, du, s["rv"]["op"]):
                    roots.add(repr(o))
        sh = _shrinks(F, f, roots, du)
        if not sh:
            res.add([ok("S-TRIM", key, where(f), "the accumulated set is returned without removals")])
            continue
        bad = None
        loops = cfg.loops()
        for kind, name, g, bi, line in sh:
            if kind == "bulk":
                bad = (g, line, "`%s` removes several UTxOs at once, all judged against one excess computed beforehand" % name)
                break
            if g is not f:
                # a single removal inside a helper: the helper must be the per-iteration body (called from a loop in pick_many
                # that re-evaluates the excess) - not modelled: treat like the direct case on the helper's own loops
                cfg_g, du_g = mir.CFG(g), mir.DefUse(g)
            else:
                cfg_g, du_g = cfg, du
            lp = [body for h, body in cfg_g.loops().items() if bi in body]
            if not lp:
                continue   # a single removal outside any loop happens at most once per call
            body = min(lp, key=len)
            evals = []
            for bj in body:
                t = g["blocks"][bj]["t"]
                if t["k"] == "call":
                    r = t.get("resolved") or t.get("callee") or ""
                    h = F.fns.get(r)
                    if (h is not None and _is_excess_eval(F, h)) :
                        evals.append(bj)
            if g is not None and _is_excess_eval(F, g) and False:
                pass
            if not any(cfg_g.dominates(e, bi) for e in evals):
                bad = (g, line, "`%s` runs in a loop that does not re-evaluate the excess of the current set before each removal" % name)
                break
        if bad:
            g, line, why = bad
            res.add([finding("S-TRIM", key, where(g, line), "%s: two UTxOs that each fit in the overshoot but not together are both dropped and the returned set no longer covers the target" % why)])
        else:
            res.add([ok("S-TRIM", key, where(f), "each removal is dominated, inside its loop, by a fresh evaluation of the excess (available - target, contains_total)")])


def s_whole(F, res, label=""):
    """A strategy ranks or walks *every* UTxO of the search space it was given: nowhere between the search space and the walk are
    the candidates collected into a map / set under a key computed from them (a distance, an amount) - candidates that agree on
    the key would collapse into one, and a selection that needs two equal UTxOs comes back empty."""
    from ..common import keyed_collapses
    n = 0
    for p in sorted(F.fns):
        m = re.search(r"<tx3_resolver::inputs::select::(\w+)::(\w+) as tx3_resolver::inputs::select::CoinSelection>::(pick_single|pick_many)$", p)
        if not m:
            continue
        f = F.fns[p]
        fi = mir.inline_calls(F, f, want=c04._HELPERS_ALL, depth=3)
        n += 1
        key = "%s|%s walks the whole search space%s" % (m.group(2), m.group(3), label)
        cols = []
        for g in with_closures(F, fi):
            cols += [(g, l_, d_) for l_, d_ in keyed_collapses(F, g)]
        if cols:
            g, l_, d_ = cols[0]
            res.add([finding("S-WHOLE", key, where(g, l_), "%s::%s collects its candidates into a keyed container (%s): of several UTxOs with the same key only one survives, so a selection that needs both comes back empty although the search space covers the target" % (m.group(2), m.group(3), d_))])
        else:
            res.add([ok("S-WHOLE", key, where(f), "no collection of the candidates under a computed key (helpers and closures included)")])
    res.count("strategy methods read for keyed collapses", n)
    res.floor("strategy methods read for keyed collapses", n, 2)


def s_lattice(F, res):
    """S-LATTICE: the per-constraint subsets are combined by a union and an intersection over {NotSet = no constraint stated,
    All = every UTxO, Specific(set)}.  Both are finite case tables over the pairs of variants.  For the function whose
    Specific x Specific case calls HashSet::union (resp. ::intersection) - helpers and closures inlined - every pair of variants
    is followed through the `match` (finite case analysis on the discriminants) and the result compared with the lattice:
        union:        NotSet is neutral, All absorbs,   Specific x Specific -> set union
        intersection: NotSet is neutral, All is neutral, Specific x Specific -> set intersection"""
    SUB = _subset_type(F)
    adt = F.adts.get(SUB)
    if adt is None:
        raise BrokenCheck("narrow::Subset not found")
    discr = {v["name"]: v["discr"] for v in adt["variants"]}
    if set(discr) != {"NotSet", "All", "Specific"}:
        res.add([assumption("S-LATTICE", SUB + "|variants", where_adt(adt), "Subset no longer has the variants NotSet / All / Specific: lattice table not decided")])
        return
    # binary operations on Subset: two Subset parameters, Subset result
    ops = [f for f in F.fns.values() if f["crate"] == "tx3_resolver" and f.get("argc") == 2 and f["locals"][0] == SUB and f["locals"][1] == SUB and f["locals"][2] == SUB
           and not f.get("derived")]
    n = 0
    for f0 in sorted(ops, key=lambda g: g["path"]):
        def want(t, callee):
            return callee["crate"] == "tx3_resolver" and not callee.get("impl_trait") and len(callee["blocks"]) <= 200
        _KEEP.append(want)
        f = mir.inline_calls(F, f0, want=want, depth=3)
        du = mir.DefUse(f)
        setops = {(t.get("callee") or "").split("::")[-1] for _, t in mir.calls(f) if "HashSet" in (t.get("callee") or "") and (t.get("callee") or "").split("::")[-1] in ("union", "intersection")}
        if len(setops) != 1:
            continue
        kind = setops.pop()
        n += 1
        key = "%s|case table of the %s of two subsets" % (f0["path"], kind)
        problems = []
        for va in ("NotSet", "All", "Specific"):
            for vb in ("NotSet", "All", "Specific"):
                vals = mir.walk_under_variants(f, {1: va, 2: vb}, SUB, discr)
                if vals is None:
                    problems.append("%s(%s, %s): control flow outside the case-analysis fragment" % (kind, va, vb))
                    continue
                outs = set()
                for v in vals:
                    outs.add(_classify_walk_value(v, SUB))
                if kind == "union":
                    want_v = vb if va == "NotSet" else (va if vb == "NotSet" else ("All" if "All" in (va, vb) else "setop"))
                else:
                    want_v = vb if va == "NotSet" else (va if vb == "NotSet" else (vb if va == "All" else (va if vb == "All" else "setop")))
                # what the result must be, in terms of the operands
                got = set()
                for o in outs:
                    if o == "a":
                        got.add(va if va != "Specific" else "a-set")
                    elif o == "b":
                        got.add(vb if vb != "Specific" else "b-set")
                    else:
                        got.add(o)
                if want_v == "setop":
                    good = got == {"setop"}
                elif want_v == "Specific":
                    good = got <= {"a-set", "b-set"} and got and ((va == "Specific") == ("a-set" in got) or (vb == "Specific") == ("b-set" in got))
                else:
                    good = got == {want_v}
                if not good:
                    problems.append("%s(%s, %s) yields %s, the lattice says %s" % (kind, va, vb, "/".join(sorted(got)) or "nothing", want_v if want_v != "setop" else "Specific(set %s)" % kind))
        if problems:
            res.add([finding("S-LATTICE", key, where(f0), "; ".join(problems[:3]))])
        else:
            res.add([ok("S-LATTICE", key, where(f0), "all 9 pairs of variants agree with the lattice (NotSet neutral; All %s)" % ("absorbs" if kind == "union" else "is neutral"))])
    res.count("subset combinators", n)
    if n == 0:
        res.add([assumption("S-LATTICE", SUB + "|combinators", where_adt(adt), "no binary Subset operation built on HashSet::union / ::intersection found: lattice table not decided")])


def _classify_walk_value(v, SUB):
    if v[0] == "param" and not [p for p in v[2] if p[0] != "dc"]:
        return "a" if v[1] == 1 else "b"
    if v[0] == "agg" and v[1] == SUB:
        if v[2] in ("All", "NotSet"):
            return v[2]
        pay = v[3][0] if v[3] else ("?",)
        if pay[0] == "call":
            return "setop"
        if pay[0] == "param":
            return "a-set" if pay[1] == 1 else "b-set"
        return "Specific(?)"
    if v[0] == "call":
        return "call:" + v[1].split("::")[-1]
    return "?"


def where_adt(adt):
    return "%s:%s" % (adt["file"].replace("/repo/", ""), adt["line"])


def _classify_subset_value(F, f, du, rv, SUB):
    """what a value assigned to the return place is: operand a / b (moved through), a literal All / NotSet, or a Specific built
    by the set operation"""
    out = set()
    if rv["k"] == "agg" and rv.get("adt") == SUB:
        if rv["variant"] in ("All", "NotSet"):
            out.add(rv["variant"])
        else:
            src = mir.provenance(f, du, rv["ops"][0])
            if any(o.kind == "call" and o.callee.split("::")[-1] in ("collect", "union", "intersection", "cloned") for o in src):
                out.add("setop")
            elif any(o.kind == "arg" for o in src):
                for o in src:
                    if o.kind == "arg":
                        out.add("a" if o.local == 1 else "b")
            else:
                out.add("Specific(?)")
        return out
    if rv["k"] == "use":
        for o in mir.provenance(f, du, rv["op"]):
            if o.kind == "arg" and o.local in (1, 2):
                out.add("a" if o.local == 1 else "b")
            elif o.kind == "agg" and o.rv.get("adt") == SUB:
                out |= _classify_subset_value(F, f, du, o.rv, SUB)
            elif o.kind == "call":
                out.add("call:" + o.callee.split("::")[-1])
            else:
                out.add("?")
    return out


_KEEP = []


def run(ctx):
    F = ctx.F
    res = Result("C03")
    res.rule("S-PURE", "is_only_naked holds exactly when every entry is of the naked class")
    res.rule("S-TOPUP", "where candidates are topped up from the wider set, the top-up is skipped only because the window is full")
    res.rule("F-CANDIDATES", "bounded candidate sets come from the intersection of the constraints only")
    res.rule("S-INCLUDE", "every stated constraint narrows the search space; canonicalisation drops none")
    res.rule("S-COLLATERAL", "collateral candidates are pure-lovelace")
    res.rule("S-PREDICATE", "strategies guard their result with the covering predicates")
    res.rule("S-FABRICATE", "strategies return only UTxOs they were given")
    res.rule("C-ORDER", "the covering predicates (contains_total, is_empty_or_negative) decide each entry as stated, for every order type of the amounts")
    res.rule("S-LATTICE", "Subset union / intersection agree with the lattice on all 9 pairs of variants (NotSet neutral; All absorbs under union, is neutral under intersection)")
    res.rule("S-TRIM", "excess trimming removes one UTxO per evaluation of the excess of the current set")
    f_candidates(F, res)
    s_include(F, res)
    s_collateral(F, res)
    s_pure(F, res)
    res.rule("S-FAILLATE", "an input block is declared unresolvable only after the selection ran and came back empty")
    s_faillate(F, res)
    s_predicate(F, res)
    s_trim(F, res)
    res.rule("S-WHOLE", "a strategy ranks every UTxO of its search space: candidates are not collapsed under a computed key")
    s_whole(F, res)
    c04.s_fabricate(F, res)
    # the covering predicates themselves, decided over order types (shared with C15)
    from . import c15
    c15.c_order(F, res, rule="C-ORDER")
    s_lattice(F, res)
    if ctx.tier == "thorough":
        F2 = ctx.facts("naive")
        r2 = Result("C03")
        s_predicate(F2, r2, label=" [naive_selector]")
        s_trim(F2, r2, label=" [naive_selector]")
        s_whole(F2, r2, label=" [naive_selector]")
        f_candidates(F2, r2)
        have = {o.key for o in res.obs}
        res.add([o for o in r2.obs if o.key not in have])
    # an input block must be offered every UTxO no other *input* block has taken: what backs the collateral is a pool of its own
    # (rule shared with C04)
    res.rule("S-POOLS", "what input blocks took and what backs the collateral are remembered apart: no recording across the two memories")
    c04.s_pools(F, res)
    return res
