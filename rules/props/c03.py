"""C03 -- input selection honours every stated constraint (soundness side).

Static clauses:
  F-CANDIDATES  the candidate refs returned by SearchSpace::take(Some(n)) derive only from the *intersection* of the stated
                constraints, never from the union
  S-INCLUDE     narrow_search_space includes one subset per stated constraint: address (when given), every positively
                requested asset class, refs (when given); CanonicalQuery::try_from reads all five InputQuery fields
  S-COLLATERAL  in select_collateral the set given to pick_from_set comes out of a filter on `assets.is_only_naked()`
  S-PREDICATE   pick_single selects with `contains_total(target)`; pick_many returns the empty set unless
                `pending.is_empty_or_negative()` (both strategies; the naive one under its feature in the thorough tier)
  S-FABRICATE   strategies return only UTxOs they were given (shared with C04)
Not decided (not applicable to this family): completeness - "finds a match if one exists" depends on the greedy algorithm's
behaviour over all stores - and the correctness of contains_total / contains_some as orders.
"""
import re

from .. import mir
from ..common import CallGraph, call_matches, is_derive, with_closures
from ..engine import Result, ok, finding, assumption, where
from ..facts import BrokenCheck
from . import c04

META = {
    "level": "other",
    "explanation": (
        "Provenance, field-use and control-dependence rules on the narrowing and selection code (pre-transform coroutine MIR for "
        "the async functions): what SearchSpace::take may return, which constraint of the query feeds which include_* call, the "
        "naked-only filter for collateral, the predicates guarding the strategies' results, no fabricated UTxOs. These decide the "
        "soundness half of the property for every store and query; completeness is a statement about a greedy search over "
        "runtime data and is declared not applicable."),
    "trusted_base": ["rustc MIR, driver", "UtxoStore::narrow_refs returns refs matching the pattern; fetch_utxos returns the refs requested"],
    "not_decided": ["completeness of selection (greedy algorithm over all stores)", "contains_total / contains_some as value-level orders"],
}

NARROW = "tx3_resolver::inputs::narrow::"
SS = "tx3_resolver::inputs::narrow::SearchSpace"


def f_candidates(F, res):
    f = F.fn(NARROW + "SearchSpace::take")
    du = mir.DefUse(f)
    w = where(f)
    key = f["path"] + "|bounded take draws from the intersection only"
    # the `take == None` arm returns the union unbounded (documented: no limit) -> allowed only on the None edge
    from ..e8_state import option_switch
    cfg = mir.CFG(f)
    sw = option_switch(f, 2)
    union_reads = []
    for bi, si, s in mir.stmts(f):
        rv = s["rv"]
        pl = rv.get("pl") if rv["k"] == "ref" else mir.op_place(rv.get("op")) if rv["k"] in ("use", "cast") else None
        if pl is not None and any(p[0] == "f" and p[1] == "union" and p[2] == SS for p in pl["p"]):
            union_reads.append((bi, s["line"]))
    if not sw:
        raise BrokenCheck("SearchSpace::take no longer matches on its limit")
    bad = []
    for bi, line in union_reads:
        on_none = any(none_t is not None and (cfg.dominates(none_t, bi)) for (sb, none_t, some_t) in sw)
        if not on_none:
            bad.append(line)
    if bad:
        res.add([finding("F-CANDIDATES", key, where(f, bad[0]), "when a limit is given, take() tops the candidates up from the *union* of the constraints: a UTxO that satisfies only one of them (e.g. the ref but not the address) becomes a candidate")])
    else:
        res.add([ok("F-CANDIDATES", key, w, "with a limit, only `intersection` is read")])


def s_include(F, res):
    b = F.body(NARROW + "narrow_search_space")
    du = mir.DefUse(b)
    cfg = mir.CFG(b)
    CQ = "tx3_resolver::inputs::CanonicalQuery"
    want = {
        "include_address_matches": "address",
        "include_asset_class_matches": "min_amount",
        "add_ref_matches": "refs",
    }
    for meth, fld in want.items():
        calls = [(bi, t) for bi, t in mir.calls(b) if (t.get("callee") or "") == NARROW + "SearchSpace::" + meth]
        key = "%snarrow_search_space|%s constraint included" % (NARROW, fld)
        if not calls:
            res.add([finding("S-INCLUDE", key, where(b), "the `%s` constraint of the query never narrows the search space (%s is not called)" % (fld, meth))])
            continue
        # the subset handed over derives from the corresponding field of the criteria
        good = False
        for bi, t in calls:
            src = mir.provenance(b, du, t["args"][1], transparent_extra=("std::clone::Clone::clone",))
            txt = " ".join(repr(x) for x in src)
            reads = _fields_feeding(b, du, cfg, bi, CQ)
            if fld in reads or ("." + fld) in txt:
                good = True
        if good:
            res.add([ok("S-INCLUDE", key, where(b, calls[0][1]["line"]), "%s(..) is fed from criteria.%s" % (meth, fld))])
        else:
            res.add([finding("S-INCLUDE", key, where(b, calls[0][1]["line"]), "%s is not fed from criteria.%s" % (meth, fld))])
    # CanonicalQuery::try_from reads all InputQuery fields
    f = F.fn("<tx3_resolver::inputs::CanonicalQuery as std::convert::TryFrom<tx3_tir::model::v1beta0::InputQuery>>::try_from")
    IQ = "tx3_tir::model::v1beta0::InputQuery"
    read = set()
    for g in with_closures(F, f):
        for bi, si, s in mir.stmts(g):
            rv = s["rv"]
            pls = [rv.get("pl")] if rv["k"] in ("ref", "rawptr") else [mir.op_place(o) for o in mir.all_operands_of_rv(rv)]
            for pl in pls:
                if pl is not None:
                    for p in pl["p"]:
                        if p[0] == "f" and p[2] == IQ:
                            read.add(p[1])
    for fd in F.adt(IQ)["variants"][0]["fields"]:
        key = "%s|InputQuery.%s" % ("CanonicalQuery::try_from", fd["name"])
        if fd["name"] in read:
            res.add([ok("S-INCLUDE", key, where(f), "read")])
        else:
            res.add([finding("S-INCLUDE", key, where(f), "the `%s` constraint of an input block is dropped when the query is canonicalised" % fd["name"])])


def _fields_feeding(b, du, cfg, call_bb, adt):
    """fields of `adt` read in blocks that dominate call_bb or in the call block itself (the guards and sources of the call)"""
    out = set()
    for bi, si, s in mir.stmts(b):
        if not (bi == call_bb or cfg.dominates(bi, call_bb)):
            continue
        rv = s["rv"]
        pls = [rv.get("pl")] if rv["k"] in ("ref", "rawptr", "discr") else [mir.op_place(o) for o in mir.all_operands_of_rv(rv)]
        for pl in pls:
            if pl is not None:
                for p in pl["p"]:
                    if p[0] == "f" and p[2] == adt:
                        out.add(p[1])
    return out


def s_collateral(F, res):
    b, allb = c04.bodies_of(F, c04.SELP + "select_collateral")
    du = mir.DefUse(b)
    pf = [(bi, t) for bi, t in mir.calls(b) if (t.get("callee") or "").endswith("InputSelector::<'a, S>::pick_from_set")]
    key = c04.SELP + "select_collateral|only pure-lovelace UTxOs are eligible"
    if not pf:
        raise BrokenCheck("select_collateral no longer calls pick_from_set")
    good = True
    for bi, t in pf:
        src = mir.provenance(b, du, t["args"][0])
        found = False
        for x in src:
            if x.kind == "call" and x.callee == "std::iter::Iterator::collect":
                for y in mir.provenance(b, du, x.term["args"][0]):
                    if y.kind == "call" and y.callee == "std::iter::Iterator::filter":
                        for fr in y.term.get("fnrefs", ()):
                            g = F.fns.get(fr)
                            if g is not None and any((t2.get("callee") or "").endswith("CanonicalAssets::is_only_naked") for _, t2 in mir.calls(g)):
                                found = True
        if not found:
            good = False
    if good:
        res.add([ok("S-COLLATERAL", key, where(b), "pick_from_set(utxos.into_iter().filter(|x| x.assets.is_only_naked()).collect(), ..)")])
    else:
        res.add([finding("S-COLLATERAL", key, where(b), "collateral candidates are not restricted to pure-lovelace UTxOs")])


def s_predicate(F, res, label=""):
    for p in sorted(F.fns):
        m = re.search(r"<tx3_resolver::inputs::select::(\w+)::(\w+) as tx3_resolver::inputs::select::CoinSelection>::(pick_single|pick_many)$", p)
        if not m:
            continue
        f = F.fns[p]
        names = set()
        for g in with_closures(F, f):
            for bi, t in mir.calls(g):
                c = t.get("callee") or ""
                if c.startswith("tx3_tir::model::assets::CanonicalAssets::"):
                    names.add(c.split("::")[-1])
        key = "%s|%s predicate%s" % (m.group(2), m.group(3), label)
        if m.group(3) == "pick_single":
            if "contains_total" in names:
                res.add([ok("S-PREDICATE", key, where(f), "selects with contains_total(target)")])
            else:
                res.add([finding("S-PREDICATE", key, where(f), "pick_single does not test that the chosen UTxO alone covers the target (contains_total)")])
        else:
            cfg = mir.CFG(f)
            # the non-empty return must be on the is_empty_or_negative() true side: the `return HashSet::new()` must be
            # on the false side of a test of is_empty_or_negative
            tests = [bi for bi, t in mir.calls(f) if (t.get("callee") or "").endswith("CanonicalAssets::is_empty_or_negative")]
            if "is_empty_or_negative" in names and "contains_some" in names and tests:
                res.add([ok("S-PREDICATE", key, where(f), "accumulates while contains_some(pending); gives up unless pending.is_empty_or_negative()")])
            else:
                res.add([finding("S-PREDICATE", key, where(f), "pick_many can return a set that does not cover the target (missing is_empty_or_negative / contains_some)")])


def run(ctx):
    F = ctx.F
    res = Result("C03")
    res.rule("F-CANDIDATES", "bounded candidate sets come from the intersection of the constraints only")
    res.rule("S-INCLUDE", "every stated constraint narrows the search space; canonicalisation drops none")
    res.rule("S-COLLATERAL", "collateral candidates are pure-lovelace")
    res.rule("S-PREDICATE", "strategies guard their result with the covering predicates")
    res.rule("S-FABRICATE", "strategies return only UTxOs they were given")
    f_candidates(F, res)
    s_include(F, res)
    s_collateral(F, res)
    s_predicate(F, res)
    c04.s_fabricate(F, res)
    if ctx.tier == "thorough":
        F2 = ctx.facts("naive")
        r2 = Result("C03")
        s_predicate(F2, r2, label=" [naive_selector]")
        f_candidates(F2, r2)
        have = {o.key for o in res.obs}
        res.add([o for o in r2.obs if o.key not in have])
    return res
