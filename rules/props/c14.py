"""C14 -- the back end is total: resolving yields a transaction or an error, never a panic.

PANIC  every reachable panic site (K1..K4) in the workspace closure of resolve_tx, the Apply/Node stages on AnyTir,
       Compiler::compile / reduce_op and inputs::resolve is discharged structurally or reported.  No discharge may
       assume a particular IR shape ("lowering never produces this"): any decodable IR is admissible.
LOOP   loops in that closure are iterator-driven or literal-bounded.
Not decided: panics inside pallas beyond the K4 table; hangs in the store (trusted interface).
"""
from .. import mir
from ..common import CallGraph, table
from ..engine import Result, ok, finding, assumption, where
from . import c12
from .. import e8_state

META = {
    "level": "other",
    "explanation": (
        "Reachable panic-site inventory (panic!/todo!/unreachable!, unwrap/expect, overflow/bounds/division asserts, and a "
        "reviewed table of panicking library calls such as slice indexing and pallas Hash::<N>::from(&[u8])) over the "
        "call-graph closure of resolve_tx, Apply/Node on AnyTir, Compiler::compile/reduce_op and inputs::resolve; each site "
        "must be discharged by a dominance/guard argument that holds for every decodable IR, every argument value, store and "
        "protocol-parameter set, or it is reported with the call path from the entry point."),
    "trusted_base": ["rustc MIR, mirfacts driver", "K4 table of panicking library functions in rules/e1_panic.py", "tables/e1_rows.json"],
    "not_decided": ["panics inside pallas / minicbor beyond the K4 table", "hangs in the UtxoStore implementation (trusted interface)",
                    "stack exhaustion on deeply nested IR"],
}

ROOTS = [
    "tx3_resolver::resolve_tx",
    "tx3_resolver::inputs::resolve",
    "<tx3_cardano::Compiler as tx3_tir::compile::Compiler>::compile",
    "<tx3_cardano::Compiler as tx3_tir::compile::Compiler>::reduce_op",
    "<tx3_tir::encoding::AnyTir as tx3_tir::reduce::Apply>::apply_args",
    "<tx3_tir::encoding::AnyTir as tx3_tir::reduce::Apply>::apply_inputs",
    "<tx3_tir::encoding::AnyTir as tx3_tir::reduce::Apply>::apply_fees",
    "<tx3_tir::encoding::AnyTir as tx3_tir::reduce::Apply>::reduce",
    "<tx3_tir::encoding::AnyTir as tx3_tir::reduce::Apply>::params",
    "<tx3_tir::encoding::AnyTir as tx3_tir::reduce::Apply>::queries",
    "<tx3_tir::encoding::AnyTir as tx3_tir::reduce::Apply>::is_constant",
    "<tx3_tir::encoding::AnyTir as tx3_tir::Node>::apply",
]


def run(ctx):
    F = ctx.F
    res = Result("C14")
    res.rule("PANIC", "every reachable panic site in the back-end closure is discharged by a structural argument valid for every decodable IR")
    res.rule("LOOP", "loops in the closure are iterator-driven or literal-bounded")
    cg = CallGraph(F)
    rows = table("e1_rows")["C14"]
    reach, sites = c12.panic_obligations(F, res, ROOTS, rows, cg=cg, extra=[lambda s: e8_state.resolve_unwrap_discharge(F, s)])
    res.floor("functions in closure", res.analysed.get("functions in closure", 0), 400)
    res.floor("panic sites", res.analysed.get("panic sites", 0), 40)
    c12.loop_obligations(F, res, reach, crates=("tx3_tir", "tx3_cardano", "tx3_resolver"), rows=table("e1_rows").get("C14-loops", []))
    if ctx.tier == "thorough":
        # the same inventory with the alternative selector and with overflow checks off (release semantics): the
        # arithmetic sites must be reported either way
        for cfgname in ("naive",):
            F2 = ctx.facts(cfgname)
            r2 = Result("C14")
            c12.panic_obligations(F2, r2, ROOTS, rows, cg=CallGraph(F2), rule="PANIC[%s]" % cfgname,
                                  extra=[lambda s: e8_state.resolve_unwrap_discharge(F2, s)])
            for o in r2.obs:
                o.rule = "PANIC"
            have = {o.key for o in res.obs}
            res.add([o for o in r2.obs if o.key not in have])
    return res
