"""E17 - TRUTH TABLES: the boolean function a small predicate computes, by enumerating its acyclic paths.

A predicate (a closure or function returning bool, helpers inlined by the caller) is walked path by path.  Bool-valued locals
carry a symbolic value: a constant, or an *atom* with a polarity.  Atoms are the tests the code makes on data:

  ("flag", <origin>)            a bool read from the argument (a `bool` field / tuple component)
  ("positive", <origin>)        an unsigned quantity compared with 0 (`x > 0`, `x != 0`, `0 < x`, `x >= 1`; `x == 0`, `x < 1`,
                                `x <= 0` are its negation)
  ("empty", <origin>)           `.is_empty()` of something (`len() == 0` likewise, `len() > 0` / `!= 0` its negation)

A switch on an atom forks the path (both valuations, unless the path already fixed it); a switch on an enum discriminant forks
over its arms and is recorded in the path's *context*; any other switch forks blindly and marks the path `opaque`.  Each path
that reaches the return yields (assignment, context, result, opaque).  Origins are written without local numbers (argument
index + projection), so two reads of the same field are the same atom.

The table is exact for the fragment it recognises; a predicate outside of it comes back with opaque paths and the caller must
treat it as not decided.
"""
from . import mir

NOT_CALLS = ("std::ops::Not::not",)


def _origin_name(fn, du, op):
    """a position-free name for where a value comes from"""
    names = []
    for o in mir.provenance(fn, du, op, transparent_extra=("std::ops::Deref::deref", "std::clone::Clone::clone")):
        if o.kind == "arg":
            names.append("arg%d%s" % (o.local, "".join(o.proj)))
        elif o.kind == "call":
            names.append("%s()" % o.callee.split("::")[-1])
        elif o.kind == "const":
            names.append("const")
        else:
            names.append(o.kind)
    return "|".join(sorted(set(names))) or "?"


def _neg(v):
    if v is None:
        return None
    if v[0] == "const":
        return ("const", not v[1])
    return ("atom", v[1], not v[2])


def table(fn, max_paths=4000):
    """[(assignment {atom: bool}, context ((adt, variant index), ..), result bool, opaque bool)]"""
    du = mir.DefUse(fn)
    blocks = fn["blocks"]
    out = []
    budget = [max_paths]

    def int_const(op):
        c = mir.op_const(op)
        return c.get("int") if c and "int" in c else None

    def sym_of_op(st, op):
        c = mir.op_const(op)
        if c is not None:
            if c.get("ty") == "bool" and "int" in c:
                return ("const", bool(c["int"]))
            return None
        pl = mir.op_place(op)
        if pl is None:
            return None
        if not [p for p in pl["p"] if p[0] != "d"]:
            v = st.get(pl["l"])
            if v is not None:
                return v
        # a bool read through the argument
        ty = _place_ty(fn, pl)
        if ty in ("bool", "&bool"):
            return ("atom", ("flag", _origin_name(fn, du, op)), True)
        return None

    def cmp_atom(st, rv):
        """atom for `a <op> b` where one side is the literal 0 / 1 and the other a quantity or a len()"""
        op = rv["op"]
        a, b = rv["a"], rv["b"]
        ca, cb = int_const(a), int_const(b)
        if ca is not None and cb is None:
            # mirror: c <op> x  ==  x <op'> c
            a, b, ca, cb = b, a, cb, ca
            op = {"Lt": "Gt", "Gt": "Lt", "Le": "Ge", "Ge": "Le"}.get(op, op)
        if cb is None:
            return None
        pl = mir.op_place(a)
        if pl is None:
            return None
        tag = st.get(("len", pl["l"])) if not pl["p"] else None
        base = ("empty", tag) if tag else ("positive", _origin_name(fn, du, a))
        # truth of "x is positive" for unsigned x
        pos = {("Gt", 0): True, ("Ne", 0): True, ("Ge", 1): True, ("Eq", 0): False, ("Le", 0): False, ("Lt", 1): False}.get((op, cb))
        if pos is None:
            return None
        if tag:
            return ("atom", base, not pos)      # len() > 0  <=>  not empty
        return ("atom", base, pos)

    def walk(bi, st, assign, ctx, opaque, visited):
        if budget[0] <= 0:
            return
        if bi in visited or blocks[bi]["cleanup"]:
            return
        visited = visited | {bi}
        st = dict(st)
        b = blocks[bi]
        for s in b["s"]:
            if s["lhs"]["p"]:
                continue
            l = s["lhs"]["l"]
            rv = s["rv"]
            v = None
            if rv["k"] == "use":
                v = sym_of_op(st, rv["op"])
                pl = mir.op_place(rv["op"])
                if pl is not None and not pl["p"] and ("len", pl["l"]) in st:
                    st[("len", l)] = st[("len", pl["l"])]
            elif rv["k"] == "unop" and rv.get("op") == "Not":
                v = _neg(sym_of_op(st, rv["a"]))
            elif rv["k"] == "binop" and rv["op"] in ("Lt", "Le", "Gt", "Ge", "Eq", "Ne"):
                v = cmp_atom(st, rv)
            elif rv["k"] == "discr":
                st[("discr", l)] = (rv.get("adt"), _origin_name(fn, du, {"cp": rv["pl"]}))
            if v is not None:
                st[l] = v
            else:
                st.pop(l, None)
        t = b["t"]
        k = t["k"]
        if k == "return":
            v = st.get(0)
            if v is None:
                out.append((dict(assign), ctx, None, True))
            elif v[0] == "const":
                out.append((dict(assign), ctx, v[1], opaque))
            else:
                atom, pol = v[1], v[2]
                if atom in assign:
                    out.append((dict(assign), ctx, assign[atom] == pol, opaque))
                else:
                    for val in (True, False):
                        a2 = dict(assign)
                        a2[atom] = val
                        out.append((a2, ctx, val == pol, opaque))
            budget[0] -= 1
            return
        if k == "goto":
            walk(t["t"], st, assign, ctx, opaque, visited)
            return
        if k == "call":
            if t.get("t") is None:
                return
            c = t.get("callee") or ""
            dest = t["dest"]
            v = None
            if not dest["p"]:
                if c in NOT_CALLS and t["args"]:
                    v = _neg(sym_of_op(st, t["args"][0]))
                elif c.endswith("::is_empty") and t["args"]:
                    v = ("atom", ("empty", _origin_name(fn, du, t["args"][0])), True)
                elif c.endswith("::len") and t["args"]:
                    st[("len", dest["l"])] = _origin_name(fn, du, t["args"][0])
                if v is not None:
                    st[dest["l"]] = v
                else:
                    st.pop(dest["l"], None)
            walk(t["t"], st, assign, ctx, opaque, visited)
            return
        if k == "switch":
            pl = mir.op_place(t["discr"])
            v = st.get(pl["l"]) if pl is not None and not pl["p"] else None
            if v is None and pl is not None and not pl["p"]:
                v = sym_of_op(st, t["discr"]) if fn["locals"][pl["l"]] == "bool" else None
            edges = list(t["targets"])
            if v is not None and t.get("dty") == "bool":
                false_t = dict((a, b2) for a, b2 in edges).get(0, t["otherwise"])
                true_t = t["otherwise"] if any(a == 0 for a, _ in edges) else dict((a, b2) for a, b2 in edges).get(1, t["otherwise"])
                if v[0] == "const":
                    walk(true_t if v[1] else false_t, st, assign, ctx, opaque, visited)
                    return
                atom, pol = v[1], v[2]
                for val in ((assign[atom],) if atom in assign else (True, False)):
                    a2 = dict(assign)
                    a2[atom] = val
                    walk(true_t if (val == pol) else false_t, st, a2, ctx, opaque, visited)
                return
            d = st.get(("discr", pl["l"])) if pl is not None and not pl["p"] else None
            if d is not None:
                seen_t = set()
                for val, tb in edges + [("_", t["otherwise"])]:
                    if tb is None or tb in seen_t:
                        continue
                    seen_t.add(tb)
                    if _is_unreachable(blocks, tb):
                        continue
                    walk(tb, st, assign, ctx + ((d[0], d[1], val),), opaque, visited)
                return
            for tb in {x for _, x in edges} | ({t["otherwise"]} if t["otherwise"] is not None else set()):
                if not _is_unreachable(blocks, tb):
                    walk(tb, st, assign, ctx, True, visited)
            return
        if k in ("drop", "assert", "falseedge", "falseunwind"):
            nt = t.get("t")
            if nt is not None:
                walk(nt, st, assign, ctx, opaque, visited)
            return
        for n in mir.block_succs(b):
            if not blocks[n]["cleanup"]:
                walk(n, st, assign, ctx, opaque, visited)

    walk(0, {}, {}, (), False, frozenset())
    return out


def _is_unreachable(blocks, bi):
    b = blocks[bi]
    return b["t"]["k"] == "unreachable" and not b["s"]


def _place_ty(fn, pl):
    """type of a place when its last projection records it (field projections carry the field type), else the local's type"""
    last = None
    for p in pl["p"]:
        if p[0] == "f":
            last = p[-1]
    if last is not None:
        return last
    ty = fn["locals"][pl["l"]]
    if [p for p in pl["p"] if p[0] == "d"] and ty.startswith("&"):
        return ty[1:].replace("mut ", "", 1)
    return ty
