"""Order-type evaluation of per-entry predicates.

Some functions the properties talk about (`contains_total`, `is_empty_or_negative`, ...) decide their result entry by entry and
touch the amounts *only through comparisons* with each other and with literals.  Such a function is a finite object: its verdict
for one entry depends only on whether the entry is present in the other map and on the *order type* of (self amount, other
amount, the literals compared with).  This module extracts that decision procedure from MIR and tabulates it over all order types
(an abstract interpretation over the finite domain of weak orderings - no amount is ever computed), so that a property module can
compare the table with what the property states.

Recognised shape (anything else -> None = "not of this shape", never a verdict):

    for (key, v_iter) in <iterated map>.iter() {          # the loop over one operand's entries
        ... comparisons of v_iter / literals ...
        let v_get = <other map>.get(key)  -> presence test  # optional lookup in the other operand
        ... comparisons of v_get / v_iter / literals ...
        return <const bool>   |   continue
    }
    <const bool>                                           # result when every entry passed
"""
import itertools

from . import mir

CMP_CALLS = {"lt": "Lt", "le": "Le", "gt": "Gt", "ge": "Ge", "eq": "Eq", "ne": "Ne"}
VAL_TRANSPARENT = ("std::clone::Clone::clone", "std::option::Option::<&T>::cloned", "std::option::Option::<&T>::copied",
                   "std::ops::Deref::deref", "std::borrow::Borrow::borrow")


class Shape(Exception):
    pass


class EntryPredicate:
    """decision procedure of `fn` for one entry of the map it iterates"""

    def __init__(self, F, fn):
        self.F = F
        self.fn = fn
        self.du = mir.DefUse(fn)
        self.cfg = mir.CFG(fn)
        self._find_loop()

    # -------------------------------------------------------------------------------------------
    def _find_loop(self):
        fn = self.fn
        loops = self.cfg.loops()
        cand = []
        for h, body in loops.items():
            for b in body:
                t = fn["blocks"][b]["t"]
                if t["k"] == "call" and t.get("trait") == "std::iter::Iterator" and t.get("method") == "next":
                    cand.append((h, body, b, t))
        if len(cand) != 1:
            raise Shape("expected exactly one iterator-driven loop, found %d" % len(cand))
        self.head, self.body, self.next_bb, self.next_t = cand[0]
        # which parameter is iterated
        src = mir.provenance(fn, self.du, self.next_t["args"][0], transparent_extra=(
            "std::collections::HashMap::<K, V, S, A>::iter", "std::iter::IntoIterator::into_iter", "std::ops::Deref::deref",
            "std::collections::BTreeMap::<K, V, A>::iter"))
        args = {o.local for o in src if o.kind == "arg"}
        if len(args) != 1:
            raise Shape("the loop does not iterate over one parameter's entries")
        self.iter_arg = args.pop()
        # the Some / None edges of next()
        nb = fn["blocks"][self.next_t["t"]]
        sw = nb["t"]
        if sw["k"] != "switch":
            raise Shape("next() is not matched directly")
        tm = dict((v, tb) for v, tb in sw["targets"])
        self.some_bb = tm.get(1, sw["otherwise"])
        self.none_bb = tm.get(0, sw["otherwise"])
        self.item = self.next_t["dest"]["l"]

    # -------------------------------------------------------------------------------------------
    def _role(self, op, state):
        """role of an operand: ("iter",) the iterated entry's value, ("get",) the looked-up value, ("const", n), None"""
        c = mir.op_const(op)
        if c is not None and "int" in c:
            return ("const", c["int"])
        pl = mir.op_place(op)
        if pl is None:
            return None
        roles = set()
        for o in mir.provenance(self.fn, self.du, op, transparent_extra=VAL_TRANSPARENT):
            if o.kind == "call" and o.term is self.next_t:
                pj = [p for p in o.proj if not p.startswith(" as ")]
                if pj[:2] == [".0", ".1"] or pj[:1] == [".1"]:
                    roles.add(("iter",))
                elif pj[:2] == [".0", ".0"]:
                    roles.add(("key",))
                else:
                    roles.add(("iter",)) if self._iter_is_values() else roles.add(None)
            elif o.kind == "call" and o.term is state.get("get_t"):
                roles.add(("get",))
            elif o.kind == "const" and "int" in o.const:
                roles.add(("const", o.const["int"]))
            else:
                roles.add(None)
        if len(roles) == 1:
            return roles.pop()
        return None

    def _iter_is_values(self):
        return "::values" in " ".join(self.next_t.get("gargs") or []) or "Values<" in self.fn["locals"][mir.op_place(self.next_t["args"][0])["l"]]

    # -------------------------------------------------------------------------------------------
    def run(self, scenario):
        """verdict for one entry under a scenario {"present": bool, "rank": {("iter",): r, ("get",): r, ("const", n): r ...}}:
        "continue" | True | False.  Raises Shape when the body does something other than comparisons / one lookup."""
        fn = self.fn
        bb = self.some_bb
        state = {}
        bools = {}
        steps = 0
        while True:
            steps += 1
            if steps > 200:
                raise Shape("entry body does not terminate structurally")
            if bb == self.head or bb == self.next_bb:
                return "continue"
            b = fn["blocks"][bb]
            for s in b["s"]:
                rv = s["rv"]
                if rv["k"] == "binop" and rv["op"] in ("Eq", "Ne", "Lt", "Le", "Gt", "Ge"):
                    bools[s["lhs"]["l"]] = self._cmp(rv["op"], rv["a"], rv["b"], state, scenario)
                elif rv["k"] == "unop" and rv.get("op") == "Not":
                    pl = mir.op_place(rv["a"])
                    if pl is not None and pl["l"] in bools:
                        bools[s["lhs"]["l"]] = not bools[pl["l"]]
                elif rv["k"] == "use":
                    pl = mir.op_place(rv["op"])
                    c = mir.op_const(rv["op"])
                    if s["lhs"]["l"] == 0 and not s["lhs"]["p"]:
                        if c is not None and "int" in c:
                            state["ret"] = bool(c["int"])
                        elif pl is not None and pl["l"] in bools:
                            state["ret"] = bools[pl["l"]]
                        else:
                            raise Shape("returns a value that is not a comparison result or a literal")
                    elif pl is not None and not pl["p"] and pl["l"] in bools:
                        bools[s["lhs"]["l"]] = bools[pl["l"]]
                elif rv["k"] == "discr":
                    pass
            t = b["t"]
            k = t["k"]
            if k == "return":
                if "ret" not in state:
                    raise Shape("return without a literal / comparison result")
                return state["ret"]
            if k in ("goto", "drop"):
                bb = t["t"]
                continue
            if k == "switch":
                pl = mir.op_place(t["discr"])
                if pl is None:
                    raise Shape("switch on a constant")
                if pl["l"] in bools:
                    val = 1 if bools[pl["l"]] else 0
                else:
                    # discriminant of the lookup result
                    dl = None
                    for s in b["s"]:
                        if s["lhs"]["l"] == pl["l"] and s["rv"]["k"] == "discr":
                            dl = s["rv"]["pl"]["l"]
                    if dl is not None and state.get("get_t") is not None and dl == state["get_t"]["dest"]["l"]:
                        val = 1 if scenario["present"] else 0
                    else:
                        raise Shape("branch on something that is not a comparison of the amounts or the lookup result")
                tm = dict((v, tb) for v, tb in t["targets"])
                bb = tm.get(val, t["otherwise"])
                continue
            if k == "call":
                c = t.get("callee") or ""
                name = c.split("::")[-1]
                if name == "get" and ("HashMap" in c or "BTreeMap" in c) and "get_t" not in state:
                    # lookup of the iterated key in the other operand
                    recv = {o.local for o in mir.provenance(fn, self.du, t["args"][0], transparent_extra=("std::ops::Deref::deref",)) if o.kind == "arg"}
                    if not recv or self.iter_arg in recv:
                        raise Shape("lookup is not in the other operand")
                    if self._role(t["args"][1], state) != ("key",):
                        raise Shape("lookup key is not the iterated entry's key")
                    state["get_t"] = t
                    bb = t["t"]
                    continue
                if name in CMP_CALLS and ("PartialOrd" in c or "PartialEq" in c or "cmp::" in c) and len(t["args"]) == 2:
                    bools[t["dest"]["l"]] = self._cmp(CMP_CALLS[name], t["args"][0], t["args"][1], state, scenario)
                    bb = t["t"]
                    continue
                if c in VAL_TRANSPARENT or name in ("deref", "clone", "cloned", "copied"):
                    bb = t["t"]
                    continue
                raise Shape("the entry body calls %s" % c.split("::<")[0])
            raise Shape("unexpected terminator %s" % k)

    def _cmp(self, op, a, b, state, scenario):
        ra, rb = self._role(a, state), self._role(b, state)
        if ra is None or rb is None or ra == ("key",) or rb == ("key",):
            raise Shape("comparison of something other than the two amounts and literals")
        if ra == ("get",) and not scenario["present"] or rb == ("get",) and not scenario["present"]:
            raise Shape("the looked-up amount is compared on the absent edge")
        x, y = scenario["rank"][ra], scenario["rank"][rb]
        return {"Eq": x == y, "Ne": x != y, "Lt": x < y, "Le": x <= y, "Gt": x > y, "Ge": x >= y}[op]

    # -------------------------------------------------------------------------------------------
    def exhausted_result(self):
        """the constant returned when the loop runs out of entries"""
        fn = self.fn
        bb = self.none_bb
        seen = set()
        ret = None
        while bb is not None and bb not in seen:
            seen.add(bb)
            b = fn["blocks"][bb]
            for s in b["s"]:
                if s["lhs"]["l"] == 0 and not s["lhs"]["p"] and s["rv"]["k"] == "use":
                    c = mir.op_const(s["rv"]["op"])
                    if c is not None and "int" in c:
                        ret = bool(c["int"])
            t = b["t"]
            if t["k"] == "return":
                return ret
            if t["k"] in ("goto", "drop"):
                bb = t["t"]
            else:
                return None
        return None

    def prefix_returns(self):
        """returns taken before the loop looks at any entry: [(constant or None, set of parameters the deciding tests depend
        on)].  A verdict reached there is a verdict for *every* content of the iterated map, the empty one included."""
        fn = self.fn
        out = []

        def deps(local, depth=0, seen=None):
            seen = seen if seen is not None else set()
            if local in seen or depth > 8:
                return set()
            seen.add(local)
            if 1 <= local <= fn["argc"]:
                return {local}
            r = set()
            for d in self.du.defs.get(local, []):
                if d[0] == "call":
                    ops = d[3]["args"]
                else:
                    rv = d[3]["rv"]
                    ops = [rv.get(k) for k in ("op", "a", "b") if isinstance(rv.get(k), dict)] + list(rv.get("ops") or [])
                    if rv.get("pl") is not None:
                        ops.append({"cp": rv["pl"]})
                for o in ops:
                    pl = mir.op_place(o)
                    if pl is not None:
                        r |= deps(pl["l"], depth + 1, seen)
            return r

        def walk(bb, ret, guards, visited):
            if bb in visited or bb == self.head or bb in self.body or fn["blocks"][bb]["cleanup"]:
                return
            visited = visited | {bb}
            b = fn["blocks"][bb]
            for s in b["s"]:
                if s["lhs"]["l"] == 0 and not s["lhs"]["p"]:
                    c = mir.op_const(s["rv"]["op"]) if s["rv"]["k"] == "use" else None
                    ret = bool(c["int"]) if c is not None and "int" in c else None
            t = b["t"]
            if t["k"] == "return":
                out.append((ret, set(guards)))
                return
            if t["k"] == "switch":
                pl = mir.op_place(t["discr"])
                g2 = guards | (deps(pl["l"]) if pl is not None else set())
                for n in mir.block_succs(b):
                    walk(n, ret, g2, visited)
                return
            if t["k"] == "call" and t["dest"]["l"] == 0 and not t["dest"]["p"]:
                ret = None
            for n in mir.block_succs(b):
                walk(n, ret, guards, visited)
        walk(0, None, frozenset(), frozenset())
        return out

    def literals(self):
        """integer literals the body compares amounts with"""
        out = set()
        for b in self.body:
            for s in self.fn["blocks"][b]["s"]:
                rv = s["rv"]
                if rv["k"] == "binop" and rv["op"] in ("Eq", "Ne", "Lt", "Le", "Gt", "Ge"):
                    for o in (rv["a"], rv["b"]):
                        c = mir.op_const(o)
                        if c is not None and "int" in c:
                            out.add(c["int"])
        return out

    def table(self, uses_get=True):
        """[(scenario description, scenario, verdict)] over every order type of (iterated amount, looked-up amount, literals)"""
        lits = sorted(self.literals() | {0})
        syms = [("iter",)] + ([("get",)] if uses_get else [])
        rows = []
        # order types: place each symbol below / at / between / above the literals, and order the symbols among themselves
        # where they fall into the same gap.  Positions are encoded as even numbers for literals, odd for gaps.
        lit_rank = {("const", n): 2 * (i + 1) for i, n in enumerate(lits)}
        slots = list(range(1, 2 * len(lits) + 2))
        for present in ((True, False) if uses_get else (True,)):
            use = syms if present else [("iter",)]
            for pos in itertools.product(slots, repeat=len(use)):
                variants = [()]
                if len(use) == 2 and pos[0] == pos[1] and pos[0] % 2 == 1:
                    variants = [(0, 0), (0, 0.25), (0.25, 0)]   # same gap: equal / iter below get / get below iter
                else:
                    variants = [tuple(0 for _ in use)]
                for var in variants:
                    rank = dict(lit_rank)
                    for sym, p, dv in zip(use, pos, var):
                        rank[sym] = p + dv
                    sc = {"present": present, "rank": rank}
                    try:
                        v = self.run(sc)
                    except Shape:
                        raise
                    rows.append((sc, v))
        return lits, rows


class ChainPredicate(EntryPredicate):
    """the same decision procedure written as an iterator chain: `<map>.iter() [.filter(p)]* .all(q)` / `.any(q)` whose result
    (possibly negated) is what the function returns.  Per entry: a filter that fails means "next entry"; `all`: q false ->
    false, else next; `any`: q true -> true, else next; when the entries run out: true for `all`, false for `any`."""

    ITER_SRC = ("std::collections::HashMap::<K, V, S, A>::iter", "std::iter::IntoIterator::into_iter", "std::ops::Deref::deref",
                "std::collections::BTreeMap::<K, V, A>::iter")

    def __init__(self, F, fn):
        self.F = F
        self.fn = fn
        self.du = mir.DefUse(fn)
        self.cfg = mir.CFG(fn)
        terms = [(bi, t) for bi, t in mir.calls(fn) if (t.get("callee") or "") in ("std::iter::Iterator::all", "std::iter::Iterator::any")]
        if len(terms) != 1:
            raise Shape("expected exactly one all(..) / any(..) over the entries, found %d" % len(terms))
        self.term_bb, self.term_t = terms[0]
        self.quant = self.term_t["callee"].rsplit("::", 1)[-1]
        # the result is what is returned (possibly through `!`)
        self.negated = None
        for o in mir.provenance(fn, self.du, {"cp": {"l": 0, "p": []}}):
            if o.kind == "call" and o.term is self.term_t:
                self.negated = False
        if self.negated is None:
            neg = [st for _, _, st in mir.stmts(fn) if st["rv"]["k"] == "unop" and st["rv"].get("op") == "Not" and mir.op_place(st["rv"]["a"]) is not None
                   and mir.op_place(st["rv"]["a"])["l"] == self.term_t["dest"]["l"]]
            if neg and not self.term_t["dest"]["p"]:
                self.negated = True
            else:
                raise Shape("the result of the quantifier is not what the function returns")
        # walk the chain back to the iterated parameter, collecting the filters
        self.stages = []
        cur = self.term_t
        hops = 0
        while True:
            hops += 1
            if hops > 6:
                raise Shape("iterator chain too long")
            src = [o for o in mir.provenance(fn, self.du, cur["args"][0], transparent_extra=("std::iter::Iterator::by_ref",)) if o.kind == "call"]
            if len(src) != 1:
                args = {o.local for o in mir.provenance(fn, self.du, cur["args"][0], transparent_extra=self.ITER_SRC) if o.kind == "arg"}
                if len(args) == 1:
                    self.iter_arg = args.pop()
                    break
                raise Shape("the chain does not start at one parameter's entries")
            c = src[0].callee
            if c == "std::iter::Iterator::filter":
                self.stages.insert(0, ("filter", self._closure_of(src[0].term)))
                cur = src[0].term
                continue
            args = {o.local for o in mir.provenance(fn, self.du, cur["args"][0], transparent_extra=self.ITER_SRC) if o.kind == "arg"}
            if len(args) == 1 and (c in self.ITER_SRC or c.endswith("::iter")):
                self.iter_arg = args.pop()
                break
            raise Shape("adaptor %s in the chain" % c.split("::")[-1])
        self.stages.append((self.quant, self._closure_of(self.term_t)))
        self.head = self.term_bb
        self.body = set()

    def _closure_of(self, t):
        """(closure fn, {capture index: owner parameter local})"""
        fn = self.fn
        for o in mir.provenance(fn, self.du, t["args"][1]):
            if o.kind == "agg" and o.rv.get("closure") in self.F.fns:
                caps = {}
                for i, op in enumerate(o.rv.get("ops") or []):
                    a = {x.local for x in mir.provenance(fn, self.du, op, transparent_extra=("std::ops::Deref::deref",)) if x.kind == "arg"}
                    if len(a) == 1:
                        caps[i] = a.pop()
                return (self.F.fns[o.rv["closure"]], caps)
        raise Shape("the predicate of %s is not a closure literal" % (t.get("callee") or "").split("::")[-1])

    # per-closure interpretation -----------------------------------------------------------------
    def _crole(self, g, du, op, state):
        c = mir.op_const(op)
        if c is not None and "int" in c:
            return ("const", c["int"])
        roles = set()
        ov = state.get("override", {}).get(g["path"])
        for o in mir.provenance(g, du, op, transparent_extra=VAL_TRANSPARENT):
            if ov is not None and o.kind == "arg":
                # a closure nested in the predicate (`.is_some_and(|held| ..)`): its parameter is the looked-up amount, its
                # captures are what the predicate handed it
                if o.local == 2:
                    roles.add(ov["param"])
                elif o.local == 1:
                    idx = [int(p[1:]) for p in o.proj if p[:1] == "." and p[1:].isdigit()]
                    roles.add(ov["caps"].get(idx[0]) if idx else None)
                else:
                    roles.add(None)
                continue
            if o.kind == "arg" and o.local == 2:
                nums = [p for p in o.proj if p[:1] == "." and p[1:].isdigit()]
                if nums and nums[-1] == ".1":
                    roles.add(("iter",))
                elif nums and nums[-1] == ".0":
                    roles.add(("key",))
                else:
                    roles.add(None)
            elif o.kind == "call" and o.term is state.get("get_t"):
                roles.add(("get",))
            elif o.kind == "const" and "int" in o.const:
                roles.add(("const", o.const["int"]))
            else:
                roles.add(None)
        return roles.pop() if len(roles) == 1 else None

    def _ccmp(self, g, du, op, a, b, state, scenario):
        ra, rb = self._crole(g, du, a, state), self._crole(g, du, b, state)
        if ra is None or rb is None or ra == ("key",) or rb == ("key",):
            raise Shape("comparison of something other than the two amounts and literals")
        if (ra == ("get",) or rb == ("get",)) and not scenario["present"]:
            raise Shape("the looked-up amount is compared on the absent edge")
        x, y = scenario["rank"][ra], scenario["rank"][rb]
        return {"Eq": x == y, "Ne": x != y, "Lt": x < y, "Le": x <= y, "Gt": x > y, "Ge": x >= y}[op]

    def _eval_closure(self, g, caps, scenario, state):
        du = mir.DefUse(g)
        bb = 0
        bools = {}
        ret = None
        steps = 0
        while True:
            steps += 1
            if steps > 200:
                raise Shape("closure body does not terminate structurally")
            b = g["blocks"][bb]
            for s in b["s"]:
                rv = s["rv"]
                l = s["lhs"]["l"]
                if s["lhs"]["p"]:
                    continue
                v = None
                if rv["k"] == "binop" and rv["op"] in ("Eq", "Ne", "Lt", "Le", "Gt", "Ge"):
                    v = self._ccmp(g, du, rv["op"], rv["a"], rv["b"], state, scenario)
                elif rv["k"] == "unop" and rv.get("op") == "Not":
                    pl = mir.op_place(rv["a"])
                    if pl is not None and pl["l"] in bools:
                        v = not bools[pl["l"]]
                elif rv["k"] == "use":
                    pl = mir.op_place(rv["op"])
                    c = mir.op_const(rv["op"])
                    if c is not None and c.get("ty") == "bool" and "int" in c:
                        v = bool(c["int"])
                    elif pl is not None and not pl["p"] and pl["l"] in bools:
                        v = bools[pl["l"]]
                if v is not None:
                    bools[l] = v
                    if l == 0:
                        ret = v
                elif l == 0:
                    ret = None
                else:
                    bools.pop(l, None)
            t = b["t"]
            k = t["k"]
            if k == "return":
                if ret is None:
                    raise Shape("the closure returns something that is not a comparison result or a literal")
                return ret
            if k in ("goto", "drop"):
                bb = t["t"]
                continue
            if k == "switch":
                pl = mir.op_place(t["discr"])
                if pl is None:
                    raise Shape("switch on a constant")
                if pl["l"] in bools:
                    val = 1 if bools[pl["l"]] else 0
                else:
                    dl = None
                    for s in b["s"]:
                        if s["lhs"]["l"] == pl["l"] and s["rv"]["k"] == "discr":
                            dl = s["rv"]["pl"]["l"]
                    if dl is not None and state.get("get_t") is not None and dl == state["get_t"]["dest"]["l"]:
                        val = 1 if scenario["present"] else 0
                    else:
                        raise Shape("branch on something that is not a comparison of the amounts or the lookup result")
                tm = dict((v, tb) for v, tb in t["targets"])
                bb = tm.get(val, t["otherwise"])
                continue
            if k == "call":
                c = t.get("callee") or ""
                name = c.split("::")[-1]
                if name == "get" and ("HashMap" in c or "BTreeMap" in c or "CanonicalAssets" in c) and "get_t" not in state:
                    recv = set()
                    for o in mir.provenance(g, du, t["args"][0], transparent_extra=("std::ops::Deref::deref",)):
                        if o.kind == "arg" and o.local == 1:
                            for pr in o.proj:
                                if pr[:1] == "." and pr[1:].isdigit() and int(pr[1:]) in caps:
                                    recv.add(caps[int(pr[1:])])
                    if not recv or self.iter_arg in recv:
                        raise Shape("lookup is not in the other operand")
                    if self._crole(g, du, t["args"][1], state) != ("key",):
                        raise Shape("lookup key is not the iterated entry's key")
                    state["get_t"] = t
                    bb = t["t"]
                    continue
                if name in CMP_CALLS and ("PartialOrd" in c or "PartialEq" in c or "cmp::" in c) and len(t["args"]) == 2:
                    v = self._ccmp(g, du, CMP_CALLS[name], t["args"][0], t["args"][1], state, scenario)
                    if not t["dest"]["p"]:
                        bools[t["dest"]["l"]] = v
                        if t["dest"]["l"] == 0:
                            ret = v
                    bb = t["t"]
                    continue
                if name in ("is_some_and", "is_none_or") and c.startswith("std::option::Option") and state.get("get_t") is not None and len(t["args"]) == 2:
                    # `<other>.get(key).is_some_and(|held| ..)`: absent -> false (true for is_none_or); present -> the nested
                    # closure's verdict, its parameter being the looked-up amount
                    src = mir.provenance(g, du, t["args"][0], transparent_extra=VAL_TRANSPARENT)
                    if not src or not all(o.kind == "call" and o.term is state["get_t"] for o in src):
                        raise Shape("%s on something that is not the lookup's result" % name)
                    if not scenario["present"]:
                        v = (name == "is_none_or")
                    else:
                        inner = None
                        for o in mir.provenance(g, du, t["args"][1]):
                            if o.kind == "agg" and o.rv.get("closure") in self.F.fns:
                                inner = (self.F.fns[o.rv["closure"]], o.rv.get("ops") or [])
                        if inner is None:
                            raise Shape("the predicate of %s is not a closure literal" % name)
                        g2, ops2 = inner
                        caps2 = {i: self._crole(g, du, op2, state) for i, op2 in enumerate(ops2)}
                        state.setdefault("override", {})[g2["path"]] = {"param": ("get",), "caps": caps2}
                        v = self._eval_closure(g2, {}, scenario, state)
                    if not t["dest"]["p"]:
                        bools[t["dest"]["l"]] = v
                        if t["dest"]["l"] == 0:
                            ret = v
                    bb = t["t"]
                    continue
                if c in VAL_TRANSPARENT or name in ("deref", "clone", "cloned", "copied"):
                    bb = t["t"]
                    continue
                raise Shape("the predicate calls %s" % c.split("::<")[0])
            raise Shape("unexpected terminator %s" % k)

    def run(self, scenario):
        state = {}
        for kind, (g, caps) in self.stages:
            v = self._eval_closure(g, caps, scenario, state)
            if kind == "filter":
                if not v:
                    return "continue"
            elif kind == "all":
                return "continue" if v else (False != self.negated)
            elif kind == "any":
                return (True != self.negated) if v else "continue"
        return "continue"

    def exhausted_result(self):
        return (self.quant == "all") != self.negated

    def literals(self):
        out = set()
        bodies = []
        for kind, (g, caps) in self.stages:
            bodies.append(g)
            # closures nested in a predicate
            for _, _, s in mir.stmts(g):
                if s["rv"]["k"] == "agg" and s["rv"].get("closure") in self.F.fns:
                    bodies.append(self.F.fns[s["rv"]["closure"]])
        for g in bodies:
            for _, _, s in mir.stmts(g):
                rv = s["rv"]
                if rv["k"] == "binop" and rv["op"] in ("Eq", "Ne", "Lt", "Le", "Gt", "Ge"):
                    for o in (rv["a"], rv["b"]):
                        c = mir.op_const(o)
                        if c is not None and "int" in c:
                            out.add(c["int"])
            for _, t in mir.calls(g):
                for o in t["args"]:
                    c = mir.op_const(o)
                    if c is not None and "int" in c and (t.get("callee") or "").split("::")[-1] in CMP_CALLS:
                        out.add(c["int"])
        return out


def predicate(F, fn):
    """the entry-wise decision procedure of fn, whichever of the recognised shapes it is written in"""
    try:
        return EntryPredicate(F, fn)
    except Shape as e1:
        try:
            return ChainPredicate(F, fn)
        except Shape as e2:
            # an adaptor that lives in a small helper of the crate (`fn material(&self) -> impl Iterator { self.iter().filter(..) }`)
            from .common import with_helpers
            try:
                fi = with_helpers(F, fn["path"], depth=2, limit=40)
            except Exception:
                fi = None
            if fi is not None and fi.get("inlined"):
                try:
                    return ChainPredicate(F, fi)
                except Shape as e3:
                    raise Shape("%s; %s; with helpers inlined: %s" % (e1, e2, e3))
            raise Shape("%s; %s" % (e1, e2))


def describe(sc, lits):
    r = sc["rank"]

    def rel(sym):
        x = r[sym]
        parts = []
        for n in lits:
            y = r[("const", n)]
            parts.append("%s%d" % ("<" if x < y else (">" if x > y else "="), n))
        return ",".join(parts)
    s = "entry %s" % rel(("iter",))
    if sc["present"] and ("get",) in r:
        s += "; other side present %s" % rel(("get",))
        s += "; iterated %s looked-up" % ("<" if r[("iter",)] < r[("get",)] else (">" if r[("iter",)] > r[("get",)] else "="))
    elif not sc["present"]:
        s += "; absent on the other side"
    return s
