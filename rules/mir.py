"""Small MIR toolkit over the JSON facts: CFG, dominators, def-use, provenance, pretty printer."""
from functools import lru_cache

# ------------------------------------------------------------------------------------------
# places / operands


def proj_str(p):
    k = p[0]
    if k == "d":
        return "*"
    if k == "f":
        return "." + p[1]
    if k == "dc":
        return " as " + p[1]
    if k == "i":
        return "[_%d]" % p[1]
    if k == "ci":
        return "[%s%d of %d]" % ("-" if p[3] else "", p[1], p[2])
    if k == "sub":
        return "[%d..%s%d]" % (p[1], "-" if p[3] else "", p[2])
    return "<%s>" % k


def place_str(pl):
    s = "_%d" % pl["l"]
    for p in pl["p"]:
        s += proj_str(p)
    return s


def op_place(op):
    """place of a copy/move operand, else None"""
    if op is None:
        return None
    return op.get("cp") or op.get("mv")


def op_const(op):
    c = op.get("c") if op else None
    if c is not None and "str" not in c and c.get("ty") == "&str":
        # pattern constants are valtrees: the driver prints them as a quoted literal
        t = c.get("txt", "")
        if len(t) >= 2 and t[0] == '"' and t[-1] == '"':
            body = t[1:-1]
            try:
                c["str"] = bytes(body, "utf-8").decode("unicode_escape") if "\\" in body else body
            except Exception:
                c["str"] = body
    return c


def op_str(op):
    pl = op_place(op)
    if pl is not None:
        return ("move " if "mv" in op else "") + place_str(pl)
    c = op_const(op)
    if c is not None:
        if "str" in c:
            return "const %r" % c["str"]
        if "int" in c:
            return "const %d_%s" % (c["int"], c["ty"])
        if "fn" in c:
            return "fn " + c["fn"]
        return "const " + c.get("txt", c["ty"])
    return str(op)


def rv_str(rv):
    k = rv["k"]
    if k == "use":
        return op_str(rv["op"])
    if k == "ref":
        return ("&mut " if rv["mut"] else "&") + place_str(rv["pl"])
    if k == "rawptr":
        return "&raw " + place_str(rv["pl"])
    if k == "cast":
        return "%s as %s (%s; from %s)" % (op_str(rv["op"]), rv["to"], rv["ck"], rv["from"])
    if k == "binop":
        return "%s(%s, %s) : %s" % (rv["op"], op_str(rv["a"]), op_str(rv["b"]), rv["ty"])
    if k == "unop":
        return "%s(%s)" % (rv["op"], op_str(rv["a"]))
    if k == "discr":
        return "discriminant(%s) [%s]" % (place_str(rv["pl"]), rv["adt"])
    if k == "agg":
        if "adt" in rv:
            head = "%s::%s" % (rv["adt"], rv["variant"])
        elif "closure" in rv:
            head = "closure " + rv["closure"]
        elif "tuple" in rv:
            head = "tuple"
        else:
            head = "array"
        return "%s(%s)" % (head, ", ".join(op_str(o) for o in rv["ops"]))
    if k == "setdiscr":
        return "setdiscr %d" % rv["v"]
    return rv.get("txt", k)


def callee_of(t):
    """best name for a call terminator's target"""
    return t.get("resolved") or t.get("callee") or "<indirect>"


def term_str(t):
    k = t["k"]
    if k == "call":
        return "%s = %s(%s) -> %s" % (place_str(t["dest"]), callee_of(t), ", ".join(op_str(a) for a in t["args"]),
                                      t["t"])
    if k == "switch":
        return "switch(%s) %s otherwise %s" % (op_str(t["discr"]), t["targets"], t["otherwise"])
    if k == "assert":
        return "assert(%s == %s, %s) -> %s" % (op_str(t["cond"]), t["expected"], t["msg"], t["t"])
    if k in ("goto", "drop", "yield"):
        return "%s -> %s" % (k, t["t"])
    return k


def pretty(fn):
    out = ["fn %s  [%s:%s]" % (fn["path"], fn["file"], fn["line"])]
    for i, ty in enumerate(fn["locals"]):
        out.append("  let _%d: %s" % (i, ty))
    for bi, b in enumerate(fn["blocks"]):
        out.append(" bb%d%s:" % (bi, " (cleanup)" if b["cleanup"] else ""))
        for s in b["s"]:
            out.append("    %s = %s   // L%s %s" % (place_str(s["lhs"]), rv_str(s["rv"]), s["line"], s["exp"]))
        out.append("    %s   // L%s %s" % (term_str(b["t"]), b["t"].get("line"), b["t"].get("exp", "")))
    return "\n".join(out)


# ------------------------------------------------------------------------------------------
# CFG


def succs_of(t):
    k = t["k"]
    if k in ("goto", "drop", "assert", "yield"):
        return [t["t"]]
    if k == "call":
        return [t["t"]] if t["t"] is not None else []
    if k == "switch":
        c = op_const(t["discr"])
        if c is not None and "int" in c:
            # branch on a literal constant (`if false && ..`): only the matching edge is feasible
            for v, b in t["targets"]:
                if v == c["int"]:
                    return [b]
            return [t["otherwise"]]
        out = [b for _, b in t["targets"]]
        out.append(t["otherwise"])
        return out
    return []


def block_succs(b):
    """successors of a block; a switch whose scrutinee was assigned a literal in this very block is decided"""
    t = b["t"]
    if t["k"] == "switch":
        pl = op_place(t["discr"])
        if pl is not None and not pl["p"]:
            val = None
            for s in b["s"]:
                if s["lhs"]["l"] == pl["l"] and not s["lhs"]["p"]:
                    c = op_const(s["rv"].get("op")) if s["rv"]["k"] == "use" else None
                    val = c["int"] if (c is not None and "int" in c) else None
            if val is not None:
                for v, tb in t["targets"]:
                    if v == val:
                        return [tb]
                return [t["otherwise"]]
    return succs_of(t)


def live_blocks(fn):
    """blocks reachable from the entry (constant branches pruned); cached on the fn record"""
    r = fn.get("_live")
    if r is None:
        seen = {0}
        st = [0]
        blocks = fn["blocks"]
        while st:
            x = st.pop()
            for y in block_succs(blocks[x]):
                if y not in seen:
                    seen.add(y)
                    st.append(y)
        r = seen
        fn["_live"] = r
    return r


class CFG:
    def __init__(self, fn):
        self.fn = fn
        self.blocks = fn["blocks"]
        n = len(self.blocks)
        self.succ = [block_succs(b) for b in self.blocks]
        self.pred = [[] for _ in range(n)]
        for i, ss in enumerate(self.succ):
            for s in ss:
                self.pred[s].append(i)
        self.reach = self._reach(0)
        self._dom = None
        self._pdom = None

    def _reach(self, start, succ=None):
        succ = succ or self.succ
        seen = {start}
        st = [start]
        while st:
            x = st.pop()
            for s in succ[x]:
                if s not in seen:
                    seen.add(s)
                    st.append(s)
        return seen

    def reach_from(self, start, avoid=()):
        """blocks reachable from `start` without passing *through* a block in avoid"""
        avoid = set(avoid)
        seen = {start}
        st = [start]
        while st:
            x = st.pop()
            if x in avoid and x != start:
                continue
            for s in self.succ[x]:
                if s not in seen:
                    seen.add(s)
                    st.append(s)
        return seen

    def dom(self):
        """dominator sets (block -> set of dominators), reachable blocks only"""
        if self._dom is not None:
            return self._dom
        nodes = sorted(self.reach)
        full = set(nodes)
        dom = {n: set(full) for n in nodes}
        dom[0] = {0}
        changed = True
        # reverse post order speeds convergence
        order = self._rpo()
        while changed:
            changed = False
            for n in order:
                if n == 0:
                    continue
                ps = [p for p in self.pred[n] if p in self.reach]
                new = set(full)
                for p in ps:
                    new &= dom[p]
                new.add(n)
                if new != dom[n]:
                    dom[n] = new
                    changed = True
        self._dom = dom
        return dom

    def _rpo(self):
        seen = set()
        order = []

        def dfs(n):
            stack = [(n, iter(self.succ[n]))]
            seen.add(n)
            while stack:
                node, it = stack[-1]
                adv = False
                for s in it:
                    if s not in seen:
                        seen.add(s)
                        stack.append((s, iter(self.succ[s])))
                        adv = True
                        break
                if not adv:
                    order.append(node)
                    stack.pop()
        dfs(0)
        order.reverse()
        return order

    def dominates(self, a, b):
        d = self.dom()
        return b in d and a in d[b]

    def exits(self):
        return [i for i in self.reach if self.blocks[i]["t"]["k"] == "return"]

    def back_edges(self):
        d = self.dom()
        out = []
        for n in self.reach:
            for s in self.succ[n]:
                if s in d[n]:
                    out.append((n, s))
        return out

    def loops(self):
        """natural loops: header -> set(blocks)"""
        loops = {}
        for (n, h) in self.back_edges():
            body = {h, n}
            st = [n]
            while st:
                x = st.pop()
                if x == h:
                    continue
                for p in self.pred[x]:
                    if p not in body and p in self.reach:
                        body.add(p)
                        st.append(p)
            loops.setdefault(h, set()).update(body)
        return loops

    def every_path_to_passes(self, target_blocks, through_blocks):
        """True iff every path entry -> any block in target_blocks passes a block in through_blocks
        (a through block that *is* the target counts)."""
        through = set(through_blocks)
        if 0 in through:
            return True
        seen = {0}
        st = [0]
        targets = set(target_blocks)
        while st:
            x = st.pop()
            if x in targets and x not in through:
                return False
            for s in self.succ[x]:
                if s in through or s in seen:
                    continue
                seen.add(s)
                st.append(s)
        return True


# ------------------------------------------------------------------------------------------
# def-use


class DefUse:
    """definition sites of locals: whole-local assignments and call destinations"""

    def __init__(self, fn):
        self.fn = fn
        self.defs = {}   # local -> list of ("stmt", bb, idx, stmt) | ("call", bb, term)
        self.partial = {}  # local -> list of stmts/calls writing through a projection
        for bi, b in enumerate(fn["blocks"]):
            for si, s in enumerate(b["s"]):
                lhs = s["lhs"]
                if not lhs["p"]:
                    self.defs.setdefault(lhs["l"], []).append(("stmt", bi, si, s))
                else:
                    self.partial.setdefault(lhs["l"], []).append(("stmt", bi, si, s))
            t = b["t"]
            if t["k"] == "call":
                d = t["dest"]
                if not d["p"]:
                    self.defs.setdefault(d["l"], []).append(("call", bi, None, t))
                else:
                    self.partial.setdefault(d["l"], []).append(("call", bi, None, t))

    def single_def(self, local):
        ds = self.defs.get(local, [])
        return ds[0] if len(ds) == 1 else None


# calls that pass their (first) argument through unchanged for provenance purposes
TRANSPARENT = (
    "std::clone::Clone::clone", "std::ops::Deref::deref", "std::ops::DerefMut::deref_mut",
    "std::convert::AsRef::as_ref", "std::borrow::Borrow::borrow", "std::boxed::Box::<T>::new",
    "std::string::ToString::to_string", "std::borrow::ToOwned::to_owned", "std::convert::Into::into",
    "std::convert::From::from", "std::string::String::as_str", "std::vec::Vec::<T, A>::as_slice",
    "std::option::Option::<T>::as_ref", "std::option::Option::<&T>::cloned", "std::option::Option::<T>::as_deref",
    "std::ops::Try::branch", "std::iter::IntoIterator::into_iter", "std::hint::must_use",
    "std::option::Option::<&T>::copied", "std::result::Result::<T, E>::as_ref", "std::string::String::as_bytes",
    "core::str::<impl str>::as_bytes", "std::option::Option::<T>::as_mut", "std::convert::AsMut::as_mut",
    "std::rc::Rc::<T>::new", "std::iter::Iterator::cloned", "std::iter::Iterator::copied",
)


def is_transparent(t, extra=()):
    n = t.get("callee") or ""
    if not n:
        return False
    for pat in TRANSPARENT + tuple(extra):
        if n == pat:
            return True
    return False


class Origin:
    """result of provenance: kind in {arg, call, const, agg, local, unknown}"""
    __slots__ = ("kind", "local", "proj", "bb", "callee", "const", "through", "term", "rv")

    def __init__(self, kind, **kw):
        self.kind = kind
        self.local = kw.get("local")
        self.proj = kw.get("proj", ())
        self.bb = kw.get("bb")
        self.callee = kw.get("callee")
        self.const = kw.get("const")
        self.through = kw.get("through", ())
        self.term = kw.get("term")
        self.rv = kw.get("rv")

    def __repr__(self):
        if self.kind == "arg":
            return "arg%d%s" % (self.local, "".join(self.proj))
        if self.kind == "call":
            return "call@bb%d(%s)%s" % (self.bb, self.callee, "".join(self.proj))
        if self.kind == "const":
            return "const(%s)" % (self.const.get("str", self.const.get("int", self.const.get("fn", self.const.get("txt")))),)
        if self.kind == "agg":
            return "agg(%s)%s" % (self.rv.get("adt", self.rv.get("closure", "tuple")) + ("::" + self.rv["variant"] if "variant" in self.rv else ""), "".join(self.proj))
        return "%s(_%s)%s" % (self.kind, self.local, "".join(self.proj))


def provenance(fn, du, op_or_place, transparent_extra=(), max_depth=40, stop_at_calls=None):
    """Backward def-use walk.  Returns a list of Origin (a join returns several).

    Walks through Use/Ref/Deref/CopyForDeref/Cast and calls in TRANSPARENT; the projection path
    that has been applied on the way back is kept in Origin.proj (outermost last), as strings.
    `through` records the callee names of transparent calls crossed.
    """
    results = []
    seen = set()

    def walk(local, proj, depth, through):
        key = (local, proj)
        if key in seen or depth > max_depth:
            if depth > max_depth:
                results.append(Origin("unknown", local=local, proj=proj))
            return
        seen.add(key)
        if 1 <= local <= fn["argc"] and not du.defs.get(local):
            results.append(Origin("arg", local=local, proj=proj, through=through))
            return
        ds = du.defs.get(local, [])
        if not ds:
            if 1 <= local <= fn["argc"]:
                results.append(Origin("arg", local=local, proj=proj, through=through))
            else:
                results.append(Origin("local", local=local, proj=proj, through=through))
            return
        for d in ds:
            if d[0] == "call":
                t = d[3]
                if (stop_at_calls is None or not stop_at_calls(t)) and is_transparent(t, transparent_extra) and t["args"]:
                    a = t["args"][0]
                    pl = op_place(a)
                    nm = callee_of(t)
                    if pl is not None:
                        walk(pl["l"], tuple(proj_str(p) for p in pl["p"] if p[0] != "d") + proj, depth + 1, through + (nm,))
                    else:
                        results.append(Origin("const", const=op_const(a), through=through + (nm,)))
                else:
                    results.append(Origin("call", bb=d[1], callee=callee_of(t), proj=proj, through=through, term=t))
            else:
                rv = d[3]["rv"]
                k = rv["k"]
                if k == "use" or k == "cast":
                    o = rv["op"]
                    pl = op_place(o)
                    if pl is not None:
                        walk(pl["l"], tuple(proj_str(p) for p in pl["p"] if p[0] != "d") + proj, depth + 1, through)
                    else:
                        results.append(Origin("const", const=op_const(o), through=through))
                elif k in ("ref", "rawptr"):
                    pl = rv["pl"]
                    walk(pl["l"], tuple(proj_str(p) for p in pl["p"] if p[0] != "d") + proj, depth + 1, through)
                elif k == "agg":
                    # a projection applied later onto an aggregate selects one operand
                    if proj and "adt" in rv and rv.get("fields"):
                        # proj[0] may be " as Variant", then ".field"
                        pj = [x for x in proj if not x.startswith(" as ")]
                        if pj and pj[0].startswith(".") and pj[0][1:] in rv["fields"]:
                            idx = rv["fields"].index(pj[0][1:])
                            rest = tuple(proj[proj.index(pj[0]) + 1:])
                            o = rv["ops"][idx]
                            pl = op_place(o)
                            if pl is not None:
                                walk(pl["l"], tuple(proj_str(p) for p in pl["p"] if p[0] != "d") + rest, depth + 1, through)
                            else:
                                results.append(Origin("const", const=op_const(o), through=through))
                            continue
                    if proj and "tuple" in rv:
                        pj = proj[0]
                        if pj.startswith(".") and pj[1:].isdigit() and int(pj[1:]) < len(rv["ops"]):
                            o = rv["ops"][int(pj[1:])]
                            pl = op_place(o)
                            if pl is not None:
                                walk(pl["l"], tuple(proj_str(p) for p in pl["p"] if p[0] != "d") + proj[1:], depth + 1, through)
                            else:
                                results.append(Origin("const", const=op_const(o), through=through))
                            continue
                    results.append(Origin("agg", rv=rv, bb=d[1], proj=proj, through=through))
                else:
                    results.append(Origin("local", local=local, proj=proj, through=through, rv=rv, bb=d[1]))

    if "l" in op_or_place:
        pl = op_or_place
    else:
        pl = op_place(op_or_place)
        if pl is None:
            return [Origin("const", const=op_const(op_or_place))]
    walk(pl["l"], tuple(proj_str(p) for p in pl["p"] if p[0] != "d"), 0, ())
    return results


# ------------------------------------------------------------------------------------------
# iteration helpers


def calls(fn):
    """yield (bb index, terminator) for call terminators in non-cleanup blocks"""
    live = live_blocks(fn)
    for bi, b in enumerate(fn["blocks"]):
        if b["cleanup"] or bi not in live:
            continue
        t = b["t"]
        if t["k"] == "call":
            yield bi, t


def stmts(fn):
    live = live_blocks(fn)
    for bi, b in enumerate(fn["blocks"]):
        if b["cleanup"] or bi not in live:
            continue
        for si, s in enumerate(b["s"]):
            yield bi, si, s


def all_operands_of_rv(rv):
    k = rv["k"]
    if k in ("use", "cast", "repeat"):
        return [rv["op"]]
    if k == "binop":
        return [rv["a"], rv["b"]]
    if k == "unop":
        return [rv["a"]]
    if k == "agg":
        return list(rv["ops"])
    return []


def fn_consts(fn):
    """all constants (dicts) mentioned in operands of the function"""
    for bi, b in enumerate(fn["blocks"]):
        if b["cleanup"]:
            continue
        for s in b["s"]:
            for o in all_operands_of_rv(s["rv"]):
                c = op_const(o)
                if c is not None:
                    yield bi, c
        t = b["t"]
        if t["k"] == "call":
            for a in t["args"]:
                c = op_const(a)
                if c is not None:
                    yield bi, c
        elif t["k"] == "switch":
            c = op_const(t["discr"])
            if c is not None:
                yield bi, c


def promoted_str(F, c):
    """string value of a constant operand, looking through promoted constants (`&"lit"` behind a reference)"""
    if c is None:
        return None
    if "str" in c:
        return c["str"]
    if "promoted" in c and "uneval" in c:
        body = F.promoted.get((c["uneval"], c["promoted"]))
        if body is not None:
            for bi, b in enumerate(body["blocks"]):
                for s in b["s"]:
                    for o in all_operands_of_rv(s["rv"]):
                        cc = op_const(o)
                        if cc is not None and "str" in cc:
                            return cc["str"]
    if "uneval" in c and "promoted" not in c:
        # a named constant item (`const PLUTUS_WITNESS_DIRECTIVE: &str = "plutus_witness";`): its initialiser
        body = getattr(F, "ctfe", {}).get(c["uneval"])
        if body is not None:
            vals = set()
            for bi, b in enumerate(body["blocks"]):
                for s in b["s"]:
                    if s["lhs"]["l"] == 0 and not s["lhs"]["p"]:
                        for o in all_operands_of_rv(s["rv"]):
                            cc = op_const(o)
                            if cc is not None and "str" in cc:
                                vals.add(cc["str"])
                            elif cc is not None and ("uneval" in cc):
                                v = promoted_str(F, cc) if cc.get("uneval") != c["uneval"] or "promoted" in cc else None
                                if v is not None:
                                    vals.add(v)
            if len(vals) == 1:
                return next(iter(vals))
    return None


# ------------------------------------------------------------------------------------------
# inlining (bounded): intraprocedural rules stay exact when code is extracted into a private helper


def _shift_place(pl, off):
    return {"l": pl["l"] + off, "p": [([p[0], p[1] + off] + list(p[2:]) if p[0] == "i" else p) for p in pl["p"]]}


def _shift_op(op, off):
    if op is None:
        return None
    if "cp" in op:
        return {"cp": _shift_place(op["cp"], off)}
    if "mv" in op:
        return {"mv": _shift_place(op["mv"], off)}
    return op


def _shift_rv(rv, off):
    r = dict(rv)
    for k in ("op", "a", "b"):
        if k in r and isinstance(r[k], dict):
            r[k] = _shift_op(r[k], off)
    if "ops" in r:
        r["ops"] = [_shift_op(o, off) for o in r["ops"]]
    if "pl" in r:
        r["pl"] = _shift_place(r["pl"], off)
    return r


def _shift_term(t, off_l, off_b, ret_block):
    r = dict(t)
    k = r["k"]
    if k == "return":
        return {"k": "goto", "t": ret_block, "line": r.get("line"), "exp": r.get("exp", ""), "inl_return": True}
    if "t" in r and r["t"] is not None:
        r["t"] = r["t"] + off_b
    if k == "call":
        r["dest"] = _shift_place(r["dest"], off_l)
        r["args"] = [_shift_op(a, off_l) for a in r["args"]]
    elif k == "switch":
        r["discr"] = _shift_op(r["discr"], off_l)
        r["targets"] = [[v, b + off_b] for v, b in r["targets"]]
        r["otherwise"] = r["otherwise"] + off_b if r["otherwise"] is not None else None
    elif k == "assert":
        r["cond"] = _shift_op(r["cond"], off_l)
    elif k == "drop":
        r["pl"] = _shift_place(r["pl"], off_l)
    elif k == "yield":
        r["value"] = _shift_op(r["value"], off_l)
    return r


def inline_calls(F, fn, want=None, depth=2, max_blocks=1500):
    """A synthetic fn record: `fn` with calls to workspace functions replaced by the callee's body.

    want(t, callee_fn) -> bool selects call sites (default: every non-async, non-recursive workspace function that is not a
    trait method and has at most 150 blocks).  Locals and blocks of the callee are appended (renumbered); parameters are assigned from the
    arguments in the calling block, `return` becomes a jump to a landing block that assigns the call's destination.  Each
    inlined statement / terminator carries "inl": <callee path>.  Original block and local numbers of `fn` are unchanged.
    """
    import copy
    cache = fn.setdefault("_inl_cache", {})
    ck = (id(want), depth)
    if ck in cache:
        return cache[ck]
    if want is None:
        want = default_inline_policy
    g = {k: v for k, v in fn.items() if not k.startswith("_")}
    g["blocks"] = copy.deepcopy(fn["blocks"])
    g["locals"] = list(fn["locals"])
    g["vars"] = list(fn.get("vars", ()))
    g["inlined"] = []
    # (block index, remaining depth, stack of callee paths)
    work = [(bi, depth, (fn["path"],)) for bi in range(len(g["blocks"]))]
    while work:
        bi, d, stack = work.pop(0)
        if d <= 0 or len(g["blocks"]) > max_blocks:
            continue
        b = g["blocks"][bi]
        t = b["t"]
        if b["cleanup"] or t["k"] != "call":
            continue
        if (t.get("callee") or "") in ("std::ops::FnOnce::call_once", "std::ops::FnMut::call_mut", "std::ops::Fn::call") and len(t["args"]) == 2:
            # a closure handed to an (inlined) helper and called there: inline the closure's body when the callee operand is,
            # by provenance, exactly one closure aggregate of this (inlined) body
            du_c = DefUse(g)
            prov_c = provenance(g, du_c, t["args"][0])
            clos = {o.rv["closure"] for o in prov_c if o.kind == "agg" and "closure" in o.rv}
            fnitems = {(o.const.get("fn_resolved") or o.const["fn"]) for o in prov_c if o.kind == "const" and "fn" in o.const}
            others = [o for o in prov_c if not (o.kind == "agg" and "closure" in o.rv) and not (o.kind == "const" and "fn" in o.const)]
            is_item = False
            if len(fnitems) == 1 and not clos and not others and next(iter(fnitems)) not in F.fns:
                # a tuple-variant constructor handed over as a function value (`lower_binary_op(.., BuiltInOp::Add)`): the
                # call builds that variant from the argument tuple
                ctor = next(iter(fnitems))
                adt_p, _, vname = ctor.rpartition("::")
                adt_d = getattr(F, "adts", {}).get(adt_p)
                var_d = next((v_ for v_ in (adt_d or {}).get("variants", []) if v_["name"] == vname), None) if adt_d else None
                apl = op_place(t["args"][1])
                if var_d is not None and apl is not None and t.get("t") is not None and all(fd_["name"].isdigit() for fd_ in var_d["fields"]):
                    ops_ = [{"mv": {"l": apl["l"], "p": list(apl["p"]) + [["f", fd_["name"], "tuple", "", fd_["ty"]]]}} for fd_ in var_d["fields"]]
                    tdefs = du_c.defs.get(apl["l"], []) if not apl["p"] else []
                    if len(tdefs) == 1 and tdefs[0][0] == "stmt" and tdefs[0][3]["rv"]["k"] == "agg" and "tuple" in tdefs[0][3]["rv"] and len(tdefs[0][3]["rv"]["ops"]) == len(ops_):
                        # the argument tuple was packed right here: its components are the operands
                        ops_ = list(tdefs[0][3]["rv"]["ops"])
                    b["s"].append({"lhs": t["dest"], "rv": {"k": "agg", "adt": adt_p, "variant": vname, "fields": [fd_["name"] for fd_ in var_d["fields"]], "ops": ops_},
                                   "line": t.get("line"), "exp": t.get("exp", ""), "ctor_call": ctor})
                    b["t"] = {"k": "goto", "t": t["t"], "line": t.get("line"), "exp": t.get("exp", "")}
                    continue
            if len(fnitems) == 1 and not clos and not others and next(iter(fnitems)) in F.fns:
                clos = set(fnitems)
                is_item = True
            if len(clos) == 1 and not others and (is_item or not fnitems):
                cp = next(iter(clos))
                cb_ = F.fns.get(cp)
                if cb_ is not None and cp not in stack and not cb_.get("coroutine") and len(cb_["blocks"]) <= 150 and (not is_item or want(t, cb_)):
                    off_l = len(g["locals"])
                    off_b = len(g["blocks"])
                    g["locals"].extend(cb_["locals"])
                    for nm, pl in cb_.get("vars", ()):
                        g["vars"].append([nm, _shift_place(pl, off_l)])
                    nblocks = len(cb_["blocks"])
                    ret_block = off_b + nblocks
                    for cbi, cb in enumerate(cb_["blocks"]):
                        nb = {"cleanup": cb["cleanup"], "s": [], "inl": cb.get("inl", cp), "inl_bb": cb.get("inl_bb", cbi)}
                        for s_ in cb["s"]:
                            ns = dict(s_)
                            ns["lhs"] = _shift_place(s_["lhs"], off_l)
                            ns["rv"] = _shift_rv(s_["rv"], off_l)
                            ns["inl"] = cp
                            nb["s"].append(ns)
                        nt = _shift_term(cb["t"], off_l, off_b, ret_block)
                        nt["inl"] = cp
                        nb["t"] = nt
                        g["blocks"].append(nb)
                    land = {"cleanup": False, "inl": cp, "s": [{"lhs": t["dest"], "rv": {"k": "use", "op": {"mv": {"l": off_l, "p": []}}},
                                                                "line": t.get("line"), "exp": t.get("exp", ""), "inl_ret": cp}],
                            "t": ({"k": "goto", "t": t["t"], "line": t.get("line"), "exp": ""} if t["t"] is not None
                                  else {"k": "unreachable", "line": t.get("line"), "exp": ""})}
                    g["blocks"].append(land)
                    # environment, then the tupled arguments spread over the closure's parameters
                    first = 1
                    if not is_item:
                        b["s"].append({"lhs": {"l": off_l + 1, "p": []}, "rv": {"k": "use", "op": t["args"][0]}, "line": t.get("line"), "exp": "", "inl_arg": cp})
                        first = 2
                    tpl = op_place(t["args"][1])
                    for i in range(cb_["argc"] - (first - 1)):
                        if tpl is not None:
                            src = {"cp": {"l": tpl["l"], "p": list(tpl["p"]) + [["f", str(i), "tuple", "", g["locals"][off_l + first + i]]]}}
                            b["s"].append({"lhs": {"l": off_l + first + i, "p": []}, "rv": {"k": "use", "op": src}, "line": t.get("line"), "exp": "", "inl_arg": cp})
                    b["t"] = {"k": "goto", "t": off_b, "line": t.get("line"), "exp": t.get("exp", ""), "inl_call": cp, "orig_call": t}
                    g["inlined"].append(cp)
                    _thread_returns(g, off_l, off_b, nblocks, ret_block, t["dest"], t["t"], wrap=None)
                    for j in range(nblocks):
                        work.append((off_b + j, d - 1, stack + (cp,)))
            continue
        r = t.get("resolved") or (t.get("callee") if not t.get("trait") else None)
        if not r or r in stack:
            continue
        if r in F.built and F.built[r].get("coroutine") and r.endswith("::{closure#0}"):
            # `.await` of a workspace async fn: the poll call of its coroutine body
            if _inline_await(F, g, bi, t, r, want):
                nb0 = g["_last_inl"]
                for j in range(nb0[0], nb0[1]):
                    work.append((j, d - 1, stack + (r,)))
            continue
        if r not in F.fns:
            continue
        callee = F.fns[r]
        if callee.get("is_async") or callee.get("coroutine") or callee["argc"] != len(t["args"]):
            continue
        if not want(t, callee):
            continue
        off_l = len(g["locals"])
        off_b = len(g["blocks"])
        g["locals"].extend(callee["locals"])
        for nm, pl in callee.get("vars", ()):
            g["vars"].append([nm, _shift_place(pl, off_l)])
        nblocks = len(callee["blocks"])
        ret_block = off_b + nblocks
        subst = _generic_subst(callee, t)
        for cbi, cb in enumerate(callee["blocks"]):
            nb = {"cleanup": cb["cleanup"], "s": [], "inl": cb.get("inl", r), "inl_bb": cb.get("inl_bb", cbi)}
            for s in cb["s"]:
                ns = dict(s)
                ns["lhs"] = _shift_place(s["lhs"], off_l)
                ns["rv"] = _shift_rv(s["rv"], off_l)
                ns["inl"] = r
                nb["s"].append(ns)
            nt = _shift_term(cb["t"], off_l, off_b, ret_block)
            nt["inl"] = r
            if subst and nt["k"] == "call":
                _instantiate_call(F, nt, subst)
                # closures created in a generic helper inherit its type parameters: whoever follows them needs the instance
                nt["subst"] = dict(subst, **(nt.get("subst") or {}))
            nb["t"] = nt
            g["blocks"].append(nb)
        # landing block: dest = move callee._0 ; goto original target
        land = {"cleanup": False, "inl": r, "s": [{"lhs": t["dest"], "rv": {"k": "use", "op": {"mv": {"l": off_l, "p": []}}},
                                                   "line": t.get("line"), "exp": t.get("exp", ""), "inl_ret": r}],
                "t": ({"k": "goto", "t": t["t"], "line": t.get("line"), "exp": ""} if t["t"] is not None
                      else {"k": "unreachable", "line": t.get("line"), "exp": ""})}
        g["blocks"].append(land)
        for i, a in enumerate(t["args"]):
            b["s"].append({"lhs": {"l": off_l + 1 + i, "p": []}, "rv": {"k": "use", "op": a}, "line": t.get("line"),
                           "exp": t.get("exp", ""), "inl_arg": r})
        b["t"] = {"k": "goto", "t": off_b, "line": t.get("line"), "exp": t.get("exp", ""), "inl_call": r, "orig_call": t}
        g["inlined"].append(r)
        _thread_returns(g, off_l, off_b, nblocks, ret_block, t["dest"], t["t"], wrap=None)
        for j in range(nblocks):
            work.append((off_b + j, d - 1, stack + (r,)))
    g.pop("_last_inl", None)
    cache[ck] = g
    return g


def instantiate_body(F, fn, subst):
    """copy of a (closure) body with the trait calls on type parameters resolved for this instance of the enclosing generic fn"""
    import copy
    g = copy.deepcopy(fn)
    g["path"] = fn["path"] + "<" + ",".join("%s=%s" % kv for kv in sorted(subst.items())) + ">"
    g["instance_of"] = fn["path"]
    for b in g["blocks"]:
        if b["t"]["k"] == "call":
            _instantiate_call(F, b["t"], subst)
            b["t"]["subst"] = dict(subst)
    return g


def _generic_subst(callee, t):
    """generic parameter name -> the call site's argument for it (type parameters only)"""
    names = callee.get("generics") or []
    gargs = t.get("gargs") or []
    if not names or len(names) != len(gargs):
        return {}
    return {n: a for n, a in zip(names, gargs) if not n.startswith("'") and n != a}


_IMPL_INDEX = {}


def _impl_index(F):
    idx = _IMPL_INDEX.get(id(F))
    if idx is None:
        idx = {}
        for f in F.fns.values():
            if f.get("impl_trait") and f.get("name") and f.get("impl_self"):
                idx[(f["impl_trait"], f["name"], f["impl_self"])] = f["path"]
        _IMPL_INDEX[id(F)] = idx
    return idx


def _instantiate_call(F, t, subst):
    """a trait-method call on a type parameter inside an inlined generic helper: resolve it to the workspace impl of the type
    the helper was instantiated with (`T::parse(pair)` in `parse_all::<EnvField>` is `<EnvField as AstNode>::parse`)"""
    import re as _re
    if t.get("gargs"):
        t["gargs"] = [subst.get(a, a) for a in t["gargs"]]
    # a trait method of the type parameter handed over as a function value (`pairs.map(T::parse)`): the impl of the instance
    newrefs = None
    for a in t.get("args") or ():
        c = a.get("c") if isinstance(a, dict) else None
        if c and "fn" in c:
            m2 = _re.search(r"\{<(\w+) as ([^>]+(?:<[^>]*>)?)>::(\w+)\}", c.get("ty") or "")
            if m2 and m2.group(1) in subst:
                r2 = _impl_index(F).get((m2.group(2), m2.group(3), subst[m2.group(1)]))
                if r2:
                    c = dict(c)
                    old_path = c.get("fn_resolved") or c["fn"]
                    c["fn_resolved"] = r2
                    a["c"] = c
                    newrefs = [r2 if x in (old_path, c["fn"]) else x for x in (newrefs if newrefs is not None else (t.get("fnrefs") or []))]
    if newrefs is not None:
        t["fnrefs"] = newrefs
    if not t.get("trait") or (t.get("resolved") and t["resolved"] in F.fns):
        return
    m = _re.match(r"^<(.+?) as ", t.get("callee_args") or "")
    if not m:
        return
    selfty = subst.get(m.group(1))
    if not selfty:
        return
    r = _impl_index(F).get((t["trait"], t.get("method"), selfty))
    if r:
        t["resolved"] = r
        t["resolved_kind"] = "item"
        t["instantiated_from"] = m.group(1)


AWAIT_TRANSPARENT = ("std::pin::Pin::<Ptr>::new_unchecked", "std::future::IntoFuture::into_future",
                     "<F as std::future::IntoFuture>::into_future")


def _inline_await(F, g, bi, t, r, want):
    """inline the pre-transform coroutine body `r` (= X::{closure#0} of an async fn X) at its poll call in block bi of g.
    The future must have been created by a call of X in g; X's arguments become the coroutine's captured variables."""
    owner = r[:-len("::{closure#0}")]
    ofn = F.fns.get(owner)
    if ofn is None or not want(t, ofn):
        return False
    du = DefUse(g)
    creators = []
    for o in provenance(g, du, t["args"][0], transparent_extra=AWAIT_TRANSPARENT):
        if o.kind == "call" and (o.term.get("resolved") == owner or o.term.get("callee") == owner):
            creators.append(o.term)
    if len(creators) != 1:
        return False
    ct = creators[0]
    callee = F.built[r]
    b = g["blocks"][bi]
    off_l = len(g["locals"])
    off_b = len(g["blocks"])
    g["locals"].extend(callee["locals"])
    for nm, pl in callee.get("vars", ()):
        g["vars"].append([nm, _shift_place(pl, off_l)])
    nblocks = len(callee["blocks"])
    ret_block = off_b + nblocks
    for cbi, cb in enumerate(callee["blocks"]):
        nb = {"cleanup": cb["cleanup"], "s": [], "inl": cb.get("inl", r), "inl_bb": cb.get("inl_bb", cbi)}
        for s in cb["s"]:
            ns = dict(s)
            ns["lhs"] = _shift_place(s["lhs"], off_l)
            ns["rv"] = _shift_rv(s["rv"], off_l)
            ns["inl"] = r
            nb["s"].append(ns)
        nt = _shift_term(cb["t"], off_l, off_b, ret_block)
        nt["inl"] = r
        nb["t"] = nt
        g["blocks"].append(nb)
    # where the awaiting code continues with Poll::Ready
    nxt = t["t"]
    ready = nxt
    if nxt is not None:
        sw = g["blocks"][nxt]["t"]
        if sw["k"] == "switch" and any(st["rv"]["k"] == "discr" and st["rv"].get("adt", "").endswith("task::Poll") for st in g["blocks"][nxt]["s"]):
            for v, tb in sw["targets"]:
                if v == 0:
                    ready = tb
    land = {"cleanup": False, "inl": r,
            "s": [{"lhs": t["dest"], "rv": {"k": "agg", "adt": "std::task::Poll", "variant": "Ready", "fields": ["0"], "adt_args": "",
                                              "ops": [{"mv": {"l": off_l, "p": []}}]},
                   "line": t.get("line"), "exp": t.get("exp", ""), "inl_ret": r}],
            "t": ({"k": "goto", "t": ready, "line": t.get("line"), "exp": ""} if ready is not None
                  else {"k": "unreachable", "line": t.get("line"), "exp": ""})}
    g["blocks"].append(land)
    b["s"].append({"lhs": {"l": off_l + 1, "p": []}, "rv": {"k": "agg", "tuple": True, "ops": list(ct["args"])},
                   "line": t.get("line"), "exp": t.get("exp", ""), "inl_arg": r})
    if len(t["args"]) > 1:
        b["s"].append({"lhs": {"l": off_l + 2, "p": []}, "rv": {"k": "use", "op": t["args"][1]}, "line": t.get("line"),
                       "exp": t.get("exp", ""), "inl_arg": r})
    b["t"] = {"k": "goto", "t": off_b, "line": t.get("line"), "exp": t.get("exp", ""), "inl_call": r, "orig_call": t, "creator": ct}
    g["inlined"].append(owner)
    g["_last_inl"] = (off_b, off_b + nblocks)
    _thread_returns(g, off_l, off_b, nblocks, ret_block, t["dest"], ready, wrap="Ready")
    return True


_VARIANT_INDEX = {"Ok": 0, "Err": 1, "None": 0, "Some": 1, "Continue": 0, "Break": 1}


def _trivial_chain_to(g, start, goal, limit=40):
    """does every path from block `start` reach block `goal` through goto / drop / drop-flag switches only (statements
    allowed: drop-flag bookkeeping and unit assignments)?"""
    seen = set()
    st = [start]
    while st:
        x = st.pop()
        if x == goal or x in seen:
            continue
        seen.add(x)
        if len(seen) > limit:
            return False
        bx = g["blocks"][x]
        t = bx["t"]
        if t["k"] not in ("goto", "drop", "switch"):
            return False
        for stmt in bx["s"]:
            rv = stmt["rv"]
            if rv["k"] == "discr":
                continue
            if rv["k"] == "use" and op_const(rv["op"]) is not None:
                continue
            return False
        nxt = succs_of(t)
        if not nxt:
            return False
        st.extend(nxt)
    return True


def _thread_returns(g, off_l, off_b, nblocks, ret_block, dest, cont, wrap):
    """Keep the callee's Ok/Err (Some/None) returns apart in the caller: when the call's continuation immediately tests the
    returned value (`?`, `match`, `if let`), each return site of the inlined body whose variant is syntactically known jumps
    to a private copy of that test with only its own edge.  Without this the returns join in one landing block and an
    error path of the helper would seem to continue into the caller's success path."""
    if cont is None:
        return
    ret_local = off_l  # callee's _0
    blocks = g["blocks"]
    # the continuation: [dest -> Try::branch ->] discriminant switch
    cb = blocks[cont]
    pre = []   # (statements, call terminator) executed before the switch, to be copied
    sw_block = None
    tested = dest
    if wrap is not None:
        # async: continuation starts with `x = move (dest as Ready).0 ; y = move x`, then drops, then the test
        sw_block = None
    chain = []
    x = cont
    hops = 0
    # walk forward through gotos/drops collecting statements until a call or switch
    stmts_acc = []
    while hops < 8:
        bx = blocks[x]
        stmts_acc.extend(bx["s"])
        tk = bx["t"]["k"]
        if tk in ("goto", "drop"):
            x = bx["t"]["t"]
            hops += 1
            continue
        break
    bx = blocks[x]
    branch_call = None
    if bx["t"]["k"] == "call" and (bx["t"].get("callee") or "").endswith("std::ops::Try>::branch") or \
            (bx["t"]["k"] == "call" and (bx["t"].get("callee") or "") == "std::ops::Try::branch"):
        branch_call = bx["t"]
        x2 = branch_call["t"]
        if x2 is None:
            return
        bx2 = blocks[x2]
        if bx2["t"]["k"] != "switch":
            return
        switch_block = x2
        post_stmts = bx2["s"]
    elif bx["t"]["k"] == "switch" and any(st["rv"]["k"] == "discr" for st in bx["s"]):
        switch_block = x
        post_stmts = []
    else:
        return
    sw = blocks[switch_block]["t"]
    tmap = dict((v, tb) for v, tb in sw["targets"])

    def edge(idx):
        return tmap.get(idx, sw["otherwise"])

    # definition sites of the callee's return place with a known variant
    for j in range(off_b, off_b + nblocks):
        bj = blocks[j]
        if bj["cleanup"]:
            continue
        variant = None
        for st in bj["s"]:
            if st["lhs"]["l"] == ret_local and not st["lhs"]["p"]:
                rv = st["rv"]
                if rv["k"] == "agg" and rv.get("variant") in ("Ok", "Err", "Some", "None") and \
                        rv.get("adt", "").rsplit("::", 1)[-1] in ("Result", "Option"):
                    variant = rv["variant"]
                else:
                    variant = None
        tj = bj["t"]
        nxt = None
        if tj["k"] == "call" and tj["dest"]["l"] == ret_local and not tj["dest"]["p"]:
            if "from_residual" in (tj.get("callee") or ""):
                variant = "Err" if "Result" in g["locals"][ret_local][:30] else ("None" if "Option" in g["locals"][ret_local][:30] else None)
            else:
                variant = None
            nxt = tj["t"]
        elif tj["k"] in ("goto", "drop"):
            nxt = tj["t"]
        if variant is None or nxt is None:
            continue
        if not _trivial_chain_to(g, nxt, ret_block):
            continue
        idx = _VARIANT_INDEX[variant]
        target = edge(idx)
        if target is None:
            continue
        # private landing: dest = [Ready(]ret[)] ; copied continuation statements ; [branch call ;] copied switch statements ; goto edge
        first = len(blocks)
        if wrap:
            land_s = [{"lhs": dest, "rv": {"k": "agg", "adt": "std::task::Poll", "variant": "Ready", "fields": ["0"], "adt_args": "",
                                           "ops": [{"mv": {"l": ret_local, "p": []}}]}, "line": None, "exp": "", "inl_ret": True}]
        else:
            land_s = [{"lhs": dest, "rv": {"k": "use", "op": {"mv": {"l": ret_local, "p": []}}}, "line": None, "exp": "", "inl_ret": True}]
        land_s = land_s + [dict(st) for st in stmts_acc]
        if branch_call is not None:
            bc = dict(branch_call)
            bc["t"] = first + 1
            blocks.append({"cleanup": False, "s": land_s, "t": bc, "threaded": variant})
            blocks.append({"cleanup": False, "s": [dict(st) for st in post_stmts],
                           "t": {"k": "goto", "t": target, "line": sw.get("line"), "exp": "", "threaded_edge": variant}, "threaded": variant})
        else:
            blocks.append({"cleanup": False, "s": land_s,
                           "t": {"k": "goto", "t": target, "line": sw.get("line"), "exp": "", "threaded_edge": variant}, "threaded": variant})
        if tj["k"] == "call":
            tj["t"] = first
        else:
            bj["t"] = dict(tj)
            bj["t"]["t"] = first


def default_inline_policy(t, callee):
    """plain functions and inherent methods (no trait methods: those are traversal steps or library protocol), small enough"""
    if callee.get("impl_trait") or callee.get("trait_default"):
        return False
    return len(callee["blocks"]) <= 150


# ------------------------------------------------------------------------------------------
# control flow under a known value of an enum parameter (finite case analysis)


def reach_under_variant(fn, param_local, adt, variant, discr, variants_by_name, F=None):
    return reach_under_variants(fn, {param_local: variant}, adt, variants_by_name, F=F)


def reach_under_variants(fn, fixed, adt, variants_by_name, F=None):
    """blocks reachable from the entry when each parameter in `fixed` ({local: variant name}, all of enum type `adt`) holds the
    given variant (several parameters at once: the case table of a binary operation on an enum):
    switches on its discriminant, and on the result of comparing it (==, !=) with a literal variant of the same enum, take only
    the edge that value selects; every other branch is followed both ways"""
    blocks = fn["blocks"]
    du = DefUse(fn)

    def is_param(op_or_pl):
        """the fixed parameter this place is (a copy of), or None"""
        pl = op_or_pl if "l" in op_or_pl else op_place(op_or_pl)
        if pl is None:
            return None
        hit = set()
        for o in provenance(fn, du, pl):
            if o.kind == "arg" and o.local in fixed and not [p for p in o.proj if not p.startswith(" as ")]:
                hit.add(o.local)
            else:
                return None
        return hit.pop() if len(hit) == 1 else None

    def lit_variant(op):
        outs = set()
        for o in provenance(fn, du, op):
            if o.kind == "agg" and o.rv.get("adt") == adt:
                outs.add(o.rv["variant"])
            elif o.kind == "const" and F is not None and "promoted" in o.const and "uneval" in o.const:
                body = F.promoted.get((o.const["uneval"], o.const["promoted"]))
                hit = []
                if body is not None:
                    for bi2, si2, st2 in stmts(body):
                        if st2["rv"]["k"] == "agg" and st2["rv"].get("adt") == adt:
                            hit.append(st2["rv"]["variant"])
                outs |= set(hit) if len(hit) == 1 else {None}
            elif o.kind == "const":
                txt = o.const.get("txt", "")
                hit = [n for n in variants_by_name if txt.endswith("::" + n) or ("::" + n + " ") in txt or ("::" + n + ")") in txt]
                if "int" in o.const and not hit:
                    hit = [n for n, d in variants_by_name.items() if d == o.const["int"]]
                outs |= set(hit) if hit else {None}
            else:
                outs.add(None)
        return outs.pop() if len(outs) == 1 else None

    known = {}   # local -> ("discr",) | ("bool", b)
    for bi, b in enumerate(blocks):
        for s in b["s"]:
            rv = s["rv"]
            if rv["k"] == "discr" and is_param(rv["pl"]) is not None:
                known[s["lhs"]["l"]] = ("discr", is_param(rv["pl"]))
        t = b["t"]
        if t["k"] == "call" and len(t["args"]) == 2 and (t.get("callee") or "") in ("std::cmp::PartialEq::eq", "std::cmp::PartialEq::ne"):
            a, c = t["args"]
            other = None
            who = None
            if is_param(a) is not None:
                other = lit_variant(c)
                who = is_param(a)
            elif is_param(c) is not None:
                other = lit_variant(a)
                who = is_param(c)
            if other is not None:
                eq = (other == fixed[who])
                known[t["dest"]["l"]] = ("bool", eq if t["callee"].endswith("::eq") else not eq)
    seen = {0}
    st = [0]
    while st:
        x = st.pop()
        b = blocks[x]
        t = b["t"]
        nxt = None
        if t["k"] == "switch":
            pl = op_place(t["discr"])
            kv = None
            if pl is not None and not pl["p"]:
                kv = known.get(pl["l"])
                if kv is None:
                    # copies of a known local
                    for d in du.defs.get(pl["l"], []):
                        if d[0] == "stmt" and d[3]["rv"]["k"] == "use":
                            p2 = op_place(d[3]["rv"]["op"])
                            if p2 is not None and not p2["p"] and p2["l"] in known:
                                kv = known[p2["l"]]
                        elif d[0] == "stmt" and d[3]["rv"]["k"] == "unop" and d[3]["rv"].get("op") == "Not":
                            p2 = op_place(d[3]["rv"]["a"])
                            if p2 is not None and p2["l"] in known and known[p2["l"]][0] == "bool":
                                kv = ("bool", not known[p2["l"]][1])
            if kv is not None:
                val = variants_by_name[fixed[kv[1]]] if kv[0] == "discr" else (1 if kv[1] else 0)
                tm = dict((v, tb) for v, tb in t["targets"])
                nxt = [tm.get(val, t["otherwise"])]
        if nxt is None:
            nxt = block_succs(b)
        for y in nxt:
            if y is not None and y not in seen and not blocks[y]["cleanup"]:
                seen.add(y)
                st.append(y)
    return seen


# ------------------------------------------------------------------------------------------
# path-wise symbolic walk under known enum parameters (case tables of operations on small enums)


def walk_under_variants(fn, fixed, adt, discr_of, max_paths=64, max_steps=4000):
    """Follow the control flow of `fn` with the parameters in `fixed` ({local: variant name}) known, carrying for every local
    which value it holds *on this path*: a parameter (with the projections applied), an aggregate of known variant, a tuple,
    the result of a call, a literal.  Branches on a known discriminant take one edge; unknown branches are explored both ways.
    Yields the symbolic value of the return place for each path that returns.  Values:
        ("param", k, proj)  ("agg", adt, variant, [values])  ("tuple", [values])  ("call", name, [values])  ("const", c)  ("?",)"""
    blocks = fn["blocks"]
    results = []
    stack = [(0, {k: ("param", k, ()) for k in fixed}, 0)]
    paths = 0

    def proj_val(v, projs):
        for p in projs:
            if p[0] == "d":
                continue
            if v[0] == "param":
                v = ("param", v[1], v[2] + ((p[0], p[1]),))
            elif v[0] == "tuple" and p[0] == "f" and p[1].isdigit() and int(p[1]) < len(v[1]):
                v = v[1][int(p[1])]
            elif v[0] == "agg" and p[0] == "dc":
                if v[2] != p[1]:
                    return ("?",)
            elif v[0] == "agg" and p[0] == "f" and p[1].isdigit() and int(p[1]) < len(v[3]):
                v = v[3][int(p[1])]
            else:
                return ("?",)
        return v

    def ev_op(env, op):
        c = op_const(op)
        if c is not None:
            return ("const", c.get("int", c.get("txt")))
        pl = op_place(op)
        if pl is None:
            return ("?",)
        return proj_val(env.get(pl["l"], ("?",)), pl["p"])

    def discr_value(v):
        if v[0] == "param" and not [p for p in v[2] if p[0] != "dc"] and v[1] in fixed:
            return discr_of[fixed[v[1]]]
        if v[0] == "agg" and v[1] == adt:
            return discr_of.get(v[2])
        return None

    steps = 0
    while stack:
        bb, env, depth = stack.pop()
        while True:
            steps += 1
            if steps > max_steps:
                return None
            b = blocks[bb]
            env = dict(env)
            for s in b["s"]:
                rv = s["rv"]
                k = rv["k"]
                if k in ("use", "cast"):
                    v = ev_op(env, rv["op"])
                elif k in ("ref", "rawptr"):
                    v = proj_val(env.get(rv["pl"]["l"], ("?",)), rv["pl"]["p"])
                elif k == "agg":
                    ops = [ev_op(env, o) for o in rv["ops"]]
                    if "tuple" in rv:
                        v = ("tuple", ops)
                    elif "adt" in rv:
                        v = ("agg", rv["adt"], rv["variant"], ops)
                    else:
                        v = ("?",)
                elif k == "discr":
                    dv = discr_value(proj_val(env.get(rv["pl"]["l"], ("?",)), rv["pl"]["p"]))
                    v = ("discr", dv) if dv is not None else ("?",)
                else:
                    v = ("?",)
                if not s["lhs"]["p"]:
                    env[s["lhs"]["l"]] = v
            t = b["t"]
            kk = t["k"]
            if kk == "return":
                results.append(env.get(0, ("?",)))
                paths += 1
                break
            if kk in ("goto", "drop", "assert"):
                bb = t["t"]
                continue
            if kk == "call":
                if not t["dest"]["p"]:
                    env[t["dest"]["l"]] = ("call", (t.get("callee") or "?"), [ev_op(env, a) for a in t["args"]])
                if t["t"] is None:
                    break
                bb = t["t"]
                continue
            if kk == "switch":
                pl = op_place(t["discr"])
                v = env.get(pl["l"]) if pl is not None and not pl["p"] else None
                if v is not None and v[0] == "discr":
                    tm = dict((x, y) for x, y in t["targets"])
                    bb = tm.get(v[1], t["otherwise"])
                    continue
                succ = [y for _, y in t["targets"]] + [t["otherwise"]]
                if paths + len(stack) > max_paths:
                    return None
                for y in succ[1:]:
                    if y is not None:
                        stack.append((y, env, depth + 1))
                bb = succ[0]
                continue
            break
    return results
