"""Obligations, findings, known-findings matching, evidence writing."""
import json
import os
import re
import time

from .facts import VERIF, REPO, BrokenCheck

KNOWN_FILE = os.path.join(VERIF, "tables", "known_findings.json")


class Ob:
    """One obligation of a rule.

    key     -- stable instance key: no line numbers, no block numbers
    status  -- "ok" (discharged), "finding" (undischarged: the rule reports this construct),
               "assumption" (listed, trusted, not decided)
    """
    __slots__ = ("rule", "key", "where", "status", "by", "detail")

    def __init__(self, rule, key, where, status, by="", detail=""):
        self.rule = rule
        self.key = key
        self.where = where
        self.status = status
        self.by = by
        self.detail = detail

    def to_json(self):
        d = {"rule": self.rule, "key": self.key, "where": self.where, "status": self.status}
        if self.by:
            d["by"] = self.by
        if self.detail:
            d["detail"] = self.detail
        return d


def ok(rule, key, where, by, detail=""):
    return Ob(rule, key, where, "ok", by, detail)


def finding(rule, key, where, detail):
    return Ob(rule, key, where, "finding", "", detail)


def assumption(rule, key, where, detail):
    return Ob(rule, key, where, "assumption", "", detail)


def where(f, line=None):
    p = f["file"]
    if p.startswith(REPO + "/"):
        p = p[len(REPO) + 1:]
    return "%s:%s" % (p, line if line is not None else f["line"])


def short(path):
    """shorten a def path for keys: drop crate-internal module noise but stay unique"""
    return path


class Result:
    def __init__(self, prop):
        self.prop = prop
        self.obs = []
        self.analysed = {}   # counters: functions, call sites, ...
        self.floors = []     # (name, measured, floor)
        self.notes = []
        self.rules = {}      # rule id -> text

    def add(self, obs):
        self.obs.extend(obs)

    def rule(self, rid, text):
        self.rules[rid] = text

    def count(self, name, n):
        self.analysed[name] = self.analysed.get(name, 0) + n

    def floor(self, name, measured, floor):
        self.floors.append((name, measured, floor))

    def note(self, s):
        self.notes.append(s)


def load_known():
    if not os.path.exists(KNOWN_FILE):
        return []
    with open(KNOWN_FILE) as fh:
        return json.load(fh)


_CRATE = None


def _site_signature(full):
    """(rule, crate, site kind...) of a `RULE|fn path|kind|what...` key; None when the key has no function component"""
    import re
    parts = full.split("|")
    if len(parts) < 3:
        return None
    rule, fnpath, rest = parts[0], parts[1], parts[2:]
    if rest and re.fullmatch(r"#\d+", rest[-1].strip()):
        rest = rest[:-1]
    rest = [re.sub(r"\s+#\d+$", "", x) for x in rest]
    if not rest:
        return None
    m = re.search(r"\btx3[a-z_]*", fnpath)
    if not m:
        return None
    return (rule, m.group(0)) + tuple(rest)


def finish(res, tier, t0, level="other", explanation="", trusted_base=(), assumptions=(), not_decided=(), seed=0,
           configs=("default",), digest=""):
    """match findings against the known-findings file, write evidence, print verdict; returns exit code"""
    prop = res.prop
    known = [k for k in load_known() if k["property"] == prop]
    known_keys = {k["key"]: k for k in known if k.get("status", "known") == "known"}
    fixed_keys = {k["key"]: k for k in known if k.get("status") == "fixed"}
    broken = []
    for name, measured, floor in res.floors:
        if measured < floor:
            broken.append("floor %s: measured %d < %d" % (name, measured, floor))
    # duplicate keys would make suppression ambiguous: make them unique with a multiplicity index
    seen = {}
    for o in res.obs:
        n = seen.get((o.rule, o.key), 0)
        seen[(o.rule, o.key)] = n + 1
        if n:
            o.key = "%s #%d" % (o.key, n + 1)
    findings = [o for o in res.obs if o.status == "finding"]
    violations = []
    known_hit = []
    for o in findings:
        full = "%s|%s" % (o.rule, o.key)
        if full in known_keys:
            known_hit.append((o, known_keys[full]))
        else:
            violations.append(o)
    # Relocation: a listed finding whose enclosing function was renamed, or whose site was extracted into a helper / inlined
    # into its caller, is still the same finding (the same input fails).  It is recognised only when the listed row went
    # stale in this very run and an unlisted finding of the same rule, in the same crate, with the same site signature
    # (the key without its function component and multiplicity) appeared instead: one stale row excuses one finding.
    hit_keys = {"%s|%s" % (o.rule, o.key) for o, _ in known_hit}
    stale_rows = {}
    for full, k in known_keys.items():
        if full not in hit_keys:
            sg = _site_signature(full)
            if sg:
                stale_rows.setdefault(sg, []).append(k)
    relocated = []
    if stale_rows:
        rest = []
        for o in violations:
            sg = _site_signature("%s|%s" % (o.rule, o.key))
            if sg and stale_rows.get(sg):
                # one stale row excuses every relocated finding with its signature (a helper inlined into several callers
                # duplicates the site); rows are consumed only to keep the pairing stable in the report
                k = stale_rows[sg][0] if len(stale_rows[sg]) == 1 else stale_rows[sg].pop(0)
                known_hit.append((o, k))
                relocated.append((o, k))
            else:
                rest.append(o)
        violations = rest
    # Hardening: a listed failure site that used to *panic* (K1/K2/K4 of the COVER inventory) and went stale, while an unlisted
    # `Err(..)` site of the same rule appeared in the same function (or a closure of it): the panic was turned into an error
    # return.  The same accepted program still fails there - gracefully now - so it is the listed finding, not a new one.
    # One stale row excuses one such site.
    def _owner(full):
        parts = full.split("|")
        return re.sub(r"(::\{closure#\d+\})+$", "", parts[1]) if len(parts) > 2 else None
    still_stale = [(full, k) for full, k in known_keys.items() if full not in hit_keys and not any(k is kk for _, kk in relocated)]
    if still_stale and violations:
        rest = []
        for o in violations:
            full_o = "%s|%s" % (o.rule, o.key)
            po = full_o.split("|")
            match = None
            if len(po) > 3 and po[2] == "Err":
                for i, (full, k) in enumerate(still_stale):
                    pk = full.split("|")
                    if pk[0] == po[0] and len(pk) > 3 and re.fullmatch(r"K[124]", pk[2]) and _owner(full) == _owner(full_o):
                        match = i
                        break
            if match is not None:
                full, k = still_stale.pop(match)
                known_hit.append((o, k))
                relocated.append((o, k))
            else:
                rest.append(o)
        violations = rest
    evdir = os.environ.get("VERIF_EVIDENCE_DIR") or os.path.join(VERIF, "evidence")
    os.makedirs(evdir, exist_ok=True)
    for fn in os.listdir(evdir):
        if fn.startswith(prop + ".violation-"):
            os.unlink(os.path.join(evdir, fn))
    lines = []
    reloc_ids = {id(o) for o, _ in relocated}
    for o, k in known_hit:
        lines.append("KNOWN-FINDING: property=%s %s [%s] %s%s" % (
            prop, k.get("what", o.detail), o.rule, o.where,
            " (relocated: listed as %s, now %s)" % (k["key"], o.key) if id(o) in reloc_ids else ""))
    replay_paths = []
    for i, o in enumerate(violations):
        rp = os.path.join(evdir, "%s.violation-%d.json" % (prop, i))
        with open(rp, "w") as fh:
            json.dump({
                "property": prop, "rule": o.rule, "rule_text": res.rules.get(o.rule, ""), "key": o.key, "where": o.where,
                "detail": o.detail,
                "was_fixed_before": ("%s|%s" % (o.rule, o.key)) in fixed_keys,
                "rederive": "cd /verif && ./check %s --tier %s" % (prop, tier),
            }, fh, indent=1)
        replay_paths.append(rp)
        lines.append("VIOLATION property=%s replay=%s" % (prop, rp))
        lines.append("  rule %s at %s: %s" % (o.rule, o.where, o.detail))
    n_ob = len([o for o in res.obs if o.status in ("ok", "finding")])
    n_ok = len([o for o in res.obs if o.status == "ok"])
    samples = []
    per_rule = {}
    for o in res.obs:
        per_rule.setdefault(o.rule, {"ok": 0, "finding": 0, "assumption": 0})[o.status] += 1
    seen_rules = set()
    for o in res.obs:
        if o.rule not in seen_rules or o.status == "finding":
            if o.rule not in seen_rules or len(samples) < 60:
                samples.append(o.to_json())
            seen_rules.add(o.rule)
    stale = [k["key"] for k in known if k.get("status", "known") == "known" and k["key"] not in
             {"%s|%s" % (o.rule, o.key) for o in findings}]
    ev = {
        "property_id": prop,
        "tier": tier,
        "seed": seed,
        "level": level,
        "coverage": {
            "explanation": explanation,
            "obligations": n_ob,
            "discharged": n_ok,
            "findings": len(findings),
            "known_findings_hit": [{"key": "%s|%s" % (o.rule, o.key), "where": o.where, "what": k.get("what", "")} for o, k in known_hit],
            "unlisted_violations": [o.to_json() for o in violations],
            "rules": res.rules,
            "per_rule": per_rule,
            "analysed": res.analysed,
            "floors": [{"name": n, "measured": m, "floor": f} for n, m, f in res.floors],
            "samples": samples,
            "checker_cmd": "./check %s --tier %s" % (prop, tier),
            "trusted_base": list(trusted_base),
            "not_decided": list(not_decided),
            "configs": list(configs),
            "source_digest": digest,
            "stale_known_rows": stale,
            "relocated_known_findings": [{"listed": k["key"], "now": "%s|%s" % (o.rule, o.key), "where": o.where} for o, k in relocated],
            "notes": res.notes,
            "exhaustive": True,
        },
        "assumptions": list(assumptions) + [o.detail for o in res.obs if o.status == "assumption"][:40],
        "wall_s": round(time.time() - t0, 2),
        "violations": len(violations),
    }
    with open(os.path.join(evdir, prop + ".json"), "w") as fh:
        json.dump(ev, fh, indent=1)
    for l in lines:
        print(l)
    print("%s [%s]: %d obligations, %d discharged, %d findings (%d known, %d unlisted); analysed %s; %.1fs" % (
        prop, tier, n_ob, n_ok, len(findings), len(known_hit), len(violations),
        ", ".join("%s=%d" % kv for kv in sorted(res.analysed.items())), time.time() - t0))
    if broken:
        for b in broken:
            print("BROKEN-CHECK property=%s %s" % (prop, b))
        return 2
    return 1 if violations else 0
