"""Functions found by the role they play (what they build, whose field they feed, their signature), not by their private name."""
from . import mir
from .facts import BrokenCheck

_CACHE = {}


def _owner(F, f):
    while f.get("owner") and f["owner"] in F.fns:
        f = F.fns[f["owner"]]
    return f


def builder_of(F, crate, adt_suffix):
    """the function (closures count as their owner) of `crate` that builds a value of the ADT whose path ends with adt_suffix"""
    k = (id(F), "builder", crate, adt_suffix)
    if k not in _CACHE:
        hits = []
        for f in F.fns.values():
            if f["crate"] != crate or f.get("derived"):
                continue
            if any(s["rv"]["k"] == "agg" and s["rv"].get("adt", "").endswith(adt_suffix) and s["rv"].get("fields") for _, _, s in mir.stmts(f)):
                o = _owner(F, f)["path"]
                if o not in hits:
                    hits.append(o)
        if len(hits) != 1:
            raise BrokenCheck("expected exactly one function of %s building a %s, found %r" % (crate, adt_suffix, hits))
        _CACHE[k] = hits[0]
    return _CACHE[k]


def feeder_of(F, builder_path, adt_suffix, field):
    """the workspace function of the builder's crate whose result becomes `field` of the aggregate built in builder_path"""
    k = (id(F), "feeder", builder_path, adt_suffix, field)
    if k not in _CACHE:
        f = F.fns[builder_path]
        du = mir.DefUse(f)
        hit = None
        for bi, si, s in mir.stmts(f):
            rv = s["rv"]
            if rv["k"] == "agg" and rv.get("adt", "").endswith(adt_suffix) and field in (rv.get("fields") or []):
                for o in mir.provenance(f, du, rv["ops"][rv["fields"].index(field)], transparent_extra=("std::option::Option::<T>::map", "std::iter::Iterator::collect")):
                    if o.kind == "call" and o.callee in F.fns and F.fns[o.callee]["crate"] == f["crate"]:
                        hit = o.callee
        if hit is None:
            raise BrokenCheck("no function of the crate feeds %s.%s in %s" % (adt_suffix, field, builder_path))
        _CACHE[k] = hit
    return _CACHE[k]


def by_signature(F, crate, params, ret_contains, exclude_traits=True, name_hint=None):
    """plain functions of `crate` whose parameter types are exactly `params` and whose return type mentions ret_contains"""
    out = []
    for f in F.fns.values():
        if f["crate"] != crate or f.get("derived") or f["def_kind"] == "Closure" or (exclude_traits and f.get("impl_trait")):
            continue
        if f["locals"][1:1 + f["argc"]] == list(params) and ret_contains in f["locals"][0]:
            out.append(f["path"])
    if name_hint and len(out) > 1:
        pref = [p for p in out if p.endswith(name_hint)]
        if len(pref) == 1:
            return pref
    return sorted(out)
